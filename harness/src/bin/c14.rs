//! C14 — ignoring a lint hides that lint, only that lint, and keeps hiding it.
//!
//! Correspondence with Model/Ignore.v (extracted), designed around what is observable:
//!   C  the token indices of LintContext::from_lint (prequel ++ problem ++ sequel).  The context type is
//!      private, so the harness rebuilds it (`Mirror`) from those indices and prints them only when the
//!      DefaultHasher hash of the rebuilt context EQUALS the hash the real IgnoredLints exported;
//!      otherwise it prints `MISMATCH` (the code no longer builds what the model says).
//!   X  (lint1, doc1, lint2, doc2): after `ignore_lint(lint1, doc1)` on a fresh list, is
//!      `is_ignored(lint2, doc2)`?  The model answers by equality of the two contexts, computed from the
//!      fat tokens dumped from the real Documents.  (modulo hash collisions, monitored)
//!   J  import of a JSON text into an empty list: the resulting set, or E for a rejected text.
//!   H  a history of ignore / is_ignored / remove_ignored / export+import / clear on one list.
//! Search oracle = the property text, on IgnoredLints directly, through harper_wasm::Linter and through
//! harper-ls DocumentState.  "Edited elsewhere" covers text edits and — since a word's dictionary
//! metadata is not part of the text — the same text re-parsed after words were added to the dictionary.
use harper_core::linting::{Lint, LintGroup, LintKind, Linter, Suggestion};
use harper_core::{Dialect, Document, FatToken, FstDictionary, IgnoredLints, MergedDictionary, MutableDictionary, Punctuation, Span, TokenKind, WordMetadata};
use harper_core::parsers::{Parser, PlainEnglish};
use hv::common::*;
use hv::gen;
use serde_json::{json, Value};
use std::collections::{BTreeSet, HashMap};
use std::hash::{DefaultHasher, Hash, Hasher};
use std::sync::Arc;

// ------------------------------------------------------------------------------------------------
// encoding of documents and lints for the model driver
// ------------------------------------------------------------------------------------------------

/// 62-bit code of a hashed field (OCaml ints are 63-bit); injectivity is monitored (`KindMon`).
fn code<T: Hash>(t: &T) -> u64 {
    let mut h = DefaultHasher::new();
    t.hash(&mut h);
    h.finish() & 0x3FFF_FFFF_FFFF_FFFF
}

fn kind_str(k: &TokenKind) -> String {
    match k {
        TokenKind::Word(None) => "W -".into(),
        TokenKind::Word(Some(m)) => format!("W {}", code(m)),
        TokenKind::Punctuation(Punctuation::Quote(q)) => match q.twin_loc {
            None => "Q -".into(),
            Some(n) => format!("Q {n}"),
        },
        TokenKind::Punctuation(p) => format!("P {}", code(p)),
        TokenKind::Decade => "D".into(),
        TokenKind::Number(n) => format!("N {} {} {} {}", code(&n.value), n.suffix.map(|s| code(&s).to_string()).unwrap_or("-".into()), n.radix, n.precision),
        TokenKind::Space(n) => format!("S {n}"),
        TokenKind::Newline(n) => format!("L {n}"),
        TokenKind::EmailAddress => "E".into(),
        TokenKind::Url => "U".into(),
        TokenKind::Hostname => "H".into(),
        TokenKind::Unlintable => "X".into(),
        TokenKind::ParagraphBreak => "B".into(),
        TokenKind::Regexish => "R".into(),
    }
}

/// Monitors that the encoding of token kinds is injective and functional on everything dumped.
#[derive(Default)]
struct KindMon {
    by_code: HashMap<String, TokenKind>,
    by_kind: HashMap<TokenKind, String>,
    violations: u64,
    example: String,
}
impl KindMon {
    fn see(&mut self, k: &TokenKind) -> String {
        self.see_with(k, kind_str)
    }
    fn see_with(&mut self, k: &TokenKind, enc: fn(&TokenKind) -> String) -> String {
        let s = enc(k);
        match self.by_code.get(&s) {
            Some(k0) if k0 != k => {
                self.violations += 1;
                self.example = format!("{s}: {k0:?} vs {k:?}");
            }
            Some(_) => {}
            None => {
                self.by_code.insert(s.clone(), k.clone());
            }
        }
        match self.by_kind.get(k) {
            Some(s0) if *s0 != s => {
                self.violations += 1;
                self.example = format!("{k:?}: {s0} vs {s}");
            }
            Some(_) => {}
            None => {
                self.by_kind.insert(k.clone(), s.clone());
            }
        }
        s
    }
}

fn doc_str(doc: &Document, km: &mut KindMon) -> String {
    let toks: Vec<String> = doc.get_tokens().iter().map(|t| format!("{} {} {}", t.span.start, t.span.end, km.see(&t.kind))).collect();
    format!("{};{}", cps(doc.get_source()), toks.join(","))
}

fn sugg_str(s: &Suggestion) -> String {
    match s {
        Suggestion::ReplaceWith(c) => format!("R {}", cps(c)).trim().to_string(),
        Suggestion::InsertAfter(c) => format!("I {}", cps(c)).trim().to_string(),
        Suggestion::Remove => "D".into(),
    }
}

fn lint_str(l: &Lint) -> String {
    format!(
        "{} {} {} {};{};{}",
        l.span.start,
        l.span.end,
        l.lint_kind as usize,
        l.priority,
        cps(&l.message.chars().collect::<Vec<_>>()),
        l.suggestions.iter().map(sugg_str).collect::<Vec<_>>().join(",")
    )
}

// ------------------------------------------------------------------------------------------------
// phase 5: the byte stream of the derived Hash (stream B) — a Hasher that records what it is fed
// ------------------------------------------------------------------------------------------------

/// records every byte `Hash::hash` writes (all `write_*` methods of `Hasher` default to `write`;
/// `write_str` = bytes + 0xFF, `write_length_prefix` = `write_usize`)
#[derive(Default)]
struct RecHasher {
    bytes: Vec<u8>,
}
impl Hasher for RecHasher {
    fn finish(&self) -> u64 {
        0
    }
    fn write(&mut self, b: &[u8]) {
        self.bytes.extend_from_slice(b);
    }
}
fn stream_of<T: Hash>(t: &T) -> Vec<u8> {
    let mut h = RecHasher::default();
    t.hash(&mut h);
    h.bytes
}
fn u64_at(b: &[u8], i: usize) -> u64 {
    let mut w = [0u8; 8];
    w.copy_from_slice(&b[8 * i..8 * i + 8]);
    u64::from_le_bytes(w)
}
fn hex(b: &[u8]) -> String {
    if b.is_empty() {
        return "-".into();
    }
    b.iter().map(|x| format!("{x:02x}")).collect()
}

/// token kinds for stream B: the codes are the discriminants the implementation itself feeds to a hasher
/// (P: index of the Punctuation variant, 64 + index of the currency for Currency(c); N: the u64 OrderedFloat hashes,
/// in binary; suffix: index of the NumberSuffix variant)
fn kind_str_b(k: &TokenKind) -> String {
    match k {
        TokenKind::Punctuation(Punctuation::Quote(_)) | TokenKind::Word(_) => kind_str(k),
        TokenKind::Punctuation(p) => {
            let st = stream_of(p);
            if st.len() == 8 { format!("P {}", u64_at(&st, 0)) } else { format!("P {}", 64 + u64_at(&st, 1)) }
        }
        TokenKind::Number(n) => format!(
            "N b{:b} {} {} {}",
            u64_at(&stream_of(&n.value), 0),
            n.suffix.map(|s| u64_at(&stream_of(&s), 0).to_string()).unwrap_or("-".into()),
            n.radix,
            n.precision
        ),
        _ => kind_str(k),
    }
}
fn doc_str_b(doc: &Document, km: &mut KindMon) -> String {
    let toks: Vec<String> = doc.get_tokens().iter().map(|t| format!("{} {} {}", t.span.start, t.span.end, km.see_with(&t.kind, kind_str_b))).collect();
    format!("{};{}", cps(doc.get_source()), toks.join(","))
}

// ------------------------------------------------------------------------------------------------
// the mirror of the private LintContext (validated against the exported hash on every use)
// ------------------------------------------------------------------------------------------------

#[derive(Hash, PartialEq, Eq, Clone, Debug)]
struct Mirror {
    lint_kind: LintKind,
    suggestions: Vec<Suggestion>,
    message: String,
    priority: u8,
    tokens: Vec<FatToken>,
}

fn intersecting(doc: &Document, a: usize, b: usize) -> Vec<usize> {
    doc.get_tokens().iter().enumerate().filter(|(_, t)| t.span.start < b && a < t.span.end).map(|(i, _)| i).collect()
}

/// the indices the model predicts: [s-2 (saturating), s), [s,e), [e,e+2)
fn mirror_indices(l: &Lint, doc: &Document) -> Vec<usize> {
    let (s, e) = (l.span.start, l.span.end);
    let mut v = intersecting(doc, s.saturating_sub(2), s);
    v.extend(intersecting(doc, s, e));
    v.extend(intersecting(doc, e, e + 2));
    v
}

/// the context the model predicts: the fat tokens at those indices, twin_loc and word metadata blanked
fn mirror(l: &Lint, doc: &Document) -> (Vec<usize>, Mirror) {
    let idx = mirror_indices(l, doc);
    let mut m = mirror_of(l, doc, &idx);
    m.tokens = m.tokens.into_iter().map(blank).collect();
    (idx, m)
}

fn fat(doc: &Document, i: usize) -> FatToken {
    doc.get_tokens()[i].to_fat(doc.get_source())
}

fn mirror_of(l: &Lint, doc: &Document, idx: &[usize]) -> Mirror {
    Mirror {
        lint_kind: l.lint_kind,
        suggestions: l.suggestions.clone(),
        message: l.message.clone(),
        priority: l.priority,
        tokens: idx.iter().map(|i| fat(doc, *i)).collect(),
    }
}

fn hash_of<T: Hash>(t: &T) -> u64 {
    let mut h = DefaultHasher::default();
    t.hash(&mut h);
    h.finish()
}

fn exported(ig: &IgnoredLints) -> Vec<u64> {
    let v = serde_json::to_value(ig).unwrap();
    let mut out: Vec<u64> = v["context_hashes"].as_array().map(|a| a.iter().filter_map(|x| x.as_u64()).collect()).unwrap_or_default();
    out.sort();
    out
}

/// the hash the implementation stores for (lint, doc)
fn real_hash(l: &Lint, doc: &Document) -> Option<u64> {
    let mut ig = IgnoredLints::new();
    ig.ignore_lint(l, doc);
    exported(&ig).first().copied()
}

// ------------------------------------------------------------------------------------------------
// the property's own notion of neighbourhood (written from the property text, not from the code)
// ------------------------------------------------------------------------------------------------

/// a token is its kind and its text: the partner index of a quotation mark is a position, the metadata of
/// a word is a fact about the dictionary of the moment — neither is part of "the tokens" of the property
fn blank(mut f: FatToken) -> FatToken {
    if let TokenKind::Punctuation(Punctuation::Quote(q)) = &mut f.kind {
        q.twin_loc = None;
    }
    if let TokenKind::Word(m) = &mut f.kind {
        *m = None;
    }
    f
}
fn blank_twin_only(mut f: FatToken) -> FatToken {
    if let TokenKind::Punctuation(Punctuation::Quote(q)) = &mut f.kind {
        q.twin_loc = None;
    }
    f
}
fn blank_meta_only(mut f: FatToken) -> FatToken {
    if let TokenKind::Word(m) = &mut f.kind {
        *m = None;
    }
    f
}

/// (tokens within two characters before, flagged tokens, tokens within two characters after), position-free
fn neighbourhood(l: &Lint, doc: &Document) -> (Vec<FatToken>, Vec<FatToken>, Vec<FatToken>) {
    let (s, e) = (l.span.start, l.span.end);
    let f = |a: usize, b: usize| intersecting(doc, a, b).into_iter().map(|i| blank(fat(doc, i))).collect::<Vec<_>>();
    (f(s.saturating_sub(2), s), f(s, e), f(e, e + 2))
}

fn same_report(a: &Lint, b: &Lint) -> bool {
    a.message == b.message && a.lint_kind == b.lint_kind && a.suggestions == b.suggestions
}

// ------------------------------------------------------------------------------------------------
// environment
// ------------------------------------------------------------------------------------------------

struct Env {
    dict: Arc<FstDictionary>,
    group: LintGroup,
    km: KindMon,
    /// hash -> context: collisions among all contexts seen (monitor of hash_injective_on)
    seen: HashMap<u64, Mirror>,
    collisions: u64,
    mirror_mismatch: u64,
    c_cases: usize,
    x_cases: usize,
    q_cases: usize,
    prepend_premise_broken: u64,
    aligned_checked: u64,
    aligned_broken: u64,
    /// stream B: injectivity of the discriminant-based kind encoding, cases, violations of "SipHash is a function of the
    /// concatenated bytes" (one write of the recorded stream must give the stored hash)
    km_b: KindMon,
    b_cap: usize,
    b_from_c: usize,
    b_cases: usize,
    b_stream_bytes: u64,
    stream_rehash_broken: u64,
}

impl Env {
    fn new() -> Self {
        let dict = FstDictionary::curated();
        let mut group = LintGroup::new_curated(dict.clone(), Dialect::American);
        group.set_all_rules_to(Some(true));
        Env { dict, group, km: Default::default(), seen: Default::default(), collisions: 0, mirror_mismatch: 0, c_cases: 0, x_cases: 0, q_cases: 0, prepend_premise_broken: 0, aligned_checked: 0, aligned_broken: 0, km_b: Default::default(), b_cap: 2500, b_from_c: 0, b_cases: 0, b_stream_bytes: 0, stream_rehash_broken: 0 }
    }
    fn document(&self, text: &str, lang: &str) -> Document {
        if lang == "markdown" {
            Document::new_markdown_default(text, &self.dict)
        } else {
            Document::new_plain_english(text, &self.dict)
        }
    }
    fn lint(&mut self, text: &str, lang: &str) -> Option<(Document, Vec<Lint>)> {
        let r = guarded(|| {
            let d = self.document(text, lang);
            let l = self.group.lint(&d);
            (d, l)
        });
        r.ok()
    }
    /// the same text parsed and linted (all rules on) after `words` were added to a user dictionary
    fn lint_with_words(&self, text: &str, lang: &str, words: &[String]) -> Option<(Document, Vec<Lint>)> {
        guarded(|| {
            let mut user = MutableDictionary::new();
            for w in words {
                user.append_word_str(w, WordMetadata::default());
            }
            let mut merged = MergedDictionary::new();
            merged.add_dictionary(self.dict.clone());
            merged.add_dictionary(Arc::new(user));
            let merged = Arc::new(merged);
            let d = if lang == "markdown" { Document::new_markdown_default(text, &merged) } else { Document::new_plain_english(text, &merged) };
            let mut group = LintGroup::new_curated(merged.clone(), Dialect::American);
            group.set_all_rules_to(Some(true));
            let l = group.lint(&d);
            (d, l)
        })
        .ok()
    }
    /// validated context of (lint, doc): Some(mirror) when the rebuilt context hashes to the stored value
    fn context(&mut self, rep: &mut Report, l: &Lint, doc: &Document, inp: &Value) -> Option<(Vec<usize>, Mirror, u64)> {
        let (idx, m) = mirror(l, doc);
        let h = real_hash(l, doc)?;
        if hash_of(&m) != h {
            // a broken tie, not a failure of the property: shown by the `MISMATCH` lines of the C cases
            // (correspondence) and by the monitor; the property oracle keeps searching on its own
            self.mirror_mismatch += 1;
            let _ = inp;
            return None;
        }
        match self.seen.get(&h) {
            Some(m0) if *m0 != m => {
                // hash_injective_on is a premise of C14_only / C14_ignored_iff about DefaultHasher, monitored on the
                // universe explored here: a collision is REPORTED (monitor + sample with both contexts), it is a fact
                // about SipHash and not a failure of the property (C14_collision_hides says what follows from it)
                self.collisions += 1;
                if self.collisions <= 5 {
                    rep.sample(json!({"hash_collision": h.to_string(), "context_a": format!("{m0:?}"), "context_b": format!("{m:?}"), "input": inp}));
                }
            }
            Some(_) => {}
            None => {
                self.seen.insert(h, m.clone());
            }
        }
        Some((idx, m, h))
    }
}

// ------------------------------------------------------------------------------------------------
// correspondence cases
// ------------------------------------------------------------------------------------------------

fn case_c(rep: &mut Report, env: &mut Env, l: &Lint, doc: &Document, inp: &Value) {
    if doc.get_source().len() > 600 {
        return;
    }
    let line = format!("C {} | {}", lint_str(l), doc_str(doc, &mut env.km));
    match env.context(rep, l, doc, inp) {
        Some((idx, _, _)) => rep.case(&line, idx.iter().map(|i| i.to_string()).collect::<Vec<_>>().join(" ").trim()),
        None => rep.case(&line, "MISMATCH"),
    }
    env.c_cases += 1;
    // stream B on the same input (capped: the extracted SipHash works on binary numbers, ~4 ms per context)
    if env.b_from_c < env.b_cap {
        env.b_from_c += 1;
        case_b(rep, env, l, doc, inp);
    }
}

/// stream B: the bytes derive(Hash) feeds to the hasher for the (validated) context of (l, doc), and the stored hash
fn case_b(rep: &mut Report, env: &mut Env, l: &Lint, doc: &Document, inp: &Value) {
    if doc.get_source().len() > 300 {
        return;
    }
    let line = format!("B {} | {}", lint_str(l), doc_str_b(doc, &mut env.km_b));
    match env.context(rep, l, doc, inp) {
        Some((_, m, h)) => {
            let st = stream_of(&m);
            // SipHasher13 is a streaming hash: ONE write of the recorded stream must give the stored hash
            let mut dh = DefaultHasher::default();
            dh.write(&st);
            if dh.finish() != h {
                env.stream_rehash_broken += 1;
                rep.fail("hash_stream", format!("DefaultHasher over the recorded byte stream of the context gives {} but the stored hash is {h}", dh.finish()), inp.clone());
            }
            env.b_stream_bytes += st.len() as u64;
            rep.count(match st.len() { 0..=63 => "b_stream:<64 bytes", 64..=127 => "b_stream:64-127 bytes", 128..=255 => "b_stream:128-255 bytes", _ => "b_stream:>=256 bytes" });
            rep.case(&line, &format!("wf {} {}", hex(&st), hex(&h.to_le_bytes())));
        }
        None => rep.case(&line, "MISMATCH"),
    }
    env.b_cases += 1;
}

fn case_x(rep: &mut Report, env: &mut Env, l1: &Lint, d1: &Document, l2: &Lint, d2: &Document) -> bool {
    let mut ig = IgnoredLints::new();
    ig.ignore_lint(l1, d1);
    let same = ig.is_ignored(l2, d2);
    if d1.get_source().len() + d2.get_source().len() <= 900 {
        let line = format!("X {} | {} | {} | {}", lint_str(l1), doc_str(d1, &mut env.km), lint_str(l2), doc_str(d2, &mut env.km));
        rep.case(&line, if same { "S" } else { "D" });
        env.x_cases += 1;
        rep.count(if same { "x_case:same_context" } else { "x_case:different_context" });
    }
    same
}

// ------------------------------------------------------------------------------------------------
// scenarios: (text, language, lints to ignore, edit) — the property oracle
// ------------------------------------------------------------------------------------------------

#[derive(Clone, Debug)]
struct Edit {
    at: usize,
    del: usize,
    ins: String,
}

#[derive(Clone, Debug)]
struct Scenario {
    text: String,
    lang: String,
    ignore: Vec<usize>,
    /// hand-written cases: ignore the first lint whose flagged text is this (resolved after linting)
    ignore_text: Vec<String>,
    edit: Option<Edit>,
    /// words added to the user dictionary after the lints were ignored (the text stays as it is)
    dict_add: Vec<String>,
    origin: String,
}

impl Scenario {
    fn to_json(&self) -> Value {
        json!({"kind": "scenario", "text": self.text, "lang": self.lang, "ignore": self.ignore, "ignore_text": self.ignore_text, "origin": self.origin, "dict_add": self.dict_add,
               "edit": self.edit.as_ref().map(|e| json!({"at": e.at, "del": e.del, "ins": e.ins}))})
    }
    fn from_json(v: &Value) -> Option<Scenario> {
        Some(Scenario {
            text: v["text"].as_str()?.to_string(),
            lang: v["lang"].as_str().unwrap_or("plain").to_string(),
            ignore: v["ignore"].as_array().map(|a| a.iter().filter_map(|x| x.as_u64()).map(|x| x as usize).collect()).unwrap_or_default(),
            ignore_text: v["ignore_text"].as_array().map(|a| a.iter().filter_map(|x| x.as_str()).map(|x| x.to_string()).collect()).unwrap_or_default(),
            edit: v.get("edit").and_then(|e| if e.is_null() { None } else { Some(Edit { at: e["at"].as_u64()? as usize, del: e["del"].as_u64()? as usize, ins: e["ins"].as_str()?.to_string() }) }),
            dict_add: v["dict_add"].as_array().map(|a| a.iter().filter_map(|x| x.as_str()).map(|x| x.to_string()).collect()).unwrap_or_default(),
            origin: v["origin"].as_str().unwrap_or("replay").to_string(),
        })
    }
}

fn apply_edit(text: &str, e: &Edit) -> String {
    let cs: Vec<char> = text.chars().collect();
    let at = e.at.min(cs.len());
    let end = (at + e.del).min(cs.len());
    let mut out: String = cs[..at].iter().collect();
    out.push_str(&e.ins);
    out.extend(&cs[end..]);
    out
}

/// where the span lands after the edit; None when the edit touches the flagged text
fn map_span(sp: Span, e: &Edit, ins_len: usize) -> Option<Span> {
    let (a, b) = (e.at, e.at + e.del);
    if sp.end <= a && !(e.del == 0 && sp.end == a && sp.start == sp.end) {
        Some(sp)
    } else if sp.start >= b {
        Some(Span { start: sp.start + ins_len - e.del, end: sp.end + ins_len - e.del })
    } else {
        None
    }
}

fn text_of(doc: &Document, sp: Span) -> String {
    let src = doc.get_source();
    src[sp.start.min(src.len())..sp.end.min(src.len())].iter().collect()
}

/// Why is `l` (of `doc`) hidden although it is not "the same lint" as any ignored one?  The one known class
/// (`only_flattened`, F13d) is only named when the MODEL also gives both lints the same context although they
/// flag different tokens — i.e. the failure is the modelled behaviour; anything else is `only_other`.
fn classify_only(phase: &str, l: &Lint, doc: &Document, ignored: &[(Lint, Document)]) -> (&'static str, String, Value) {
    let nb = neighbourhood(l, doc);
    let h = real_hash(l, doc);
    let culprit = ignored.iter().find(|(i, d)| h.is_some() && real_hash(i, d) == h);
    let len = l.span.end - l.span.start;
    match culprit {
        Some((i, d)) if same_report(i, l) => {
            let (ni, nl) = (neighbourhood(i, d), nb.clone());
            let modelled = mirror(i, d).1 == mirror(l, doc).1;
            let flat = |n: &(Vec<FatToken>, Vec<FatToken>, Vec<FatToken>)| n.0.iter().chain(n.1.iter()).chain(n.2.iter()).cloned().collect::<Vec<_>>();
            let same_flat = flat(&ni) == flat(&nl);
            // C14_flat_collision_iff: same context although the neighbourhoods differ <=> same report, same flat list and the
            // list is cut differently (number of tokens before, number of flagged tokens)
            let split_differs = (ni.0.len(), ni.1.len()) != (nl.0.len(), nl.1.len());
            let diag = json!({"split_differs": split_differs, "lint_len": len, "before_equal": ni.0 == nl.0, "flagged_equal": ni.1 == nl.1, "after_equal": ni.2 == nl.2,
                              "lint_start": l.span.start, "ignored_start": i.span.start, "same_context_in_the_model": modelled, "same_flat_list": same_flat});
            let (class, what) = if !modelled {
                ("only_other", format!("{phase}: lint {:?} {:?} is hidden together with the ignored lint {:?} although the model of LintContext::from_lint gives them different contexts", l.span, text_of(doc, l.span), i.span))
            } else if same_flat && split_differs {
                ("only_flattened", format!("{phase}: lint {:?} {:?} and the ignored lint {:?} {:?} have different tokens before / under / after the flagged text, but prequel ++ problem ++ sequel is the same flat token list (the tokens are split differently between the three windows); the context does not record the window boundaries, so the second is hidden as well", l.span, text_of(doc, l.span), i.span, text_of(d, i.span)))
            } else {
                ("only_other", format!("{phase}: lint {:?} {:?} differs from every ignored lint in its neighbourhood, yet it is hidden (same stored context as ignored {:?})", l.span, text_of(doc, l.span), i.span))
            };
            (class, what, diag)
        }
        Some((i, _)) => ("only_other", format!("{phase}: lint {:?} differs in message/kind/suggestions from ignored {:?} and is hidden", l.span, i.span), Value::Null),
        None => ("only_other", format!("{phase}: lint {:?} {:?} is hidden although no ignored lint has its context", l.span, text_of(doc, l.span)), Value::Null),
    }
}

/// Explains a swallowed lint: every lint hidden by the list must be "the same lint" as one the user
/// ignored — same message, kind, suggestions, flagged text and tokens within two characters.
fn check_only(rep: &mut Report, _env: &mut Env, ignored: &[(Lint, Document)], all: &[Lint], kept: &[Lint], doc: &Document, inp: &Value, phase: &str) {
    for l in all {
        if kept.contains(l) {
            continue;
        }
        let nb = neighbourhood(l, doc);
        let explained = ignored.iter().any(|(i, d)| same_report(i, l) && neighbourhood(i, d) == nb);
        if explained {
            rep.count("only:hidden_lint_matches_an_ignored_one");
            continue;
        }
        let (class, what, diag) = classify_only(phase, l, doc, ignored);
        let mut inp2 = inp.clone();
        if !diag.is_null() {
            inp2["diag"] = diag;
        }
        rep.fail(class, what, inp2);
    }
}

fn run_scenario(rep: &mut Report, env: &mut Env, sc: &Scenario) {
    rep.eval();
    let inp = sc.to_json();
    let Some((doc, lints)) = env.lint(&sc.text, &sc.lang) else {
        rep.count("scenario:lint_panicked(C01's business)");
        return;
    };
    if lints.is_empty() {
        rep.count("scenario:no_lints");
        return;
    }
    let mut chosen: Vec<usize> = sc.ignore.iter().map(|i| i % lints.len()).collect::<BTreeSet<_>>().into_iter().collect();
    for t in &sc.ignore_text {
        if let Some(i) = lints.iter().position(|l| text_of(&doc, l.span) == *t) {
            if !chosen.contains(&i) {
                chosen.push(i);
            }
        }
    }
    chosen.truncate(64);
    rep.count(&format!("scenario:lints:{}", bucket(lints.len())));
    rep.count(&format!("scenario:ignored:{}", bucket(chosen.len())));
    rep.count(&format!("scenario:lang:{}", sc.lang));
    // ---- ignore the chosen lints
    let mut ig = IgnoredLints::new();
    let r = guarded(|| {
        for i in &chosen {
            ig.ignore_lint(&lints[*i], &doc);
        }
    });
    if let Err(m) = r {
        rep.fail("panic", format!("ignore_lint panicked: {m}"), inp);
        return;
    }
    // ---- the JSON route: both front-ends carry the lint as serde JSON between linting and ignore_lint (harper-ls: the
    // argument of the HarperIgnoreLint command; harper.js: Lint::to_json / from_json across the worker boundary).  The
    // lint the user ignores is the one that came back from JSON; re-checking must not report it any more.
    let mut ig_json = IgnoredLints::new();
    let mut json_route_ok = true;
    for i in &chosen {
        let l = &lints[*i];
        rep.count(&format!("json_route:core:priority:{}", match l.priority { 127 => "127(default)", 0..=63 => "0-63", _ => "other" }));
        match serde_json::to_string(l).ok().and_then(|t| serde_json::from_str::<Lint>(&t).ok()) {
            Some(back) => {
                if guarded(|| ig_json.ignore_lint(&back, &doc)).is_err() {
                    json_route_ok = false;
                    rep.fail("panic", "ignore_lint panicked on a lint that came back from JSON".into(), inp.clone());
                }
            }
            None => {
                json_route_ok = false;
                rep.fail("hides_json", format!("lint {:?} {:?} does not survive serde_json (it cannot be ignored through HarperIgnoreLint / harper.js)", l.span, l.message), inp.clone());
            }
        }
    }
    if json_route_ok {
        let mut kept_json = lints.clone();
        if guarded(|| ig_json.remove_ignored(&mut kept_json, &doc)).is_ok() {
            for i in &chosen {
                if kept_json.contains(&lints[*i]) {
                    rep.fail("hides_json", format!("lint {:?} {:?} (priority {}) was ignored after a serde_json round trip (as HarperIgnoreLint / harper.js pass it) and is still reported on the same text", lints[*i].span, lints[*i].message, lints[*i].priority), inp.clone());
                }
            }
            if kept_json != { let mut k = lints.clone(); ig.remove_ignored(&mut k, &doc); k } {
                rep.fail("hides_json", "the list filled through the JSON route hides other lints than the list filled directly".into(), inp.clone());
            }
        }
    }
    let ignored: Vec<(Lint, Document)> = chosen.iter().map(|i| (lints[*i].clone(), doc.clone())).collect();
    for (k, i) in chosen.iter().enumerate() {
        if k < 3 {
            case_c(rep, env, &lints[*i], &doc, &inp);
        } else {
            env.context(rep, &lints[*i], &doc, &inp);
        }
    }
    // ---- re-check the same text
    let Some((doc2, lints2)) = env.lint(&sc.text, &sc.lang) else { return };
    if lints2 != lints {
        rep.count("scenario:relint_differs(C05's business)");
    }
    let mut kept = lints2.clone();
    if let Err(m) = guarded(|| ig.remove_ignored(&mut kept, &doc2)) {
        rep.fail("panic", format!("remove_ignored panicked: {m}"), inp);
        return;
    }
    for i in &chosen {
        if kept.contains(&lints[*i]) {
            rep.fail("hides", format!("lint {:?} {:?} was ignored and is still reported on the same text", lints[*i].span, lints[*i].message), inp.clone());
        }
    }
    // remove_ignored is retain(!is_ignored): order kept, nothing invented
    let by_pred: Vec<Lint> = lints2.iter().filter(|l| !ig.is_ignored(l, &doc2)).cloned().collect();
    if by_pred != kept {
        rep.fail("remove_is_filter", "remove_ignored is not the order-preserving filter by is_ignored".into(), inp.clone());
    }
    check_only(rep, env, &ignored, &lints2, &kept, &doc2, &inp, "same text");
    if !chosen.is_empty() && kept.len() < lints2.len() {
        rep.nontrivial(&(sc.text.clone(), chosen.clone(), sc.edit.as_ref().map(|e| (e.at, e.del, e.ins.clone()))));
    }
    // a few same-document pairs for the model
    for k in 0..chosen.len().min(2) {
        let a = &lints[chosen[k]];
        let b = &lints[(chosen[k] + 1 + k) % lints.len()];
        case_x(rep, env, a, &doc, b, &doc);
    }
    // ---- export / import / clear
    let js = serde_json::to_string(&ig).unwrap();
    match serde_json::from_str::<IgnoredLints>(&js) {
        Ok(ig2) => {
            if exported(&ig2) != exported(&ig) {
                rep.fail("roundtrip", format!("export/import changed the list: {js}"), inp.clone());
            }
            let mut k2 = lints2.clone();
            ig2.remove_ignored(&mut k2, &doc2);
            if k2 != kept {
                rep.fail("roundtrip", "the imported list hides different lints".into(), inp.clone());
            }
            // import is `append`: importing into the same list changes nothing
            let mut ig3: IgnoredLints = serde_json::from_str(&js).unwrap();
            ig3.append(ig2);
            if exported(&ig3) != exported(&ig) {
                rep.fail("roundtrip", "importing a list into itself changed it".into(), inp.clone());
            }
        }
        Err(e) => rep.fail("roundtrip", format!("exported list does not import: {e}"), inp.clone()),
    }
    // ---- import = union: the chosen lints split over two lists (and a third, overlapping one); each list's
    // exported JSON is imported into the OTHER, non-empty lists, in both orders and in several rounds.  After
    // that every lint ignored in either source is hidden and nothing else: the merged lists behave like `ig`.
    if chosen.len() >= 2 {
        rep.count("import_union:checked");
        let mk = |sel: &dyn Fn(usize) -> bool| {
            let mut x = IgnoredLints::new();
            for (k, i) in chosen.iter().enumerate() {
                if sel(k) {
                    x.ignore_lint(&lints[*i], &doc);
                }
            }
            x
        };
        let import = |into: &mut IgnoredLints, from: &IgnoredLints| -> bool {
            match serde_json::from_str::<IgnoredLints>(&serde_json::to_string(from).unwrap()) {
                Ok(o) => {
                    into.append(o);
                    true
                }
                Err(_) => false,
            }
        };
        let half = chosen.len() / 2;
        let splits: Vec<(&str, Box<dyn Fn(usize) -> bool>, Box<dyn Fn(usize) -> bool>)> = vec![
            ("first half / second half", Box::new(move |k| k < half), Box::new(move |k| k >= half)),
            ("even / odd", Box::new(|k| k % 2 == 0), Box::new(|k| k % 2 == 1)),
            ("all but the last / all but the first", Box::new({ let n = chosen.len(); move |k| k + 1 < n }), Box::new(|k| k > 0)),
        ];
        for (name, fa, fb) in &splits {
            let (a0, b0) = (mk(&**fa), mk(&**fb));
            // A <- B and B <- A (each starts non-empty), then a second round both ways, then into a copy of `ig`
            let mut a = mk(&**fa);
            let mut b = mk(&**fb);
            let mut ok = import(&mut a, &b0) && import(&mut b, &a0);
            ok = ok && import(&mut a, &b) && import(&mut b, &a0) && import(&mut b, &b0);
            if !ok {
                rep.fail("import_union", format!("an exported ignore list does not import ({name})"), inp.clone());
                continue;
            }
            for (who, m) in [("A after importing B", &a), ("B after importing A", &b)] {
                let mut k2 = lints2.clone();
                m.remove_ignored(&mut k2, &doc2);
                if k2 != kept {
                    let lost: Vec<String> = k2.iter().filter(|l| !kept.contains(l)).map(|l| format!("{:?}", l.span)).collect();
                    let extra: Vec<String> = kept.iter().filter(|l| !k2.contains(l)).map(|l| format!("{:?}", l.span)).collect();
                    rep.fail("import_union", format!("split {name}: {who} does not hide exactly the lints ignored in either list: ignored lints reported again {lost:?}, lints hidden without being ignored {extra:?}"), inp.clone());
                } else if exported(m) != exported(&ig) {
                    rep.fail("import_union", format!("split {name}: {who} exports {} hashes, the union has {}", exported(m).len(), exported(&ig).len()), inp.clone());
                }
            }
        }
    }
    // ---- the user adds words to the dictionary: the text is the same, the metadata of its words is not
    if !sc.dict_add.is_empty() {
        match env.lint_with_words(&sc.text, &sc.lang, &sc.dict_add) {
            Some((doc_d, lints_d)) => {
                rep.count("scenario:dictionary_grew");
                let noedit = Edit { at: sc.text.chars().count(), del: 0, ins: String::new() };
                stable_phase(rep, env, &ig, &lints, &chosen, &doc, &ignored, &doc_d, &lints_d, &noedit, &inp, "after words were added to the dictionary");
            }
            None => rep.count("scenario:lint_panicked(C01's business)"),
        }
    }
    // ---- edit elsewhere
    let Some(e) = &sc.edit else { return };
    let text2 = apply_edit(&sc.text, e);
    let Some((doc3, lints3)) = env.lint(&text2, &sc.lang) else {
        rep.count("scenario:lint_panicked(C01's business)");
        return;
    };
    stable_phase(rep, env, &ig, &lints, &chosen, &doc, &ignored, &doc3, &lints3, e, &inp, "after the edit");
    // ---- both: the edited text under the grown dictionary
    if !sc.dict_add.is_empty() {
        if let Some((doc4, lints4)) = env.lint_with_words(&text2, &sc.lang, &sc.dict_add) {
            stable_phase(rep, env, &ig, &lints, &chosen, &doc, &ignored, &doc4, &lints4, e, &inp, "after the edit and words added to the dictionary");
        }
    }
}

/// `doc3`/`lints3`: the document after something changed elsewhere (`e` maps the spans).  Every chosen lint
/// that is produced again with an untouched neighbourhood must still be hidden; every hidden lint must be
/// "the same lint" as an ignored one.
#[allow(clippy::too_many_arguments)]
fn stable_phase(rep: &mut Report, env: &mut Env, ig: &IgnoredLints, lints: &[Lint], chosen: &[usize], doc: &Document, ignored: &[(Lint, Document)], doc3: &Document, lints3: &[Lint], e: &Edit, inp: &Value, phase: &str) {
    let mut kept3 = lints3.to_vec();
    if let Err(m) = guarded(|| ig.remove_ignored(&mut kept3, doc3)) {
        rep.fail("panic", format!("remove_ignored panicked {phase}: {m}"), inp.clone());
        return;
    }
    let ins_len = e.ins.chars().count();
    for i in chosen {
        let l = &lints[*i];
        let Some(sp) = map_span(l.span, e, ins_len) else {
            rep.count("stable:flagged_text_edited(no demand)");
            continue;
        };
        let Some(l3) = lints3.iter().find(|x| x.span == sp && same_report(x, l)) else {
            rep.count("stable:lint_not_produced_again(no demand)");
            continue;
        };
        case_x(rep, env, l, doc, l3, doc3);
        if neighbourhood(l, doc) != neighbourhood(l3, doc3) {
            rep.count("stable:neighbourhood_touched(must be reported again unless it matches an ignored lint: check_only)");
            continue;
        }
        rep.count("stable:demanded");
        if !kept3.contains(l3) {
            rep.count("stable:still_ignored");
            continue;
        }
        // diagnose: the raw fat tokens of the two-character neighbourhood
        let raw = |l: &Lint, d: &Document| mirror_indices(l, d).into_iter().map(|i| fat(d, i)).collect::<Vec<_>>();
        let (ra, rb) = (raw(l, doc), raw(l3, doc3));
        let twin_only = ra != rb && ra.iter().cloned().map(blank_twin_only).collect::<Vec<_>>() == rb.iter().cloned().map(blank_twin_only).collect::<Vec<_>>();
        let meta_only = ra != rb && ra.iter().cloned().map(blank_meta_only).collect::<Vec<_>>() == rb.iter().cloned().map(blank_meta_only).collect::<Vec<_>>();
        let len = l.span.end - l.span.start;
        let mut inp2 = inp.clone();
        inp2["diag"] = json!({"phase": phase, "neighbourhood_tokens_differ_in_twin_loc_only": twin_only, "neighbourhood_tokens_differ_in_word_metadata_only": meta_only, "neighbourhood_tokens_identical": ra == rb,
                              "lint_len": len, "lint_start_before": l.span.start, "lint_start_after": l3.span.start, "token_count_before": doc.get_tokens().len(), "token_count_after": doc3.get_tokens().len()});
        let (class, what) = if l.priority != l3.priority {
            ("stable_other", format!("{phase}: ignored lint {:?} returns with another priority", l.span))
        } else if twin_only {
            ("stable_twin_loc", format!("{phase}: ignored lint {:?} {:?} is reported again: flagged text and the tokens within two characters are untouched, but a quotation mark among them carries another twin_loc (an absolute token index)", l.span, text_of(doc, l.span)))
        } else if meta_only {
            ("stable_word_metadata", format!("{phase}: ignored lint {:?} {:?} is reported again: flagged text and the tokens within two characters are untouched, but a word among them has other dictionary metadata", l.span, text_of(doc, l.span)))
        } else if ra == rb {
            ("stable_windows", format!("{phase}: ignored lint {:?} {:?} is reported again although the tokens within two characters of it are identical: the context is built from something else", l.span, text_of(doc, l.span)))
        } else {
            ("stable_other", format!("{phase}: ignored lint {:?} {:?} is reported again although its neighbourhood is untouched", l.span, text_of(doc, l.span)))
        };
        rep.fail(class, what, inp2);
    }
    check_only(rep, env, ignored, lints3, &kept3, doc3, inp, phase);
}

fn bucket(n: usize) -> &'static str {
    match n {
        0 => "0",
        1 => "1",
        2..=3 => "2-3",
        4..=7 => "4-7",
        8..=15 => "8-15",
        _ => "16+",
    }
}

// ------------------------------------------------------------------------------------------------
// generators
// ------------------------------------------------------------------------------------------------

fn gen_text(r: &mut Rng) -> String {
    match r.below(10) {
        0..=2 => gen::paragraph(r),
        3..=4 => gen::document(r),
        5..=6 => {
            // a trigger next to quotes / brackets / one-character tokens
            let t = *r.pick(gen::TRIGGERS);
            let m = *r.pick(gen::MISSPELT);
            let q = *r.pick(&["\"", "\"", "“", "'", "(", "[", ""]);
            let q2 = match q {
                "“" => "”",
                "(" => ")",
                "[" => "]",
                x => x,
            };
            match r.below(5) {
                0 => format!("{} {q}{t}{q2} {}", gen::clean_sentence(r).trim_end_matches('.'), gen::clean_sentence(r).to_lowercase()),
                1 => format!("{q}{m}{q2} {}", gen::clean_sentence(r).to_lowercase()),
                2 => format!("He said {q}{t}{q2} loudly. {}", gen::clean_sentence(r)),
                3 => format!("{} {q}{m} {t}{q2}", gen::clean_sentence(r)),
                _ => format!("{m}{q} {t}{q2}, {m}. {}", gen::clean_sentence(r)),
            }
        }
        7 => {
            // the same flagged word twice, followed by different tokens
            let m = *r.pick(gen::MISSPELT);
            let a = *r.pick(&[" it", ".", ", then", " (so)", "!", " a", "; b"]);
            let b = *r.pick(&[" it", ".", ", then", " (so)", "!", " a", "; b"]);
            let pre = *r.pick(&["we ", "We ", "they ", "I "]);
            format!("{pre}{m}{a} and {}{m}{b} Done.", pre.to_lowercase())
        }
        8 => {
            // one-character lints: a/an, lone i
            let x = *r.pick(&["a apple", "a hour", "i (we) left", "i  think", "a  elephant", "i, too", "a [old] egg"]);
            gen::placed(r, x)
        }
        _ => gen::any_text(r),
    }
}

fn gen_edit(r: &mut Rng, text: &str, spans: &[Span]) -> Edit {
    let n = text.chars().count();
    let filler = |r: &mut Rng| -> String {
        match r.below(8) {
            0 => "Hello there. ".into(),
            1 => format!("{} ", gen::clean_sentence(r)),
            2 => format!("{}\n\n", gen::clean_sentence(r)),
            3 => "\"Well\", she said. ".into(),
            4 => "\" ".into(),
            5 => format!("{} ", r.s(gen::MISSPELT)),
            6 => "(".into(),
            _ => format!("{} ", r.s(gen::COMMON)),
        }
    };
    match r.below(10) {
        0..=2 => Edit { at: 0, del: 0, ins: filler(r) },
        3..=4 => Edit { at: n, del: 0, ins: format!(" {}", filler(r)) },
        5..=7 if !spans.is_empty() => {
            // alter text just outside the two-character neighbourhood of a lint
            let sp = *r.pick(spans);
            let after = r.chance(2, 3);
            let at = if after { (sp.end + r.range(2, 5)).min(n) } else { sp.start.saturating_sub(r.range(3, 7)) };
            let del = r.below(4);
            let ins = match r.below(4) {
                0 => String::new(),
                1 => r.s(gen::COMMON).to_string(),
                2 => r.s(&["x", "\"", ",", " "]).to_string(),
                _ => r.s(gen::MISSPELT).to_string(),
            };
            Edit { at, del: del.min(n.saturating_sub(at)), ins }
        }
        8 if !spans.is_empty() => {
            // phase 4: touch the neighbourhood as little as possible — the case of ONE letter among the two characters
            // behind (or before) a lint.  The lint then "differs in surrounding words": it must be reported again
            // unless some ignored lint has exactly its new neighbourhood (check_only)
            let cs: Vec<char> = text.chars().collect();
            let sp = *r.pick(spans);
            let cands: Vec<usize> = [sp.end, sp.end + 1, sp.start.wrapping_sub(1), sp.start.wrapping_sub(2)]
                .into_iter()
                .filter(|i| *i < cs.len() && !(sp.start <= *i && *i < sp.end) && cs[*i].is_alphabetic() && (cs[*i].to_lowercase().count() == 1 && cs[*i].to_uppercase().count() == 1))
                .collect();
            if cands.is_empty() {
                Edit { at: n, del: 0, ins: " Done.".into() }
            } else {
                let at = *r.pick(&cands);
                let c = cs[at];
                let t: String = if c.is_lowercase() { c.to_uppercase().collect() } else { c.to_lowercase().collect() };
                Edit { at, del: 1, ins: t }
            }
        }
        _ => {
            let at = r.below(n + 1);
            let del = r.below(6).min(n - at);
            Edit { at, del, ins: if r.chance(1, 2) { filler(r) } else { String::new() } }
        }
    }
}

fn gen_scenario(r: &mut Rng, env: &mut Env) -> Scenario {
    let text = gen_text(r);
    let lang = if r.chance(1, 5) { "markdown" } else { "plain" }.to_string();
    let spans: Vec<Span> = env.lint(&text, &lang).map(|(_, l)| l.iter().map(|x| x.span).collect()).unwrap_or_default();
    let n = spans.len();
    let ignore: Vec<usize> = match r.below(5) {
        0 => (0..n).collect(),
        1 | 2 if n > 0 => vec![r.below(n)],
        _ => (0..n).filter(|_| r.chance(1, 2)).collect(),
    };
    let chosen_spans: Vec<Span> = ignore.iter().map(|i| spans[*i]).collect();
    let edit = if r.chance(9, 10) { Some(gen_edit(r, &text, &chosen_spans)) } else { None };
    // the user adds words of the text to the dictionary (unknown words mostly: the usual "add to dictionary")
    let dict_add: Vec<String> = if r.chance(1, 3) {
        let mut ws: Vec<String> = env
            .lint(&text, &lang)
            .map(|(d, _)| d.get_tokens().iter().filter(|t| matches!(t.kind, TokenKind::Word(None)) || (t.kind.is_word() && r.chance(1, 8))).map(|t| text_of(&d, t.span)).collect())
            .unwrap_or_default();
        ws.sort();
        ws.dedup();
        ws.truncate(6);
        ws
    } else {
        vec![]
    };
    Scenario { text, lang, ignore, ignore_text: vec![], edit, dict_add, origin: "generated".into() }
}

// ------------------------------------------------------------------------------------------------
// through harper_wasm::Linter (native) — ignore_lint, lint, export / import / clear
// ------------------------------------------------------------------------------------------------

fn wasm_inner(l: &harper_wasm::Lint) -> Option<Lint> {
    serde_json::from_value(serde_json::to_value(l).ok()?.get("inner")?.clone()).ok()
}

fn run_wasm(rep: &mut Report, sc: &Scenario) {
    use harper_wasm::{Dialect as WD, Language, Linter as WL};
    rep.eval();
    let mut inp = sc.to_json();
    inp["kind"] = json!("wasm");
    let lang = || if sc.lang == "markdown" { Language::Markdown } else { Language::Plain };
    let r = guarded(|| {
        let mut fails: Vec<(&'static str, String, Value)> = vec![];
        let mut w = WL::new(WD::American);
        let before = w.lint(sc.text.clone(), lang());
        if before.is_empty() {
            return (fails, 0usize, 0usize);
        }
        let inner: Vec<Lint> = before.iter().filter_map(wasm_inner).collect();
        let mut chosen: BTreeSet<usize> = sc.ignore.iter().map(|i| i % before.len()).collect();
        for t in &sc.ignore_text {
            if let Some(i) = before.iter().position(|l| l.get_problem_text() == *t) {
                chosen.insert(i);
            }
        }
        let mut n_ign = 0;
        // harper.js's WorkerLinter ships the lint to the worker as JSON (Lint.to_json / Lint.from_json): a second linter is
        // fed that way, for EVERY chosen lint, and must hide them just as well
        let mut wj = WL::new(WD::American);
        let mut json_ok = true;
        for (i, l) in before.into_iter().enumerate() {
            if chosen.contains(&i) {
                match harper_wasm::Lint::from_json(l.to_json()) {
                    Ok(back) => wj.ignore_lint(sc.text.clone(), back),
                    Err(e) => {
                        json_ok = false;
                        fails.push(("hides_json", format!("wasm: Lint::from_json(Lint::to_json(lint)) fails: {e}"), Value::Null));
                    }
                }
                w.ignore_lint(sc.text.clone(), l);
                n_ign += 1;
            }
        }
        if json_ok {
            let after_j: Vec<Lint> = wj.lint(sc.text.clone(), lang()).iter().filter_map(wasm_inner).collect();
            for i in &chosen {
                if after_j.contains(&inner[*i]) {
                    fails.push(("hides_json", format!("wasm: lint {:?} {:?} (priority {}) ignored after Lint::to_json / Lint::from_json (harper.js's worker route) is still returned by lint()", inner[*i].span, inner[*i].message, inner[*i].priority), Value::Null));
                }
            }
        }
        let after: Vec<Lint> = w.lint(sc.text.clone(), lang()).iter().filter_map(wasm_inner).collect();
        for i in &chosen {
            if after.contains(&inner[*i]) {
                fails.push(("hides", format!("wasm: ignored lint {:?} is still returned by lint()", inner[*i].span), Value::Null));
            }
        }
        // hidden lints are explained by an ignored one (same report, same neighbourhood)
        let dict = FstDictionary::curated();
        let doc = if sc.lang == "markdown" { Document::new_markdown_default(&sc.text, &dict) } else { Document::new_plain_english(&sc.text, &dict) };
        for l in &inner {
            if !after.contains(l) {
                let ok = chosen.iter().any(|i| same_report(&inner[*i], l) && neighbourhood(&inner[*i], &doc) == neighbourhood(l, &doc));
                if !ok {
                    let ign: Vec<(Lint, Document)> = chosen.iter().map(|i| (inner[*i].clone(), doc.clone())).collect();
                    let (class, what, diag) = classify_only("wasm", l, &doc, &ign);
                    fails.push((class, what, diag));
                }
            }
        }
        // export -> fresh linter -> import: same answers; import twice: unchanged; clear: everything back
        let js = w.export_ignored_lints();
        let mut w2 = WL::new(WD::American);
        if let Err(e) = w2.import_ignored_lints(js.clone()) {
            fails.push(("roundtrip", format!("wasm: exported list does not import: {e}"), Value::Null));
        }
        let after2: Vec<Lint> = w2.lint(sc.text.clone(), lang()).iter().filter_map(wasm_inner).collect();
        if after2 != after {
            fails.push(("roundtrip", "wasm: a fresh linter with the imported list reports different lints".into(), Value::Null));
        }
        let _ = w2.import_ignored_lints(js.clone());
        let set = |s: &str| -> Vec<u64> {
            let v: Value = serde_json::from_str(s).unwrap_or(Value::Null);
            let mut o: Vec<u64> = v["context_hashes"].as_array().map(|a| a.iter().filter_map(|x| x.as_u64()).collect()).unwrap_or_default();
            o.sort();
            o
        };
        if set(&w2.export_ignored_lints()) != set(&js) {
            fails.push(("roundtrip", "wasm: export/import/export changed the list".into(), Value::Null));
        }
        w2.clear_ignored_lints();
        let after3: Vec<Lint> = w2.lint(sc.text.clone(), lang()).iter().filter_map(wasm_inner).collect();
        if after3 != inner {
            fails.push(("clear", "wasm: after clear_ignored_lints the original lints are not all reported".into(), Value::Null));
        }
        // import into a linter that ALREADY ignores something: two linters ignore one half each, each imports the
        // other's export; both must then report what the linter that ignored everything reports
        {
            let mut wa = WL::new(WD::American);
            let mut wb = WL::new(WD::American);
            let la = wa.lint(sc.text.clone(), lang());
            let lb = wb.lint(sc.text.clone(), lang());
            let (mut na, mut nb) = (0, 0);
            let side = |l: &harper_wasm::Lint| -> Option<usize> {
                let li = wasm_inner(l)?;
                chosen.iter().enumerate().find(|(_, i)| inner[**i] == li).map(|(k, _)| k % 2)
            };
            for l in la {
                if side(&l) == Some(0) {
                    wa.ignore_lint(sc.text.clone(), l);
                    na += 1;
                }
            }
            for l in lb {
                if side(&l) == Some(1) {
                    wb.ignore_lint(sc.text.clone(), l);
                    nb += 1;
                }
            }
            if na > 0 && nb > 0 {
                let (ja, jb) = (wa.export_ignored_lints(), wb.export_ignored_lints());
                let ra = wa.import_ignored_lints(jb);
                let rb = wb.import_ignored_lints(ja);
                if ra.is_err() || rb.is_err() {
                    fails.push(("import_union", "wasm: an exported list does not import into a linter that already ignores lints".into(), Value::Null));
                }
                for (who, wx) in [("A after importing B", &mut wa), ("B after importing A", &mut wb)] {
                    let got: Vec<Lint> = wx.lint(sc.text.clone(), lang()).iter().filter_map(wasm_inner).collect();
                    if got != after {
                        fails.push(("import_union", format!("wasm: {who} reports {} lints, the linter that ignored all of them reports {}", got.len(), after.len()), Value::Null));
                    }
                }
            }
        }
        // "add to dictionary" on the linter that holds the ignore list: an ignored lint that a linter with
        // the same words still produces, on the same text, must stay away
        if !sc.dict_add.is_empty() {
            w.import_words(sc.dict_add.clone());
            let after_words: Vec<Lint> = w.lint(sc.text.clone(), lang()).iter().filter_map(wasm_inner).collect();
            let mut fresh = WL::new(WD::American);
            fresh.import_words(sc.dict_add.clone());
            let base: Vec<Lint> = fresh.lint(sc.text.clone(), lang()).iter().filter_map(wasm_inner).collect();
            for i in &chosen {
                if base.contains(&inner[*i]) && after_words.contains(&inner[*i]) {
                    fails.push(("stable_word_metadata", format!("wasm: ignored lint {:?} is reported again after import_words({:?}) although the text is the same", inner[*i].span, sc.dict_add), Value::Null));
                }
            }
        }
        (fails, inner.len(), n_ign)
    });
    match r {
        Ok((fails, n, k)) => {
            rep.count(&format!("wasm:lints:{}", bucket(n)));
            rep.count(&format!("wasm:ignored:{}", bucket(k)));
            for (c, w, diag) in fails {
                let mut i2 = inp.clone();
                if !diag.is_null() {
                    i2["diag"] = diag;
                }
                rep.fail(c, w, i2);
            }
        }
        Err(_) => rep.count("wasm:panicked(C01's business)"),
    }
}

// ------------------------------------------------------------------------------------------------
// through harper-ls: DocumentState::{ignore_lint, generate_diagnostics, generate_code_actions}; the list
// lives in the DocumentState and must survive the document being replaced (Backend::update_document
// assigns `doc_state.document` only)
// ------------------------------------------------------------------------------------------------

fn run_ls(rep: &mut Report, sc: &Scenario) {
    use harper_core::MergedDictionary;
    use lsx::config::{CodeActionConfig, DiagnosticSeverity};
    use lsx::diagnostics::lint_to_code_actions;
    use lsx::document_state::DocumentState;
    use lsx::pos_conv::span_to_range;
    use lsx::tower_lsp::lsp_types::CodeActionOrCommand;
    rep.eval();
    let mut inp = sc.to_json();
    inp["kind"] = json!("ls");
    let r = guarded(|| {
        let mut fails: Vec<(&'static str, String)> = vec![];
        let mut merged = MergedDictionary::new();
        merged.add_dictionary(FstDictionary::curated());
        let merged = Arc::new(merged);
        let mut st = DocumentState::default();
        st.linter = LintGroup::new_curated(merged.clone(), Dialect::American);
        st.dict = merged.clone();
        let mk = |t: &str| if sc.lang == "markdown" { Document::new_markdown_default(t, &merged) } else { Document::new_plain_english(t, &merged) };
        st.document = mk(&sc.text);
        let lints_of = |st: &mut DocumentState| {
            let temp = st.linter.config.clone();
            st.linter.config.fill_with_curated();
            let l = st.linter.lint(&st.document);
            st.linter.config = temp;
            l
        };
        let lints = lints_of(&mut st);
        if lints.is_empty() {
            return (fails, 0usize, 0usize);
        }
        let n0 = st.generate_diagnostics(DiagnosticSeverity::Hint).len();
        if n0 != lints.len() {
            fails.push(("ls_diagnostics", format!("ls: {n0} diagnostics for {} lints before anything is ignored", lints.len())));
        }
        let mut chosen: BTreeSet<usize> = sc.ignore.iter().map(|i| i % lints.len()).collect();
        for t in &sc.ignore_text {
            if let Some(i) = lints.iter().position(|l| text_of(&st.document, l.span) == *t) {
                chosen.insert(i);
            }
        }
        let cfg = CodeActionConfig::default();
        let url = st.url.clone();
        // Backend::execute_command("HarperIgnoreLint"): the lint is the SECOND ARGUMENT of the command that
        // lint_to_code_actions offered (serde_json::to_value(lint)), read back with serde_json::from_value — that lint is
        // what DocumentState::ignore_lint receives.  Every chosen lint takes this route.
        for i in &chosen {
            let acts = lint_to_code_actions(&lints[*i], &url, &st.document, &cfg);
            let arg = acts.iter().find_map(|a| match a {
                CodeActionOrCommand::Command(c) if c.command == "HarperIgnoreLint" => c.arguments.as_ref().and_then(|v| v.get(1).cloned()),
                _ => None,
            });
            match arg.and_then(|v| serde_json::from_value::<Lint>(v).ok()) {
                Some(back) => st.ignore_lint(&back),
                None => fails.push(("hides_json", format!("ls: no HarperIgnoreLint command with a parsable lint is offered for lint {:?}", lints[*i].span))),
            }
        }
        let hidden = |st: &DocumentState, l: &Lint| st.ignored_lints.is_ignored(l, &st.document);
        let expect: Vec<Lint> = lints.iter().filter(|l| !hidden(&st, l)).cloned().collect();
        for i in &chosen {
            if expect.contains(&lints[*i]) {
                fails.push(("hides_json", format!("ls: lint {:?} {:?} (priority {}) ignored through the HarperIgnoreLint command (its JSON argument) is not ignored by the DocumentState's list", lints[*i].span, lints[*i].message, lints[*i].priority)));
            }
        }
        let n1 = st.generate_diagnostics(DiagnosticSeverity::Hint).len();
        if n1 != expect.len() {
            fails.push(("hides", format!("ls: {n1} diagnostics published, {} lints are not ignored", expect.len())));
        }
        // code actions at the start of an ignored lint only come from lints that are not ignored
        for i in chosen.iter().take(4) {
            let l = &lints[*i];
            if l.span.start >= l.span.end {
                continue;
            }
            let src: Vec<char> = st.document.get_source().to_vec();
            let rg = span_to_range(&src, Span { start: l.span.start, end: l.span.start + 1 });
            if lsx::pos_conv::range_to_span(&src, rg).start != l.span.start {
                continue; // position conversion does not round-trip on this text (lone CR etc.): C08's business
            }
            let got = st.generate_code_actions(rg, &cfg).len();
            let probe = Span { start: l.span.start, end: l.span.start + 1 };
            let mut want = 0;
            for x in &expect {
                if x.span.overlaps_with(probe) {
                    want += lint_to_code_actions(x, &url, &st.document, &cfg).len();
                }
            }
            if matches!(st.document.get_token_at_char_index(l.span.start), Some(t) if t.kind.is_url()) {
                want += 1;
            }
            if got != want {
                fails.push(("hides", format!("ls: {got} code actions at the start of the ignored lint {:?}, {want} expected from the lints that are not ignored", l.span)));
            }
        }
        // the document is replaced (an edit arrives): the list stays, with the same demands as everywhere
        if let Some(e) = &sc.edit {
            let before_doc = st.document.clone();
            st.document = mk(&apply_edit(&sc.text, e));
            let lints3 = lints_of(&mut st);
            let n3 = st.generate_diagnostics(DiagnosticSeverity::Hint).len();
            let exp3 = lints3.iter().filter(|l| !hidden(&st, l)).count();
            if n3 != exp3 {
                fails.push(("hides", format!("ls: after the edit {n3} diagnostics published, {exp3} lints are not ignored")));
            }
            let ins_len = e.ins.chars().count();
            let mut survived = 0;
            for i in &chosen {
                let l = &lints[*i];
                let Some(sp) = map_span(l.span, e, ins_len) else { continue };
                let Some(l3) = lints3.iter().find(|x| x.span == sp && same_report(x, l)) else { continue };
                if neighbourhood(l, &before_doc) != neighbourhood(l3, &st.document) {
                    continue;
                }
                // a failure here that the core scenario classifies as a known finding is not repeated
                if hidden(&st, l3) {
                    survived += 1;
                } else if real_hash(l, &before_doc).is_some() && real_hash(l, &before_doc) == real_hash(l3, &st.document) {
                    fails.push(("ls_list_lost", format!("ls: the ignore list did not survive the document update: lint {:?} has the same stored context and is reported again", l.span)));
                }
            }
            let _ = survived;
        }
        (fails, lints.len(), chosen.len())
    });
    match r {
        Ok((fails, n, k)) => {
            rep.count(&format!("ls:lints:{}", bucket(n)));
            rep.count(&format!("ls:ignored:{}", bucket(k)));
            for (c, w) in fails {
                rep.fail(c, w, inp.clone());
            }
        }
        Err(_) => rep.count("ls:panicked(C01's business)"),
    }
}

// ------------------------------------------------------------------------------------------------
// synthetic lints: every span over small documents (window arithmetic at both ends of the text),
// and every hashed field varied on its own
// ------------------------------------------------------------------------------------------------

const SWEEP_TEXTS: &[&str] = &[
    "\"a\" (b) it's teh end.",
    "i",
    "",
    "a  b",
    "He said \"an problem\" loudly.",
    "x\n\ny \"z",
    "3rd 1990s a@b.co !?",
    "“über” 漢字 e\u{301}.",
    "ab cd, ab ce. ab cd",
    "we recieve it and we recieve. Done",
];

/// C14_aligned_windows on the implementation: for a lint that flags whole tokens of a document whose tokens tile the text,
/// the three parts of the neighbourhood have (before_count, |mid|, after_count) tokens — 0 at the edge of the text, 2 next
/// to a one-character token that is not the first / last token, else 1
fn aligned_closed_form(rep: &mut Report, env: &mut Env, l: &Lint, doc: &Document, inp: &Value) {
    let ts = doc.get_tokens();
    let n = doc.get_source().len();
    let tiles = !ts.is_empty() && ts[0].span.start == 0 && ts[ts.len() - 1].span.end == n && ts.iter().all(|t| t.span.start < t.span.end) && ts.windows(2).all(|w| w[0].span.end == w[1].span.start);
    if !tiles {
        rep.count("aligned:document_not_tiled(no demand)");
        return;
    }
    let (Some(i), Some(j)) = (ts.iter().position(|t| t.span.start == l.span.start), ts.iter().position(|t| t.span.end == l.span.end)) else { return };
    if j < i {
        return;
    }
    let one = |k: usize| ts[k].span.end - ts[k].span.start == 1;
    let before = if i == 0 { 0 } else if one(i - 1) && i >= 2 { 2 } else { 1 };
    let after = if j + 1 == ts.len() { 0 } else if one(j + 1) && j + 2 < ts.len() { 2 } else { 1 };
    let nb = neighbourhood(l, doc);
    env.aligned_checked += 1;
    rep.count(&format!("aligned:before:{before}:after:{after}"));
    if (nb.0.len(), nb.1.len(), nb.2.len()) != (before, j + 1 - i, after) {
        env.aligned_broken += 1;
        rep.fail("aligned_model", format!("lint {:?}: the neighbourhood has ({}, {}, {}) tokens, the closed form of C14_aligned_windows says ({before}, {}, {after})", l.span, nb.0.len(), nb.1.len(), nb.2.len(), j + 1 - i), inp.clone());
    }
}

fn synthetic(span: Span) -> Lint {
    Lint { span, lint_kind: LintKind::Style, suggestions: vec![Suggestion::Remove], message: "m".into(), priority: 7 }
}

fn sweep_spans(rep: &mut Report, env: &mut Env, text: &str, max_len: usize) {
    let doc = env.document(text, "plain");
    let n = doc.get_source().len();
    let inp = json!({"kind": "sweep", "text": text, "max_len": max_len});
    // keyed by (stored hash, span length): "the same lint somewhere else" has the same flagged length
    let mut by_hash: HashMap<(u64, usize), Vec<Lint>> = HashMap::new();
    for s in 0..=n + 2 {
        for e in s..=(s + max_len).min(n + 4) {
            rep.eval();
            let l = synthetic(Span { start: s, end: e });
            case_c(rep, env, &l, &doc, &inp);
            rep.count(&format!("sweep:len:{}", bucket(e - s)));
            // only spans a rule could flag: non-empty, from the start of a token to the end of a token
            let aligned = s < e && doc.get_tokens().iter().any(|t| t.span.start == s) && doc.get_tokens().iter().any(|t| t.span.end == e);
            if aligned {
                aligned_closed_form(rep, env, &l, &doc, &inp);
                if let Some(h) = real_hash(&l, &doc) {
                    by_hash.entry((h, e - s)).or_default().push(l);
                }
            }
        }
    }
    // "only that lint", exhaustively over the synthetic lints of this document: two spans with the same
    // stored context must have the same neighbourhood (else ignoring one hides a different lint)
    let mut groups: Vec<&Vec<Lint>> = by_hash.values().filter(|g| g.len() > 1).collect();
    groups.sort_by_key(|g| (g[0].span.start, g[0].span.end));
    let mut reported = 0;
    for g in groups {
        let a = &g[0];
        for b in &g[1..] {
            if neighbourhood(a, &doc) != neighbourhood(b, &doc) {
                rep.count("sweep:same_context_different_neighbourhood");
                if reported < 12 {
                    reported += 1;
                    check_only(rep, env, &[(a.clone(), doc.clone())], &[b.clone()], &[], &doc, &inp, "synthetic lints");
                }
            } else {
                rep.count("sweep:same_context_same_neighbourhood");
            }
        }
    }
}

/// every field of the lint that the property lists (and priority) varied on its own: never the same lint
/// stream B on texts with every kind of token (numbers with suffixes / radix / precision, currencies, quotes, URLs ...)
/// and lints whose every hashed field takes edge values (all LintKinds, the three Suggestion variants, messages with
/// 1-, 2-, 3- and 4-byte UTF-8 characters at the class borders, priorities 0 / 255)
const B_TEXTS: &[&str] = &[
    "He paid $5 on the 2nd, 3.5% of £1,000 — 0x1F… “quoted” 'x' 1990s a@b.co https://x.y",
    "1st 22nd 3rd 4th 0.250 1e3 ¥7 ₩8 €9 ¢1 ฿2 ₭3 ₽4 ₺5",
    "a  b\n\nc\t`d` [e](f) {g} <h> #i ~j ^k +l =m *n |o _p \\q /r &s @t %u ;v :w !x ?y",
    "naïve café 漢字 😀 ok",
];
fn bytes_sweep(rep: &mut Report, env: &mut Env, text: &str, lang: &str, max_len: usize) {
    let doc = env.document(text, lang);
    let n = doc.get_source().len();
    let kinds = [LintKind::Spelling, LintKind::Capitalization, LintKind::Style, LintKind::Formatting, LintKind::Repetition, LintKind::Enhancement, LintKind::Readability, LintKind::WordChoice, LintKind::Miscellaneous, LintKind::Punctuation];
    let msgs = ["", "a", "é", "漢字", "😀x", "\u{7f}\u{80}\u{7ff}\u{800}\u{ffff}\u{10000}\u{10ffff}", "Did you mean “the”?"];
    let cs = |s: &str| s.chars().collect::<Vec<char>>();
    let suggs: Vec<Vec<Suggestion>> = vec![
        vec![],
        vec![Suggestion::Remove],
        vec![Suggestion::ReplaceWith(cs("é漢😀"))],
        vec![Suggestion::InsertAfter(vec![]), Suggestion::Remove, Suggestion::ReplaceWith(cs("x"))],
        vec![Suggestion::InsertAfter(cs("\u{10ffff}\u{0}")), Suggestion::InsertAfter(cs("ab"))],
    ];
    let prios = [0u8, 1, 31, 127, 128, 255];
    let mut k = 0usize;
    for s0 in 0..=n {
        for e0 in s0..=(s0 + max_len).min(n) {
            k += 1;
            let l = Lint { span: Span::new(s0, e0), lint_kind: kinds[k % kinds.len()], suggestions: suggs[k % suggs.len()].clone(), message: msgs[k % msgs.len()].to_string(), priority: prios[k % prios.len()] };
            let inp = json!({"kind": "bytes", "text": text, "lang": lang, "max_len": max_len, "span": [s0, e0]});
            case_b(rep, env, &l, &doc, &inp);
        }
    }
}

fn field_variants(rep: &mut Report, env: &mut Env, l: &Lint, doc: &Document, inp: &Value) {
    let mut vs: Vec<(&str, Lint, bool)> = vec![];
    let mut a = l.clone();
    a.message.push('!');
    vs.push(("message", a, true));
    let mut a = l.clone();
    a.message = a.message.chars().skip(1).collect();
    if a.message != l.message {
        vs.push(("message", a, true));
    }
    let mut a = l.clone();
    a.lint_kind = if l.lint_kind == LintKind::Spelling { LintKind::Style } else { LintKind::Spelling };
    vs.push(("kind", a, true));
    let mut a = l.clone();
    a.suggestions.push(Suggestion::Remove);
    vs.push(("suggestions", a, true));
    if !l.suggestions.is_empty() {
        let mut a = l.clone();
        a.suggestions.pop();
        vs.push(("suggestions", a, true));
        let mut a = l.clone();
        a.suggestions[0] = match &l.suggestions[0] {
            Suggestion::ReplaceWith(c) => Suggestion::InsertAfter(c.clone()),
            Suggestion::InsertAfter(c) => Suggestion::ReplaceWith(c.clone()),
            Suggestion::Remove => Suggestion::ReplaceWith(vec![]),
        };
        vs.push(("suggestions", a, true));
        if l.suggestions.len() >= 2 {
            let mut a = l.clone();
            a.suggestions.swap(0, 1);
            if a.suggestions != l.suggestions {
                vs.push(("suggestions(order)", a, true));
            }
        }
    }
    let mut a = l.clone();
    a.priority = l.priority.wrapping_add(1);
    vs.push(("priority", a, false)); // hashed by the code; the property does not demand it
    for (field, v, demanded) in vs {
        rep.eval();
        let same = case_x(rep, env, l, doc, &v, doc);
        rep.count(&format!("field_variant:{field}"));
        if same && demanded {
            rep.fail("only_field", format!("a lint that differs from the ignored one in its {field} only is hidden as well"), inp.clone());
        }
    }
}

// ------------------------------------------------------------------------------------------------
// JSON import (J) and histories (H)
// ------------------------------------------------------------------------------------------------

fn case_j(rep: &mut Report, text: &str, origin: &str) {
    rep.eval();
    let cs: Vec<char> = text.chars().collect();
    let line = format!("J {}", cps(&cs));
    let r = guarded(|| serde_json::from_str::<IgnoredLints>(text));
    let imp = match r {
        Ok(Ok(ig)) => {
            rep.count(&format!("json:{origin}:accepted"));
            exported(&ig).iter().map(|h| h.to_string()).collect::<Vec<_>>().join(" ")
        }
        Ok(Err(_)) => {
            rep.count(&format!("json:{origin}:rejected"));
            "E".to_string()
        }
        Err(m) => {
            rep.fail("panic", format!("importing an ignore list panicked: {m}"), json!({"kind": "json", "text": text}));
            "P".to_string()
        }
    };
    rep.case(line.trim(), imp.trim());
}

fn gen_json(r: &mut Rng) -> (String, &'static str) {
    let n = *r.pick(&[0usize, 0, 1, 1, 2, 3, 5, 9]);
    let ws = |r: &mut Rng| -> &'static str {
        if r.chance(3, 4) {
            ""
        } else {
            r.s(&[" ", "\n", "\t", "\r", "  ", " \n "])
        }
    };
    let num = |r: &mut Rng| -> String {
        match r.below(12) {
            0 => "0".into(),
            1 => u64::MAX.to_string(),
            2 => "18446744073709551616".into(),
            3 => format!("0{}", r.below(100)),
            4 => r.below(10).to_string(),
            5 => (u64::MAX - r.below(10) as u64).to_string(),
            6 => "99999999999999999999".into(),
            7 => "100000000000000000000".into(),
            _ => r.next().to_string(),
        }
    };
    let mut t = String::new();
    t.push_str(ws(r));
    t.push('{');
    t.push_str(ws(r));
    t.push_str(if r.chance(1, 25) { "\"context_hashe\"" } else { "\"context_hashes\"" });
    t.push_str(ws(r));
    t.push(':');
    t.push_str(ws(r));
    t.push('[');
    for i in 0..n {
        t.push_str(ws(r));
        if i > 0 {
            t.push(',');
            t.push_str(ws(r));
        }
        let x = if i > 0 && r.chance(1, 6) { "7".to_string() } else { num(r) };
        t.push_str(&x);
    }
    t.push_str(ws(r));
    t.push(']');
    t.push_str(ws(r));
    t.push('}');
    t.push_str(ws(r));
    if r.chance(1, 2) {
        return (t, "grammar");
    }
    // malformed stream: one or two character-level mutations
    let alphabet: Vec<char> = "{}[],:\" 0123456789-.e\n\\x".chars().collect();
    let mut cs: Vec<char> = t.chars().collect();
    for _ in 0..r.range(1, 2) {
        if cs.is_empty() {
            break;
        }
        let i = r.below(cs.len());
        match r.below(4) {
            0 => {
                cs.remove(i);
            }
            1 => cs.insert(i, *r.pick(&alphabet)),
            2 => cs[i] = *r.pick(&alphabet),
            _ => cs.truncate(i),
        }
    }
    (cs.into_iter().collect(), "mutated")
}

/// One history on one list, mirrored by the model with an injective numbering as its hash.
fn case_h(rep: &mut Report, env: &mut Env, r: &mut Rng, docs: &[Document], lints: &[(Lint, usize)]) {
    if docs.is_empty() || lints.is_empty() || docs.iter().map(|d| d.get_source().len()).sum::<usize>() > 700 {
        return;
    }
    rep.eval();
    let lints: Vec<(Lint, usize)> = (0..lints.len().min(8)).map(|_| lints[r.below(lints.len())].clone()).collect();
    let mut ig = IgnoredLints::new();
    // a second list: `s` makes it the current one, `m` imports its exported JSON into the current one
    let mut other = IgnoredLints::new();
    let mut ops: Vec<String> = vec![];
    let mut out = String::new();
    for _ in 0..r.range(4, 18) {
        let li = r.below(lints.len());
        // mostly the lint's own document, sometimes the other one
        let di = if r.chance(4, 5) { lints[li].1 } else { r.below(docs.len()) };
        match r.below(16) {
            12..=13 => {
                std::mem::swap(&mut ig, &mut other);
                ops.push("s".into());
            }
            14..=15 => {
                let js = serde_json::to_string(&other).unwrap();
                match serde_json::from_str::<IgnoredLints>(&js) {
                    Ok(o) => ig.append(o),
                    Err(_) => out.push('E'),
                }
                ops.push("m".into());
            }
            0..=3 => {
                ig.ignore_lint(&lints[li].0, &docs[di]);
                ops.push(format!("i {li} {di}"));
            }
            4..=5 => {
                out.push(if ig.is_ignored(&lints[li].0, &docs[di]) { 'y' } else { 'n' });
                ops.push(format!("q {li} {di}"));
            }
            6..=7 => {
                let sel: Vec<usize> = (0..lints.len()).filter(|_| r.chance(2, 3)).collect();
                let mut v: Vec<Lint> = sel.iter().map(|i| lints[*i].0.clone()).collect();
                let before = v.clone();
                ig.remove_ignored(&mut v, &docs[di]);
                out.push('[');
                let mut k = 0;
                for b in &before {
                    // retain keeps order: match greedily
                    if k < v.len() && v[k] == *b && !ig.is_ignored(b, &docs[di]) {
                        out.push('k');
                        k += 1;
                    } else {
                        out.push('-');
                    }
                }
                out.push(']');
                ops.push(format!("r {di} {}", sel.iter().map(|i| i.to_string()).collect::<Vec<_>>().join(" ")));
            }
            8 => {
                let js = serde_json::to_string(&ig).unwrap();
                match serde_json::from_str::<IgnoredLints>(&js) {
                    Ok(o) => ig.append(o),
                    Err(_) => out.push('E'),
                }
                ops.push("x".into());
            }
            9 => {
                let js = serde_json::to_string(&ig).unwrap();
                match serde_json::from_str::<IgnoredLints>(&js) {
                    Ok(o) => {
                        ig = IgnoredLints::new();
                        ig.append(o);
                    }
                    Err(_) => out.push('E'),
                }
                ops.push("f".into());
            }
            10 => {
                if r.chance(1, 3) {
                    ig = IgnoredLints::new();
                    ops.push("c".into());
                }
            }
            _ => {
                out.push_str(&exported(&ig).len().to_string());
                ops.push("n".into());
            }
        }
    }
    let line = format!(
        "H {} # {} # {}",
        docs.iter().map(|d| doc_str(d, &mut env.km)).collect::<Vec<_>>().join(" | "),
        lints.iter().map(|(l, _)| lint_str(l)).collect::<Vec<_>>().join(" | "),
        ops.join(",")
    );
    rep.case(&line, &out);
    rep.count("history_cases");
}

// ------------------------------------------------------------------------------------------------
// driver
// ------------------------------------------------------------------------------------------------

// ------------------------------------------------------------------------------------------------
// phase 3: the modelled Document::new_plain_english under LintContext::from_lint (stream Q), prepending a
// paragraph with quotation marks (C14_plain_prepend), the serde_json text byte for byte (stream E)
// ------------------------------------------------------------------------------------------------

/// a name in base 256, in hex (Model/C14Edit.v: name_code / pcode_std)
fn hexname(n: &str) -> String {
    let mut v: u128 = 0;
    for b in n.bytes() {
        v = v.wrapping_mul(256).wrapping_add(b as u128);
    }
    format!("{v:x}")
}

/// the kind of a hashed fat token as the driver prints Ignore.tkind (ocaml/c14_main.ml: etag)
fn qtag(k: &TokenKind) -> String {
    match k {
        TokenKind::Word(None) => "W".into(),
        TokenKind::Word(Some(_)) => "W!".into(),
        TokenKind::Punctuation(Punctuation::Quote(q)) => if q.twin_loc.is_none() { "Q".into() } else { "Q!".into() },
        TokenKind::Punctuation(Punctuation::Currency(c)) => format!("P:{}", hexname(&format!("C:{c:?}"))),
        TokenKind::Punctuation(p) => format!("P:{}", hexname(&format!("{p:?}"))),
        TokenKind::Decade => "D".into(),
        TokenKind::Number(n) => format!("N:{}:{}", n.radix, n.precision),
        TokenKind::Space(n) => format!("S:{n}"),
        TokenKind::Newline(n) => format!("L:{n}"),
        TokenKind::EmailAddress => "E".into(),
        TokenKind::Url => "U".into(),
        TokenKind::Hostname => "H".into(),
        TokenKind::Unlintable => "X".into(),
        TokenKind::ParagraphBreak => "B".into(),
        TokenKind::Regexish => "R".into(),
    }
}

/// Q: text (any characters: the driver loads the Unicode tables dumped by `dump_unicode`), span -> context token indices + (span, blanked kind, content) of every hashed token; the
/// implementation's answer is accepted only when the rebuilt context hashes to the value IgnoredLints stored
fn case_q(rep: &mut Report, env: &mut Env, text: &str, s: usize, e: usize) {
    if text.len() > 400 {
        return;
    }
    rep.eval();
    rep.count(if text.is_ascii() { "q:ascii_text" } else { "q:non_ascii_text" });
    let cs: Vec<char> = text.chars().collect();
    let line = format!("Q {} | {} {}", cps(&cs), s, e);
    let inp = json!({"kind": "plainq", "text": text, "s": s, "e": e});
    let dict = env.dict.clone();
    let Ok(doc) = guarded(|| Document::new_plain_english(text, &dict)) else {
        rep.case(line.trim(), "P");
        return;
    };
    let l = synthetic(Span { start: s, end: e });
    match env.context(rep, &l, &doc, &inp) {
        Some((idx, m, _)) => {
            let i = idx.iter().map(|i| i.to_string()).collect::<Vec<_>>().join(" ");
            let t = idx
                .iter()
                .zip(m.tokens.iter())
                .map(|(i, f)| {
                    let sp = doc.get_tokens()[*i].span;
                    format!("{},{},{},{}", sp.start, sp.end, qtag(&f.kind), f.content.iter().map(|c| (*c as u32).to_string()).collect::<Vec<_>>().join("."))
                })
                .collect::<Vec<_>>()
                .join(" ");
            rep.case(line.trim(), format!("{i} ; {t}").trim());
        }
        None => rep.case(line.trim(), "MISMATCH"),
    }
    env.q_cases += 1;
}

/// P = a sentence with `quotes` quotation marks, a terminator and a blank line (ends_para of Proofs/C14Prepend.v)
fn gen_para(r: &mut Rng) -> String {
    let mut words: Vec<String> = (0..1 + r.below(5)).map(|_| r.s(gen::COMMON).to_string()).collect();
    for _ in 0..r.below(4) {
        let at = r.below(words.len() + 1);
        words.insert(at, "\"".into());
    }
    let t = *r.pick(&[".", "!", "?"]);
    format!("{}{t}\n\n", words.join(" "))
}

/// C14_plain_prepend / C14_plain_prepend_stable on the implementation: every lint of D (real rules + synthetic spans)
/// that starts at least two characters into D and is ignored in D is ignored in P ++ D — provided the tokens before /
/// under / after it are the same three lists (the property's premise, computed from the two real documents; the
/// theorem says they are) — whatever P does to the pairing of D's quotation marks
fn run_prepend(rep: &mut Report, env: &mut Env, p: &str, d: &str) {
    rep.eval();
    let inp = json!({"kind": "prepend", "p": p, "d": d});
    let pd = format!("{p}{d}");
    let n = p.chars().count();
    let Some((doc_d, lints_d)) = env.lint(d, "plain") else { return };
    let dict = env.dict.clone();
    let Ok(doc_pd) = guarded(|| Document::new_plain_english(&pd, &dict)) else {
        rep.fail("panic", "Document::new_plain_english panicked on P ++ D".into(), inp);
        return;
    };
    let quotes_p = p.chars().filter(|c| *c == '"').count();
    rep.count(&format!("prepend:quotes_in_P:{}", quotes_p.min(3)));
    rep.count(if quotes_p % 2 == 1 && d.contains('"') { "prepend:pairs_of_D_change" } else { "prepend:pairs_of_D_kept" });
    let mut lints: Vec<Lint> = lints_d;
    let len_d = doc_d.get_source().len();
    for t in doc_d.get_tokens().iter().take(12) {
        lints.push(synthetic(t.span));
    }
    if len_d >= 4 {
        lints.push(synthetic(Span { start: 2, end: 3 }));
        lints.push(synthetic(Span { start: len_d - 1, end: len_d }));
    }
    let mut hidden = false;
    for l in &lints {
        case_q(rep, env, d, l.span.start, l.span.end);
        case_q(rep, env, &pd, l.span.start + n, l.span.end + n);
        if l.span.start < 2 {
            rep.count("prepend:lint_within_two_chars_of_the_seam");
            continue;
        }
        let mut l2 = l.clone();
        l2.span = Span { start: l.span.start + n, end: l.span.end + n };
        let r = guarded(|| {
            let mut ig = IgnoredLints::new();
            ig.ignore_lint(l, &doc_d);
            (ig.is_ignored(l, &doc_d), ig.is_ignored(&l2, &doc_pd))
        });
        match r {
            Err(m) => rep.fail("panic", format!("ignore_lint / is_ignored panicked: {m}"), inp.clone()),
            Ok((here, there)) => {
                if !here {
                    rep.fail("hides", format!("lint {:?} of D not ignored right after ignoring it", l.span), inp.clone());
                }
                if neighbourhood(l, &doc_d) != neighbourhood(&l2, &doc_pd) {
                    // the theorem (and C12) say this cannot happen for P of this shape
                    env.prepend_premise_broken += 1;
                    rep.fail("prepend_model", format!("lint {:?}: the tokens within two characters changed although P ends in a paragraph break and the lint starts {} characters into D", l.span, l.span.start), inp.clone());
                } else if !there {
                    rep.fail("stable_prepend_requoted", format!("lint {:?} `{}` ignored in D is reported again after the paragraph was put in front ({} quotation marks in P); its neighbourhood is untouched", l.span, text_of(&doc_d, l.span), quotes_p), inp.clone());
                } else {
                    hidden = true;
                }
            }
        }
    }
    if hidden {
        rep.nontrivial(&(p.to_string(), d.to_string()));
    }
}

/// E: the text serde_json::to_string writes for a list, byte for byte (the order of the numbers is read back from that
/// text: the model does not know the set's iteration order, everything else — key, punctuation, no whitespace, decimal
/// digits of u64 — is the model's render_set)
fn case_e(rep: &mut Report, hashes: &[u64]) {
    rep.eval();
    let inp = json!({"kind": "export", "hashes": hashes.iter().map(|h| h.to_string()).collect::<Vec<_>>()});
    let text = format!("{{\"context_hashes\":[{}]}}", hashes.iter().map(|h| h.to_string()).collect::<Vec<_>>().join(","));
    let r = guarded(|| serde_json::from_str::<IgnoredLints>(&text).map(|ig| serde_json::to_string(&ig).unwrap()));
    match r {
        Ok(Ok(out)) => {
            let order: Vec<u64> = serde_json::from_str::<Value>(&out).ok().and_then(|v| v["context_hashes"].as_array().map(|a| a.iter().filter_map(|x| x.as_u64()).collect())).unwrap_or_default();
            let line = format!("E {}", order.iter().map(|h| format!("{h:b}")).collect::<Vec<_>>().join(" "));
            rep.case(line.trim(), &out);
            let mut want: Vec<u64> = hashes.to_vec();
            want.sort();
            want.dedup();
            let mut got = order.clone();
            got.sort();
            if got != want || order.len() != want.len() {
                rep.fail("roundtrip", format!("importing {text} and exporting again gives {out}: not the same set"), inp);
            }
            rep.count(&format!("export:len:{}", bucket(want.len())));
            if hashes.len() != want.len() {
                rep.count("export:with_duplicates");
            }
            if want.iter().any(|h| *h == u64::MAX || *h == 0) {
                rep.count("export:with_extremes");
            }
        }
        Ok(Err(e)) => rep.fail("roundtrip", format!("a canonical list text was rejected: {e}"), inp),
        Err(m) => rep.fail("panic", format!("import/export panicked: {m}"), inp),
    }
}

fn gen_hashes(r: &mut Rng) -> Vec<u64> {
    let n = match r.below(6) { 0 => 0, 1 => 1, 2 => 2, _ => 1 + r.below(12) };
    let mut v: Vec<u64> = (0..n)
        .map(|_| match r.below(9) {
            0 => 0,
            1 => u64::MAX,
            2 => u64::MAX - r.below(3) as u64,
            3 => 10u64.pow(r.below(20) as u32),
            4 => 10u64.pow(1 + r.below(19) as u32) - 1,
            5 => 1u64 << r.below(64),
            6 => r.below(100) as u64,
            _ => r.next(),
        })
        .collect();
    if !v.is_empty() && r.chance(1, 3) {
        let x = v[r.below(v.len())];
        v.push(x);
    }
    v
}

// ---- phase 4: the Unicode range tables for stream Q (as harness/src/bin/c02.rs dumps them for the c02 driver)
fn ranges(pred: impl Fn(char) -> bool) -> Vec<(u32, u32)> {
    let mut out: Vec<(u32, u32)> = vec![];
    let mut cur: Option<(u32, u32)> = None;
    for cp in 0..=0x10FFFFu32 {
        let v = char::from_u32(cp).map(|c| pred(c)).unwrap_or(false);
        match (v, cur) {
            (true, Some((a, _))) => cur = Some((a, cp)),
            (true, None) => cur = Some((cp, cp)),
            (false, Some(r)) => {
                out.push(r);
                cur = None
            }
            (false, None) => {}
        }
    }
    if let Some(r) = cur {
        out.push(r);
    }
    out
}

/// CharExt::is_english_lingual is private: on the one-character text [c] the lexer answers Word exactly when c is lingual
fn observed_lingual(c: char) -> bool {
    if !c.is_alphabetic() && !c.is_alphanumeric() {
        return false;
    }
    let t = PlainEnglish.parse(&[c]);
    t.len() == 1 && matches!(t[0].kind, TokenKind::Word(_))
}

fn dump_unicode(rep: &mut Report) {
    let tabs: Vec<(&str, Vec<(u32, u32)>)> = vec![
        ("ws", ranges(|c| c.is_whitespace())),
        ("num", ranges(|c| c.is_numeric())),
        ("alpha", ranges(|c| c.is_alphabetic())),
        ("ling", ranges(observed_lingual)),
    ];
    for (name, rs) in &tabs {
        let line = format!("U {name} {}", rs.iter().map(|(a, b)| format!("{a}-{b}")).collect::<Vec<_>>().join(" "));
        rep.case(line.trim(), &format!("U {name} {}", rs.len()));
    }
}

/// texts beyond ASCII for stream Q: typographic quotes, combining marks, CJK, non-ASCII digits / spaces / currency
const UNI_TEXTS: &[&str] = &[
    "“über” 漢字 e\u{301}.",
    "naïve café — “an problem” ‘x’ … fin",
    "١٢٣ ½ Ⅷ 3rd ４２",
    "a\u{a0}b\u{2003}c\u{2028}d",
    "日本語。テスト、です",
    "Ünïcödé’s don’t wörd’s",
    "é",
    "€10 ¥3 £5 ₹7 5€",
    "«guillemets» „unten“ ‹x›",
    "Ελληνικά и кириллица ß ǅ",
];

/// phase 4: F13d with lints of REAL rules.  C14_aligned_collision_needs: two token-aligned lints can share a context with
/// different neighbourhoods only at the edge of the text or next to a one-character token.  Texts built for exactly that
/// (pairs of one-character tokens between words / at the start / at the end, repeated triggers with single spaces), every
/// rule on; two lints with the same stored context must have the same neighbourhood.
fn real_pairs(rep: &mut Report, env: &mut Env, text: &str) {
    rep.eval();
    let inp = json!({"kind": "realpair", "text": text});
    let Some((doc, lints)) = env.lint(text, "plain") else { return };
    rep.count(&format!("realpair:lints:{}", bucket(lints.len())));
    let mut by_hash: HashMap<u64, Vec<Lint>> = HashMap::new();
    for l in &lints {
        // the premise `aligned` of C14_aligned_collision_needs / _iff: the lint flags whole tokens
        let al = l.span.start < l.span.end && doc.get_tokens().iter().any(|t| t.span.start == l.span.start) && doc.get_tokens().iter().any(|t| t.span.end == l.span.end);
        rep.count(if al { "realpair:lint_flags_whole_tokens" } else { "realpair:lint_not_token_aligned" });
        // C14_rule_lint_spans_token_aligned: the only other span sources of rule files lie inside ONE token
        if !al && !doc.get_tokens().iter().any(|t| t.span.start <= l.span.start && l.span.end <= t.span.end) {
            rep.fail("rule_span_shape", format!("lint {:?} ({}) of a real rule neither flags whole tokens nor lies inside one token: not a span source of Tables_spanexprs.rule_lint_sites", l.span, l.message), inp.clone());
        }
        if let Some(h) = real_hash(l, &doc) {
            by_hash.entry(h).or_default().push(l.clone());
        }
    }
    let mut groups: Vec<&Vec<Lint>> = by_hash.values().filter(|g| g.len() > 1).collect();
    groups.sort_by_key(|g| (g[0].span.start, g[0].span.end));
    for g in groups {
        let a = &g[0];
        for b in &g[1..] {
            if a == b {
                continue;
            }
            if neighbourhood(a, &doc) != neighbourhood(b, &doc) {
                rep.count("realpair:same_context_different_neighbourhood");
                check_only(rep, env, &[(a.clone(), doc.clone())], &[b.clone()], &[], &doc, &inp, "lints of real rules");
            } else {
                rep.count("realpair:same_context_same_neighbourhood");
                rep.nontrivial(&("realpair", text.to_string(), a.span.start, b.span.start));
            }
        }
    }
}

const ONE_CHAR: &[&str] = &["\"", "'", ",", ".", ";", ":", "!", "?", "-", "(", ")", "/", "&", "$", "%", "#", "@", "*", "+", "=", "“", "”", "’", "…", "—", "a", "I", "1", " ", "\n", "\t"];

fn gen_real_pair_text(r: &mut Rng) -> String {
    let a = *r.pick(ONE_CHAR);
    let b = *r.pick(ONE_CHAR);
    let w1 = *r.pick(&["ab", "teh", "an", "a", "the", "recieve", "I", "its", "there", "10"]);
    let w2 = *r.pick(&["cd", "teh", "apple", "the", "recieve", "problem", "are", "is", "end"]);
    match r.below(6) {
        0 => format!("{w1}{a}{b}{w2}"),
        1 => format!("{a}{b}{w2} {w1}"),
        2 => format!("{w1} {w2}{a}{b}"),
        3 => format!("{w1}{a}{w1}{a}{w1}{b}{w2}"),
        4 => format!("{w1} {w1} {w1} {w2}{a}{w2}{a}"),
        _ => format!("{a}{w1}{b}{a}{w1}{b} {w2}"),
    }
}

/// what '\n' is for Rust's char methods and for the lexer: the premises of C14_plain_prepend on `u`
fn monitor_newline(rep: &mut Report, env: &Env) {
    let c = '\n';
    let tokens = Document::new_plain_english("\n", &env.dict);
    let word = tokens.get_tokens().iter().any(|t| matches!(t.kind, TokenKind::Word(_)));
    let bad = (!c.is_whitespace()) as u64 + c.is_numeric() as u64 + c.is_alphabetic() as u64 + word as u64;
    rep.monitor("newline: is_whitespace, not numeric, not alphabetic, not lexed as a word (premises of C14_plain_prepend): violations", bad);
    if bad > 0 {
        rep.fail("unicode_newline", "'\\n' is not what C14_plain_prepend assumes".into(), json!({"kind": "none"}));
    }
}

fn replay_input(rep: &mut Report, env: &mut Env, v: &Value) {
    match v["kind"].as_str().unwrap_or("scenario") {
        "wasm" => {
            if let Some(sc) = Scenario::from_json(v) {
                run_wasm(rep, &sc)
            }
        }
        "ls" => {
            if let Some(sc) = Scenario::from_json(v) {
                run_ls(rep, &sc)
            }
        }
        "sweep" => sweep_spans(rep, env, v["text"].as_str().unwrap_or(""), v["max_len"].as_u64().unwrap_or(6) as usize),
        "bytes" => bytes_sweep(rep, env, v["text"].as_str().unwrap_or(""), v["lang"].as_str().unwrap_or("plain"), v["max_len"].as_u64().unwrap_or(2) as usize),
        "json" => case_j(rep, v["text"].as_str().unwrap_or(""), "replay"),
        "plainq" => case_q(rep, env, v["text"].as_str().unwrap_or(""), v["s"].as_u64().unwrap_or(0) as usize, v["e"].as_u64().unwrap_or(0) as usize),
        "realpair" => real_pairs(rep, env, v["text"].as_str().unwrap_or("")),
        "prepend" => run_prepend(rep, env, v["p"].as_str().unwrap_or(""), v["d"].as_str().unwrap_or("")),
        "export" => {
            let hs: Vec<u64> = v["hashes"].as_array().map(|a| a.iter().filter_map(|x| x.as_str().and_then(|s| s.parse().ok()).or(x.as_u64())).collect()).unwrap_or_default();
            case_e(rep, &hs)
        }
        "fields" => {
            let text = v["text"].as_str().unwrap_or("");
            if let Some((doc, lints)) = env.lint(text, "plain") {
                if !lints.is_empty() {
                    let l = lints[(v["lint"].as_u64().unwrap_or(0) as usize) % lints.len()].clone();
                    field_variants(rep, env, &l, &doc, v);
                }
            }
        }
        "none" => {}
        _ => {
            if let Some(sc) = Scenario::from_json(v) {
                run_scenario(rep, env, &sc)
            }
        }
    }
}

fn main() {
    let (a, corpus) = hv::cli();
    let mut rep = Report::new(&a.out);
    rep.rule = "scenarios (text, plain|markdown, subset of its lints with all rules on, edit): corpus, then generated texts (paragraphs/documents, triggers next to quotes and brackets, the same misspelling twice with different followers, one-character lints, malformed) x {all, one, random half} x edits {prepend, append, alter 2-5 chars beyond the lint, random splice} x {dictionary unchanged, words of the text added to a user dictionary}. non-trivial = distinct scenario in which >= 1 ignored lint was hidden".into();
    let mut env = Env::new();
    env.b_cap = a.scale(2500, 20000);
    // the Unicode tables stream Q runs with (first lines of cases.txt: the driver loads them before any Q case)
    dump_unicode(&mut rep);
    for c in &corpus {
        replay_input(&mut rep, &mut env, c);
    }
    if a.replay.is_none() {
        let mut r = Rng::new(a.seed);
        for _ in 0..a.scale(700, 12000) {
            let sc = gen_scenario(&mut r, &mut env);
            run_scenario(&mut rep, &mut env, &sc);
        }
        for _ in 0..a.scale(60, 800) {
            let sc = gen_scenario(&mut r, &mut env);
            run_wasm(&mut rep, &sc);
        }
        for _ in 0..a.scale(60, 800) {
            let sc = gen_scenario(&mut r, &mut env);
            run_ls(&mut rep, &sc);
        }
        // every span over small documents; thorough: longer spans and generated documents as well
        for t in SWEEP_TEXTS {
            sweep_spans(&mut rep, &mut env, t, a.scale(6, 40));
        }
        for _ in 0..a.scale(2, 60) {
            let t: String = gen_text(&mut r).chars().take(40).collect();
            sweep_spans(&mut rep, &mut env, &t, a.scale(5, 12));
        }
        // phase 5: the byte stream of the derived Hash on texts with every kind of token, every hashed field at its edges
        for t in B_TEXTS {
            bytes_sweep(&mut rep, &mut env, t, "plain", a.scale(2, 6));
            bytes_sweep(&mut rep, &mut env, t, "markdown", a.scale(1, 3));
        }
        // every hashed field varied on its own, on real lints
        for _ in 0..a.scale(150, 2500) {
            let text = gen_text(&mut r);
            let Some((doc, lints)) = env.lint(&text, "plain") else { continue };
            if lints.is_empty() {
                continue;
            }
            let li = r.below(lints.len());
            let l = lints[li].clone();
            let inp = json!({"kind": "fields", "text": text, "lint": li});
            field_variants(&mut rep, &mut env, &l, &doc, &inp);
        }
        // phase 3: a paragraph with quotation marks put in front of a plain ASCII text
        for _ in 0..a.scale(120, 2500) {
            let p = gen_para(&mut r);
            let d: String = gen_text(&mut r).chars().take(160).collect();
            let mut d = d.trim_start_matches('\n').to_string();
            if d.is_empty() {
                continue;
            }
            if !d.contains('"') && r.chance(2, 3) {
                // quotation marks of D next to a lint: their partners change when P holds an odd number of marks
                d = format!("He said \"{}\" loudly, \"{}\". {d}", r.pick(gen::TRIGGERS), r.pick(gen::MISSPELT));
            }
            run_prepend(&mut rep, &mut env, &p, &d);
        }
        // phase 4: lints of real rules next to one-character tokens / at the edges of the text (where F13d could reach them)
        for _ in 0..a.scale(400, 12000) {
            let t = gen_real_pair_text(&mut r);
            real_pairs(&mut rep, &mut env, &t);
        }
        // phase 3/4: every span over small documents (ASCII and beyond) through the MODELLED parser
        for t in SWEEP_TEXTS.iter().chain(UNI_TEXTS.iter()) {
            let n = t.chars().count();
            for s0 in 0..=n + 1 {
                for e0 in s0..=(s0 + a.scale(3, 8)).min(n + 2) {
                    case_q(&mut rep, &mut env, t, s0, e0);
                }
            }
        }
        // phase 3: the exported text byte for byte
        for _ in 0..a.scale(400, 8000) {
            let hs = gen_hashes(&mut r);
            case_e(&mut rep, &hs);
        }
        // JSON import
        for _ in 0..a.scale(1500, 40000) {
            let (t, origin) = gen_json(&mut r);
            case_j(&mut rep, &t, origin);
        }
        // histories on one list over a document and an edited version of it
        for _ in 0..a.scale(250, 5000) {
            let sc = gen_scenario(&mut r, &mut env);
            let Some((d0, l0)) = env.lint(&sc.text, &sc.lang) else { continue };
            let mut docs = vec![d0];
            let mut lints: Vec<(Lint, usize)> = l0.into_iter().map(|l| (l, 0)).collect();
            if let Some(e) = &sc.edit {
                if let Some((d1, l1)) = env.lint(&apply_edit(&sc.text, e), &sc.lang) {
                    docs.push(d1);
                    lints.extend(l1.into_iter().map(|l| (l, 1)));
                }
            }
            case_h(&mut rep, &mut env, &mut r, &docs, &lints);
        }
    }
    monitor_newline(&mut rep, &env);
    rep.monitor("plain_prepend: neighbourhood changed although the premises hold", env.prepend_premise_broken);
    rep.monitor("aligned_windows: token-aligned lints of tiled documents checked against the closed form", env.aligned_checked);
    rep.monitor("aligned_windows: closed form violated", env.aligned_broken);
    rep.monitor("hash_injective_on: contexts seen", env.seen.len() as u64);
    rep.monitor("hash_injective_on: collisions", env.collisions);
    rep.monitor("context_shape: stored hash != hash of the modelled context", env.mirror_mismatch);
    rep.monitor("token-kind encoding: violations of injectivity", env.km.violations);
    rep.monitor("token kinds encoded", env.km.by_code.len() as u64);
    if env.km.violations > 0 {
        rep.fail("encoding", format!("the harness's encoding of token kinds is not injective on the kinds seen: {}", env.km.example), json!({"kind": "none"}));
    }
    rep.monitor("hash stream: B cases (recorded derive(Hash) stream vs enc_ctx, stored hash vs SipHash-1-3 of the model)", env.b_cases as u64);
    rep.monitor("hash stream: bytes compared", env.b_stream_bytes);
    rep.monitor("hash stream: DefaultHasher over ONE write of the recorded stream != stored hash", env.stream_rehash_broken);
    rep.monitor("hash stream: violations of injectivity of the discriminant encoding of token kinds", env.km_b.violations);
    if env.km_b.violations > 0 {
        rep.fail("encoding", format!("the discriminant encoding of token kinds (stream B) is not injective on the kinds seen: {}", env.km_b.example), json!({"kind": "none"}));
    }
    rep.extra.insert("b_cases".into(), json!(env.b_cases));
    rep.extra.insert("c_cases".into(), json!(env.c_cases));
    rep.extra.insert("x_cases".into(), json!(env.x_cases));
    rep.extra.insert("q_cases".into(), json!(env.q_cases));
    rep.finish();
}
