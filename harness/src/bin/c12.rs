//! C12 — checking two paragraphs together equals checking them separately.
//!
//! Search (the property oracle on the implementation): for pairs (P, D) with P a complete, quote-free
//! paragraph ending in a sentence terminator + blank line and D any further text,
//!   * token level  : PlainEnglish.parse(P++D) and Document(P++D).tokens  ==  tokens(P) ++ shift(tokens(D))
//!                    (names a lexer look-ahead / a condense pass; this is the monitor of H_lex_split),
//!   * lint level   : LintGroup(all rules).lint(P++D)  ==  lint(P)  ⊎  shift |P| (lint(D))   as multisets,
//!                    fresh linters (no warm chunk cache), and on a mismatch every rule is run alone so
//!                    that the non-local rule is NAMED,
//!   * cache monitor: a long-lived linter (warm cache) answers like a fresh one,
//!   * edit corollary: replacing D by D' leaves the lints inside P untouched; replacing P by P' moves the
//!                    lints of D by the length change and nothing else.
//!   * seam stream  : D starting with newlines (the cut lies inside a maximal newline run): the relation is
//!                    evaluated on the pair cut behind the run (class `lints`) and on the literal cut (class
//!                    `lints_seam`, known finding FC12seam).
//! Correspondence (tie of Model/ParaSplit.v): extracted iter_chunks / iter_sentences / iter_paragraphs / hull
//! vs the TokenStringExt methods on real Document token lists and on synthetic kind sequences (thorough: every
//! sequence of <= 6 kind classes over 7), and extracted LintGroup::lint (cache carried over) vs a real
//! LintGroup with two transparent rules.  Phase 5 (cases W, fn rules_case): the real UnclosedQuotes and the kind-guard
//! windows of MergeWords / InflectedVerbAfterTo / AdjectiveOfA vs Model/C12Windows.run_rules; monitor guard_covers.
//! Phase 6 (cases K, fn comma_case): the real CommaFixes (alone in a LintGroup) vs Model/C12Comma.run_comma on the Document
//! tokens of P++D and D of every pair, on the stream `comma` and on synthetic token lists (a Parser that hands prepared
//! tokens to Document::new: commas of the three kinds beside Word / Space / Unlintable / Hostname / ParagraphBreak).
use harper_core::linting::{Lint, LintGroup, Linter, LongSentences, PatternLinter, Suggestion};
use harper_core::parsers::{Parser, PlainEnglish};
use harper_core::patterns::{Pattern, SequencePattern};
use harper_core::{Dialect, Document, FstDictionary, Punctuation, Quote, Span, Token, TokenKind, TokenStringExt};
use hv::common::*;
use hv::gen;
use serde_json::{json, Value};
use std::sync::Arc;

// ------------------------------------------------------------------------------------------------
// kind classes shared with the model (ParaSplit.kind), one letter each
// ------------------------------------------------------------------------------------------------
fn class_of(k: &TokenKind) -> char {
    match k {
        TokenKind::ParagraphBreak => 'B',
        TokenKind::Newline(_) => 'N',
        TokenKind::Space(_) => 'S',
        TokenKind::Word(_) => 'W',
        TokenKind::Number(_) => 'D',
        TokenKind::Punctuation(p) => match p {
            Punctuation::Period => '.',
            Punctuation::Bang => '!',
            Punctuation::Question => '?',
            Punctuation::Comma => ',',
            Punctuation::Colon => ':',
            Punctuation::Quote(_) => 'Q',
            _ => 'P',
        },
        _ => 'O',
    }
}

fn kind_of_class(c: char) -> TokenKind {
    match c {
        'B' => TokenKind::ParagraphBreak,
        'N' => TokenKind::Newline(1),
        'S' => TokenKind::Space(1),
        'W' => TokenKind::Word(None),
        'D' => TokenKind::Number(Default::default()),
        '.' => TokenKind::Punctuation(Punctuation::Period),
        '!' => TokenKind::Punctuation(Punctuation::Bang),
        '?' => TokenKind::Punctuation(Punctuation::Question),
        ',' => TokenKind::Punctuation(Punctuation::Comma),
        ':' => TokenKind::Punctuation(Punctuation::Colon),
        'Q' => TokenKind::Punctuation(Punctuation::Quote(Quote { twin_loc: None })),
        'P' => TokenKind::Punctuation(Punctuation::Semicolon),
        _ => TokenKind::Unlintable,
    }
}

const CLASSES: [char; 13] = ['B', 'N', 'S', 'W', 'D', '.', '!', '?', ',', ':', 'Q', 'P', 'O'];

fn class_code(c: char) -> usize {
    CLASSES.iter().position(|x| *x == c).unwrap_or(12)
}

// ------------------------------------------------------------------------------------------------
// correspondence: iterators and hull on a token list
// ------------------------------------------------------------------------------------------------
fn lens(it: impl Iterator<Item = usize>) -> String {
    let v: Vec<String> = it.map(|n| n.to_string()).collect();
    if v.is_empty() { "-".into() } else { v.join(" ") }
}

fn hull_str(ts: &[Token]) -> String {
    match ts.span() {
        Some(s) => format!("{} {}", s.start, s.end),
        None => "none".into(),
    }
}

/// One correspondence case: the three iterators (chunk lengths), the hull of every chunk, the hull of the
/// whole list.  The model driver must print exactly the same line.
fn iter_case(rep: &mut Report, toks: &[Token]) {
    let mut line = String::from("I");
    for t in toks {
        line.push_str(&format!(" {} {} {}", class_code(class_of(&t.kind)), t.span.start, t.span.end));
    }
    let r = guarded(|| {
        let chunks: Vec<&[Token]> = toks.iter_chunks().collect();
        let hulls: Vec<String> = chunks.iter().map(|c| hull_str(c)).collect();
        format!(
            "C {} | S {} | P {} | H {} | A {}",
            lens(chunks.iter().map(|c| c.len())),
            lens(toks.iter_sentences().map(|c| c.len())),
            lens(toks.iter_paragraphs().map(|c| c.len())),
            hulls.join(","),
            hull_str(toks)
        )
    });
    match r {
        Ok(s) => rep.case(&line, &s),
        Err(_) => rep.case(&line, "PANIC"),
    }
}

/// One correspondence case for the lexer + condense model (Model/C12Doc.run_doc / run_raw, i.e. C02's frozen
/// Lexer.v / Condense.v as kind classes — the model C12_condense_split and C12_doc_tokens_split speak about):
/// the tokens of an ASCII text as class code, span and twin_loc + 1.
fn doc_case(rep: &mut Report, tag: char, text: &str, toks: &[Token]) {
    if !text.is_ascii() {
        rep.count("doc_case:skipped_non_ascii");
        return;
    }
    let mut line = format!("{tag}");
    for c in text.chars() {
        line.push_str(&format!(" {}", c as u32));
    }
    let mut out = format!("{tag}");
    if toks.is_empty() {
        out.push_str(" -");
    }
    for t in toks {
        let w = match &t.kind {
            TokenKind::Punctuation(Punctuation::Quote(q)) => q.twin_loc.map(|j| j + 1).unwrap_or(0),
            _ => 0,
        };
        out.push_str(&format!(" {} {} {} {}", class_code(class_of(&t.kind)), t.span.start, t.span.end, w));
    }
    rep.count(if tag == 'T' { "doc_case:document" } else { "doc_case:raw" });
    rep.case(&line, &out);
}

/// One correspondence case for the modelled rule body (ParaSplit.long_sentences, extracted as run_long):
/// the spans LongSentences reports on this document.
fn long_case(rep: &mut Report, doc: &Document) {
    let mut line = String::from("R");
    for t in doc.get_tokens() {
        line.push_str(&format!(" {} {} {}", class_code(class_of(&t.kind)), t.span.start, t.span.end));
    }
    let r = guarded(|| LongSentences.lint(doc));
    match r {
        Ok(ls) if ls.is_empty() => {
            rep.count("long_sentences_case:no_lint");
            rep.case(&line, "R -")
        }
        Ok(ls) => {
            rep.count("long_sentences_case:with_lint");
            if doc.get_tokens().first().map(|t| t.kind.is_whitespace()).unwrap_or(false) {
                rep.count("long_sentences_case:with_lint_and_leading_whitespace_token");
            }
            rep.case(&line, &format!("R {}", ls.iter().map(|l| format!("{} {}", l.span.start, l.span.end)).collect::<Vec<_>>().join(",")))
        }
        Err(_) => rep.case(&line, "PANIC"),
    }
}

/// texts around the 40-word limit of LongSentences, with and without whitespace in front of a sentence
fn gen_long_text(r: &mut Rng) -> String {
    let mut out = String::new();
    for i in 0..r.range(1, 3) {
        if i > 0 || r.chance(1, 2) {
            out.push_str(r.s(&["\n", " ", "\n\n", " \n", "\t", "  ", "\n \n", ""]));
        }
        let n = match r.below(4) {
            0 => r.range(1, 12),
            1 => 40,
            2 => 41,
            _ => r.range(36, 48),
        };
        let words: Vec<&str> = (0..n).map(|_| if r.chance(1, 9) { r.s(SHIFTERS) } else { r.s(gen::COMMON) }).collect();
        out.push_str(&strip_quotes(&words.join(r.s(&[" ", " ", " ", "  ", ", "]))));
        out.push_str(r.s(&[".", ".", "!", "?", "...", "", ".\n\n", ":"]));
    }
    out
}

// ------------------------------------------------------------------------------------------------
// correspondence: LintGroup::lint itself (struct rules, then pattern rules per chunk through the cache)
// with two transparent rules the model also has (ParaSplit.run_group)
// ------------------------------------------------------------------------------------------------
/// pattern rule: one lint per Word token of the chunk; message = length of the word
struct AnyWord {
    pat: Box<dyn Pattern>,
}
impl PatternLinter for AnyWord {
    fn pattern(&self) -> &dyn Pattern {
        self.pat.as_ref()
    }
    fn match_to_lint(&self, toks: &[Token], _src: &[char]) -> Option<Lint> {
        let sp = toks.span()?;
        Some(Lint { span: sp, message: (sp.end - sp.start).to_string(), ..Default::default() })
    }
    fn description(&self) -> &str {
        "any word"
    }
}
/// struct rule of the sentence schema: one lint per sentence that has a hull; message = number of tokens
struct PerSentence;
impl Linter for PerSentence {
    fn lint(&mut self, doc: &Document) -> Vec<Lint> {
        doc.iter_sentences().filter_map(|s| s.span().map(|sp| Lint { span: sp, message: s.len().to_string(), ..Default::default() })).collect()
    }
    fn description(&self) -> &str {
        "per sentence"
    }
}
fn tiny_group() -> LintGroup {
    let mut g = LintGroup::empty();
    g.add("PerSentence", Box::new(PerSentence));
    g.add_pattern_linter("AnyWord", Box::new(AnyWord { pat: Box::new(SequencePattern::default().then_any_word()) }));
    g.config.set_rule_enabled("PerSentence", true);
    g.config.set_rule_enabled("AnyWord", true);
    g
}

/// One LintGroup::lint call of the long-lived tiny group; the model carries the same cache.
fn group_case(rep: &mut Report, cx: &mut Ctx, text: &str) {
    let reset = cx.tiny_age == 0 || cx.tiny_age >= 60;
    if reset {
        cx.tiny = tiny_group();
        cx.tiny_age = 0;
    }
    cx.tiny_age += 1;
    let dict = cx.dict.clone();
    let Ok(doc) = guarded(|| Document::new_plain_english(text, &dict)) else { return };
    let mut line = format!("G {} |", if reset { 1 } else { 0 });
    for t in doc.get_tokens() {
        line.push_str(&format!(" {} {} {}", class_code(class_of(&t.kind)), t.span.start, t.span.end));
    }
    line.push_str(" | ");
    line.push_str(&cps(doc.get_source()));
    let tiny = &mut cx.tiny;
    match guarded(|| tiny.lint(&doc)) {
        Ok(ls) => {
            let body: Vec<String> = ls.iter().map(|l| format!("{} {} {}", l.span.start, l.span.end, l.message)).collect();
            rep.case(&line, &if body.is_empty() { "L -".to_string() } else { format!("L {}", body.join(",")) });
        }
        Err(_) => {
            rep.case(&line, "PANIC");
            cx.tiny_age = 0; // the implementation's cache state after a panic is not modelled: start afresh
        }
    }
}

// ------------------------------------------------------------------------------------------------
// the property's premise
// ------------------------------------------------------------------------------------------------
fn is_dquote(c: char) -> bool {
    c == '"' || c == '“' || c == '”'
}

/// P is quote-free and ends in a sentence terminator followed by a blank line.
fn premise(p: &str) -> bool {
    if p.chars().any(is_dquote) {
        return false;
    }
    let Some(body) = p.strip_suffix("\n\n") else { return false };
    matches!(body.chars().last(), Some('.') | Some('!') | Some('?'))
}

// ------------------------------------------------------------------------------------------------
// implementation access
// ------------------------------------------------------------------------------------------------
struct Ctx {
    dict: Arc<FstDictionary>,
    keys: Vec<String>,
    warm: LintGroup,
    fresh_every: usize,
    since_fresh: usize,
    pool: Option<[LintGroup; 3]>,
    tiny: LintGroup,
    tiny_age: usize,
    /// only the five struct rules that end in a document-wide remove_overlaps (monitor of g0_inside)
    ro: LintGroup,
    /// only UnclosedQuotes (the W correspondence: Model/C12Windows.unclosed_quotes is its exact body)
    uq: LintGroup,
    /// the guarded window bodies of Tables_c12rules.window_guards: (rule name, guard letters W / S, a group with only it)
    guards: Vec<(String, Vec<char>, LintGroup)>,
    /// only CommaFixes (the K correspondence: Model/C12Comma.comma_fixes)
    cf: LintGroup,
}

fn single_rule_group(dict: &Arc<FstDictionary>, name: &str) -> LintGroup {
    let mut g = LintGroup::new_curated(dict.clone(), Dialect::American);
    g.set_all_rules_to(Some(false));
    g.config.set_rule_enabled(name, true);
    g
}

/// `Definition window_guards ... := [("AdjectiveOfA", [PWord; PWhitespace; ..]); ..].` of the generated table
fn read_window_guards() -> Vec<(String, Vec<char>)> {
    let table = std::fs::read_to_string("/verif/coq/Model/Tables_c12rules.v").unwrap_or_default();
    let def = |name: &str| -> String {
        let body = table.split(&format!("Definition {name} ")).nth(1).unwrap_or("");
        body.split(":=").nth(1).unwrap_or("").split("].").next().unwrap_or("").to_string()
    };
    let names: Vec<String> = def("window_guard_names").split('"').skip(1).step_by(2).map(|x| x.to_string()).collect();
    let pats: Vec<Vec<char>> = def("window_guard_pats")
        .trim()
        .trim_start_matches('[')
        .split('[')
        .filter(|x| !x.trim().is_empty())
        .map(|e| {
            e.split(']').next().unwrap_or("").split(';').filter_map(|x| match x.trim() {
                "PWord" => Some('W'),
                "PWhitespace" => Some('S'),
                _ => None,
            }).collect()
        })
        .collect();
    if names.len() != pats.len() {
        return vec![];
    }
    names.into_iter().zip(pats).collect()
}

/// the windows of adjacent tokens that pass a kind guard, with the REAL TokenKind methods the bodies call
fn guard_candidates(toks: &[Token], g: &[char]) -> Vec<(usize, usize)> {
    if g.is_empty() || toks.len() < g.len() {
        return vec![];
    }
    toks.windows(g.len())
        .filter(|w| w.iter().zip(g).all(|(t, p)| if *p == 'W' { t.kind.is_word() } else { t.kind.is_whitespace() }))
        .filter_map(|w| w.span().map(|s| (s.start, s.end)))
        .collect()
}

fn spans_str(l: &[(usize, usize)]) -> String {
    if l.is_empty() {
        "-".to_string()
    } else {
        l.iter().map(|(s, e)| format!("{s} {e}")).collect::<Vec<_>>().join(",")
    }
}

/// Phase 5.  (1) correspondence case W: the real UnclosedQuotes on this document and the guard candidates computed with
/// TokenKind::is_word / is_whitespace  vs  Model/C12Windows.run_rules (exact UnclosedQuotes body; guarded_rule with the
/// generated guards and the body that reports every window passing the guard).  (2) monitor `guard_covers`: every lint the
/// real MergeWords / InflectedVerbAfterTo / AdjectiveOfA report covers exactly one window that passes the rule's guard
/// (the reading "the body is guarded_rule guard h": nothing is reported unless the guard passes, and the lint is the
/// window's own).  Returns a description of the first violation.
fn rules_case(rep: &mut Report, cx: &mut Ctx, doc: &Document, emit_case: bool) -> Option<String> {
    let toks = doc.get_tokens();
    let uq = guarded(|| cx.uq.lint(doc));
    let cands: Vec<Vec<(usize, usize)>> = cx.guards.iter().map(|(_, g, _)| guard_candidates(toks, g)).collect();
    if emit_case {
        let mut line = String::from("W");
        for t in toks {
            let w = match &t.kind {
                TokenKind::Punctuation(Punctuation::Quote(q)) => q.twin_loc.map(|j| j + 1).unwrap_or(0),
                _ => 0,
            };
            line.push_str(&format!(" {} {} {} {}", class_code(class_of(&t.kind)), t.span.start, t.span.end, w));
        }
        match &uq {
            Ok(ls) => {
                let u: Vec<(usize, usize)> = ls.iter().map(|l| (l.span.start, l.span.end)).collect();
                if !u.is_empty() {
                    rep.count("rules_case:unclosed_quote_reported");
                }
                let mut parts = vec![spans_str(&u)];
                parts.extend(cands.iter().map(|c| spans_str(c)));
                rep.count("rules_case:W");
                rep.case(&line, &format!("W {}", parts.join(" | ")));
            }
            Err(_) => rep.case(&line, "PANIC"),
        }
    }
    let mut bad = None;
    for (i, (name, _, grp)) in cx.guards.iter_mut().enumerate() {
        let Ok(ls) = guarded(|| grp.lint(doc)) else { continue };
        rep.monitor("guard_covers:lints_checked", ls.len() as u64);
        if !ls.is_empty() {
            rep.count(&format!("rules_case:{name}_reported"));
        }
        for l in &ls {
            if !cands[i].contains(&(l.span.start, l.span.end)) {
                rep.monitor("guard_covers:violated", 1);
                bad.get_or_insert(format!(
                    "{name} reports {}..{} {:?}, which is not a window of adjacent tokens passing its kind guard (Tables_c12rules.window_guards)",
                    l.span.start, l.span.end, l.message
                ));
            }
        }
    }
    rep.monitor("guard_covers:documents_checked", 1);
    bad
}

/// the lint id of Model/C12Comma: 1 space-before + 2 Asian + 4 space-after + 8 * suggestion (0 Remove, 1 ReplaceWith [','],
/// 2 ReplaceWith [',', ' '], 3 InsertAfter [' ']; anything else 9)
fn comma_id(l: &Lint) -> usize {
    let mut bits = 0;
    if l.message.contains("space before a comma") {
        bits += 1;
    }
    if l.message.contains("East Asian commas") {
        bits += 2;
    }
    if l.message.contains("space after a comma") {
        bits += 4;
    }
    let sg = match l.suggestions.as_slice() {
        [Suggestion::Remove] => 0,
        [Suggestion::ReplaceWith(v)] if v.as_slice() == [','] => 1,
        [Suggestion::ReplaceWith(v)] if v.as_slice() == [',', ' '] => 2,
        [Suggestion::InsertAfter(v)] if v.as_slice() == [' '] => 3,
        _ => 9,
    };
    bits + 8 * sg
}

/// Phase 6, correspondence case K: the real CommaFixes on this document vs Model/C12Comma.run_comma (the arm table of
/// Tables_c12rules.comma_arms_raw) on its tokens (class, span, Unlintable flag) and source.
fn comma_case(rep: &mut Report, cx: &mut Ctx, doc: &Document, always: bool) {
    let toks = doc.get_tokens();
    let n_commas = toks.iter().filter(|t| matches!(t.kind, TokenKind::Punctuation(Punctuation::Comma))).count();
    if n_commas == 0 && !always {
        return;
    }
    let mut line = String::from("K");
    for t in toks {
        let u = if matches!(t.kind, TokenKind::Unlintable) { 1 } else { 0 };
        line.push_str(&format!(" {} {} {} {}", class_code(class_of(&t.kind)), t.span.start, t.span.end, u));
    }
    line.push_str(" | ");
    line.push_str(&cps(doc.get_source()));
    let cf = &mut cx.cf;
    match guarded(|| cf.lint(doc)) {
        Ok(ls) => {
            rep.count("comma_case:K");
            if !ls.is_empty() {
                rep.count("comma_case:K_with_lint");
            }
            for l in &ls {
                rep.count(&format!("comma_case:arm_id_{}", comma_id(l)));
            }
            let body: Vec<String> = ls.iter().map(|l| format!("{} {} {}", l.span.start, l.span.end, comma_id(l))).collect();
            rep.case(&line, &if body.is_empty() { "K -".to_string() } else { format!("K {}", body.join(",")) });
        }
        Err(_) => rep.case(&line, "PANIC"),
    }
}

/// a Parser that hands a prepared token list to Document::new (the passes of Document::parse still run)
struct Prepared(Vec<Token>);
impl Parser for Prepared {
    fn parse(&self, _source: &[char]) -> Vec<Token> {
        self.0.clone()
    }
}

/// synthetic neighbourhoods of commas: letters W word, S space, `,` `F` (fullwidth) `I` (ideographic) commas, U Unlintable,
/// H Hostname (another KOther kind), B ParagraphBreak, N Newline, . Period, D Number
fn comma_synth_case(rep: &mut Report, cx: &mut Ctx, letters: &[char]) {
    let mut src: Vec<char> = vec![];
    let mut toks: Vec<Token> = vec![];
    for c in letters {
        let (text, kind): (&str, TokenKind) = match c {
            'W' => ("ab", TokenKind::Word(None)),
            'S' => (" ", TokenKind::Space(1)),
            ',' => (",", TokenKind::Punctuation(Punctuation::Comma)),
            'F' => ("\u{ff0c}", TokenKind::Punctuation(Punctuation::Comma)),
            'I' => ("\u{3001}", TokenKind::Punctuation(Punctuation::Comma)),
            'U' => ("\u{82b1}", TokenKind::Unlintable),
            'H' => ("x.y", TokenKind::Hostname),
            'B' => ("\n\n", TokenKind::ParagraphBreak),
            'N' => ("\n", TokenKind::Newline(1)),
            'D' => ("7", TokenKind::Number(Default::default())),
            _ => (".", TokenKind::Punctuation(Punctuation::Period)),
        };
        let start = src.len();
        src.extend(text.chars());
        toks.push(Token { span: Span { start, end: src.len() }, kind });
    }
    let text: String = src.iter().collect();
    let dict = cx.dict.clone();
    if let Ok(doc) = guarded(|| Document::new(&text, &Prepared(toks.clone()), &dict)) {
        rep.eval();
        rep.count("comma_case:synthetic");
        comma_case(rep, cx, &doc, true);
    }
}
const COMMA_LETTERS: [char; 11] = ['W', 'S', ',', 'F', 'I', 'U', 'H', 'B', 'N', '.', 'D'];

/// the struct rules of shape Merge / ThenRemoveOverlaps (Tables_c12rules.v; C12Main.ro_bodies are their bodies)
const RO_RULES: [&str; 5] = ["HopHope", "CompoundNouns", "PronounContraction", "CurrencyPlacement", "LetsConfusion"];

fn new_group(dict: &Arc<FstDictionary>) -> LintGroup {
    let mut g = LintGroup::new_curated(dict.clone(), Dialect::American);
    g.set_all_rules_to(Some(true));
    g
}

impl Ctx {
    fn new(fresh_every: usize) -> Self {
        let dict = FstDictionary::curated();
        let warm = new_group(&dict);
        let mut keys: Vec<String> = warm.iter_keys().map(|s| s.to_string()).collect();
        keys.sort();
        keys.dedup();
        let mut ro = LintGroup::new_curated(dict.clone(), Dialect::American);
        ro.set_all_rules_to(Some(false));
        for k in RO_RULES {
            ro.config.set_rule_enabled(k, true);
        }
        let uq = single_rule_group(&dict, "UnclosedQuotes");
        let guards = read_window_guards().into_iter().map(|(n, g)| { let grp = single_rule_group(&dict, &n); (n, g, grp) }).collect();
        Ctx { dict, keys, warm, fresh_every, since_fresh: 0, pool: None, tiny: tiny_group(), tiny_age: 0, ro, uq, guards, cf: single_rule_group(&FstDictionary::curated(), "CommaFixes") }
    }
    /// Three linters (one per document of a pair) whose chunk caches are never older than `fresh_every`
    /// pairs and never shared between the three documents of a pair.
    fn groups(&mut self) -> &mut [LintGroup; 3] {
        if self.pool.is_none() || self.since_fresh >= self.fresh_every {
            self.pool = Some([new_group(&self.dict), new_group(&self.dict), new_group(&self.dict)]);
            self.since_fresh = 0;
        }
        self.since_fresh += 1;
        self.pool.as_mut().unwrap()
    }
}

fn lint_text(g: &mut LintGroup, dict: &Arc<FstDictionary>, text: &str) -> Result<Vec<Lint>, String> {
    guarded(|| {
        let doc = Document::new_plain_english(text, dict);
        g.lint(&doc)
    })
}

fn canon(l: &Lint, shift: usize) -> String {
    format!(
        "{}..{} {:?} p{} {:?} {:?}",
        l.span.start + shift,
        l.span.end + shift,
        l.lint_kind,
        l.priority,
        l.message,
        l.suggestions
    )
}

fn multiset(ls: &[Lint], shift: usize) -> Vec<String> {
    let mut v: Vec<String> = ls.iter().map(|l| canon(l, shift)).collect();
    v.sort();
    v
}

/// (only in a, only in b) of two sorted multisets
fn msdiff(a: &[String], b: &[String]) -> (Vec<String>, Vec<String>) {
    let (mut i, mut j) = (0, 0);
    let (mut oa, mut ob) = (vec![], vec![]);
    while i < a.len() || j < b.len() {
        if j >= b.len() || (i < a.len() && a[i] < b[j]) {
            oa.push(a[i].clone());
            i += 1;
        } else if i >= a.len() || b[j] < a[i] {
            ob.push(b[j].clone());
            j += 1;
        } else {
            i += 1;
            j += 1;
        }
    }
    (oa, ob)
}

fn shift_tok(t: &Token, n: usize, k: usize) -> Token {
    let mut t = t.clone();
    t.span = Span { start: t.span.start + n, end: t.span.end + n };
    if let TokenKind::Punctuation(Punctuation::Quote(q)) = &mut t.kind {
        if let Some(j) = q.twin_loc {
            q.twin_loc = Some(j + k);
        }
    }
    t
}

fn tok_str(t: &Token, src: &[char]) -> String {
    let txt: String = src.get(t.span.start..t.span.end.min(src.len())).map(|s| s.iter().collect()).unwrap_or_default();
    let kind = match &t.kind {
        TokenKind::Word(_) => "Word".to_string(),
        k => format!("{k:?}"),
    };
    format!("{}..{} {} {:?}", t.span.start, t.span.end, kind, txt)
}

/// first position where the two token lists differ, rendered
fn first_tok_diff(whole: &[Token], glued: &[Token], src: &[char]) -> String {
    let i = whole.iter().zip(glued.iter()).position(|(a, b)| a != b).unwrap_or(whole.len().min(glued.len()));
    let w = whole.get(i).map(|t| tok_str(t, src)).unwrap_or("<end>".into());
    let g = glued.get(i).map(|t| tok_str(t, src)).unwrap_or("<end>".into());
    format!("token #{i}: together [{w}] vs separately [{g}]")
}

/// Move the leading newlines of D into P (keeps P's premise): the lexer takes a maximal newline run, so
/// the *token-level* relation can only be stated for a D that does not start with a newline.
fn normalise(p: &str, d: &str) -> (String, String) {
    let k = d.chars().take_while(|c| *c == '\n').count();
    (format!("{p}{}", "\n".repeat(k)), d.chars().skip(k).collect())
}

// ------------------------------------------------------------------------------------------------
// the oracle for one pair
// ------------------------------------------------------------------------------------------------
fn pair_json(p: &str, d: &str, origin: &str) -> Value {
    json!({"kind": "pair", "p": p, "d": d, "origin": origin})
}

/// token-level relation; returns false when it fails (the failure is recorded)
fn check_tokens(rep: &mut Report, cx: &Ctx, p: &str, d: &str, origin: &str) -> bool {
    let (p2, d2) = normalise(p, d);
    let whole: Vec<char> = format!("{p2}{d2}").chars().collect();
    let pc: Vec<char> = p2.chars().collect();
    let dc: Vec<char> = d2.chars().collect();
    let n = pc.len();
    // (a) the lexer alone
    let raw = guarded(|| (PlainEnglish.parse(&whole), PlainEnglish.parse(&pc), PlainEnglish.parse(&dc)));
    let Ok((rw, rp, rd)) = raw else {
        rep.count("tokens:lexer_panicked(C01's business)");
        return true;
    };
    let glued: Vec<Token> = rp.iter().cloned().chain(rd.iter().map(|t| shift_tok(t, n, rp.len()))).collect();
    rep.monitor("H_lex_split:raw_token_relations_checked", 1);
    if rw != glued {
        rep.monitor("H_lex_split:raw_token_relation_violated", 1);
        rep.fail(
            "tokens_lexer",
            format!("PlainEnglish.parse(P++D) != parse(P) ++ shift(parse(D)): {}", first_tok_diff(&rw, &glued, &whole)),
            pair_json(p, d, origin),
        );
        return false;
    }
    // (b) the condense passes of Document::parse
    let docs = guarded(|| {
        (
            Document::new_plain_english(&whole.iter().collect::<String>(), &cx.dict),
            Document::new_plain_english(&p2, &cx.dict),
            Document::new_plain_english(&d2, &cx.dict),
        )
    });
    let Ok((dw, dp, dd)) = docs else {
        rep.count("tokens:document_panicked(C01's business)");
        return true;
    };
    let tp = dp.get_tokens();
    let glued: Vec<Token> = tp.iter().cloned().chain(dd.get_tokens().iter().map(|t| shift_tok(t, n, tp.len()))).collect();
    rep.monitor("H_lex_split:document_token_relations_checked", 1);
    if !matches!(tp.last().map(|t| &t.kind), Some(TokenKind::ParagraphBreak)) {
        rep.monitor("H_lex_split:P_does_not_end_in_ParagraphBreak", 1);
        rep.fail("tokens_document", "the tokens of P do not end in a ParagraphBreak".into(), pair_json(p, d, origin));
        return false;
    }
    if dw.get_tokens() != &glued[..] {
        rep.monitor("H_lex_split:document_token_relation_violated", 1);
        rep.fail(
            "tokens_document",
            format!(
                "Document(P++D).tokens != tokens(P) ++ shift(tokens(D)) although the lexer's tokens split: {}",
                first_tok_diff(dw.get_tokens(), &glued, &whole)
            ),
            pair_json(p, d, origin),
        );
        return false;
    }
    // correspondence cases for the iterators, on real token lists
    if rep.n_cases < 200_000 {
        // ... and for the lexer + condense model the split theorems are about: P, D and P++D
        doc_case(rep, 'T', &whole.iter().collect::<String>(), dw.get_tokens());
        doc_case(rep, 'T', &p2, tp);
        doc_case(rep, 'T', &d2, dd.get_tokens());
        doc_case(rep, 'L', &p2, &rp);
        doc_case(rep, 'L', &d2, &rd);
        iter_case(rep, dw.get_tokens());
        if dw.get_tokens().len() != tp.len() {
            iter_case(rep, tp);
        }
        long_case(rep, &dw);
        if d.starts_with('\n') {
            // the literal D of a seam pair: its document starts with a Newline token
            if let Ok(dl) = guarded(|| Document::new_plain_english(d, &cx.dict)) {
                long_case(rep, &dl);
            }
        }
    }
    for t in dw.get_tokens() {
        rep.count(&format!("tokkind:{}", class_of(&t.kind)));
    }
    true
}

/// run every rule alone on the three documents and name those for which the relation fails
fn name_rules(cx: &Ctx, p: &str, d: &str) -> Vec<String> {
    let whole = format!("{p}{d}");
    let n = p.chars().count();
    let mut bad = vec![];
    // three linters, one per document, so that no answer for one document comes out of a chunk cache
    // filled by another (the config hash is part of the cache key, so the keys do not interfere either)
    let mut g: Vec<LintGroup> = (0..3).map(|_| LintGroup::new_curated(cx.dict.clone(), Dialect::American)).collect();
    for key in &cx.keys {
        for x in g.iter_mut() {
            x.set_all_rules_to(Some(false));
            x.config.set_rule_enabled(key, true);
        }
        let (a, b) = g.split_at_mut(1);
        let (b, c) = b.split_at_mut(1);
        let (Ok(lw), Ok(lp), Ok(ld)) = (lint_text(&mut a[0], &cx.dict, &whole), lint_text(&mut b[0], &cx.dict, p), lint_text(&mut c[0], &cx.dict, d)) else {
            bad.push(format!("{key}(panic)"));
            continue;
        };
        let mut sep = multiset(&lp, 0);
        sep.extend(multiset(&ld, n));
        sep.sort();
        if multiset(&lw, 0) != sep {
            bad.push(key.clone());
        }
    }
    bad
}

type LintRes = Result<Vec<Lint>, String>;

/// a panic is C01's business unless it breaks the relation: together panics, separately not (or vice versa)
fn panic_asymmetry(a: &LintRes, b: &LintRes, c: &LintRes) -> Option<String> {
    let pat = (a.is_err(), b.is_err(), c.is_err());
    if pat.0 != (pat.1 || pat.2) {
        Some(format!("panic pattern (together, P, D) = {pat:?}"))
    } else {
        None
    }
}

/// The metamorphic relation on one pair with fresh linters: the three lint lists and, when all three runs
/// returned, None (relation holds) or Some(description naming the rules for which it fails alone).
fn lint_relation(cx: &mut Ctx, p: &str, d: &str, tokens_ok: bool) -> Option<((LintRes, LintRes, LintRes), Option<String>)> {
    let whole = format!("{p}{d}");
    let n = p.chars().count();
    let dict = cx.dict.clone();
    let gs = cx.groups();
    let (lw, lp, ld) = (lint_text(&mut gs[0], &dict, &whole), lint_text(&mut gs[1], &dict, p), lint_text(&mut gs[2], &dict, d));
    let verdict = if let (Ok(a), Ok(b), Ok(c)) = (&lw, &lp, &ld) {
        let together = multiset(a, 0);
        let mut separately = multiset(b, 0);
        separately.extend(multiset(c, n));
        separately.sort();
        if together != separately {
            let (only_t, only_s) = msdiff(&together, &separately);
            let rules = name_rules(cx, p, d);
            Some(format!(
                "lints(P++D) != lints(P) + shift(lints(D)); rules for which the relation fails when run alone: [{}]; token-level relation {}; only together: {:?}; only separately: {:?}",
                rules.join(", "),
                if tokens_ok { "holds" } else { "ALSO fails" },
                only_t.iter().take(3).collect::<Vec<_>>(),
                only_s.iter().take(3).collect::<Vec<_>>()
            ))
        } else {
            None
        }
    } else {
        None
    };
    Some(((lw, lp, ld), verdict))
}

/// "a..b rest" -> (a, b, rest)
fn split_canon(c: &str) -> Option<(usize, usize, &str)> {
    let (span, rest) = c.split_once(' ')?;
    let (a, b) = span.split_once("..")?;
    Some((a.parse().ok()?, b.parse().ok()?, rest))
}

/// The two remaining effects of a cut inside a newline run (finding FC12seam), recognised from the lints that
/// differ (`only_t` only in lints(P++D), `only_s` only in lints(P) + shift(lints(D)); n = |P|, k = leading
/// newlines of D):
///  * break-end: a lint of P that ENDS with P's closing ParagraphBreak (end = n) ends k characters later in
///    P++D, where the break token also holds D's leading newlines — same start, same everything else;
///  * UseGenitive: its pattern needs a predecessor token, which D's leading Newline token is when D is checked
///    alone (every remaining difference is a "Use the genitive case." lint behind the cut).
/// Anything else (a lint that STARTS elsewhere, another rule) gets no marker.
fn seam_marker(only_t: &[String], only_s: &[String], n: usize, k: usize) -> String {
    let mut t: Vec<&String> = only_t.iter().collect();
    let mut rest_s: Vec<&String> = vec![];
    let mut break_end = 0;
    for s in only_s {
        let hit = split_canon(s).and_then(|(a, b, r)| {
            if b != n {
                return None;
            }
            t.iter().position(|x| split_canon(x).map(|(a2, b2, r2)| a2 == a && b2 == n + k && r2 == r).unwrap_or(false))
        });
        match hit {
            Some(i) => {
                t.remove(i);
                break_end += 1;
            }
            None => rest_s.push(s),
        }
    }
    let genitive = |c: &&String| split_canon(c).map(|(a, _, r)| a >= n && r.contains("\"Use the genitive case.\"")).unwrap_or(false);
    let rest_genitive = t.iter().all(genitive) && rest_s.iter().all(genitive);
    if t.is_empty() && rest_s.is_empty() && break_end > 0 {
        " [seam: the only differing lints end with P's closing break, which is longer in P++D]".into()
    } else if rest_genitive && (!t.is_empty() || !rest_s.is_empty()) {
        " [seam: besides lints ending with P's closing break, only UseGenitive lints behind the cut differ]".into()
    } else {
        String::new()
    }
}

fn check_pair(rep: &mut Report, cx: &mut Ctx, p: &str, d: &str, origin: &str) {
    rep.eval();
    if !premise(p) {
        rep.count("pair:outside_premise(skipped)");
        return;
    }
    let tokens_ok = check_tokens(rep, cx, p, d, origin);
    let whole = format!("{p}{d}");
    if rep.n_cases < 200_000 && whole.chars().count() <= 1500 {
        // P, then D, then P++D through ONE linter: the third call is answered from the cache
        group_case(rep, cx, p);
        group_case(rep, cx, d);
        group_case(rep, cx, &whole);
    }
    let dict = cx.dict.clone();
    let seam = d.starts_with('\n');
    if seam {
        // D starts with a newline: the cut (P | D) lies INSIDE a maximal newline run.  The property's seam
        // is the run itself, so the relation is first evaluated on the pair cut behind the run; a failure
        // there is an ordinary violation.
        let (p2, d2) = normalise(p, d);
        rep.monitor("H_rules_local:pairs_checked", 1);
        if let Some(Some(what)) = lint_relation(cx, &p2, &d2, tokens_ok).map(|r| r.1) {
            rep.monitor("H_rules_local:violated", 1);
            rep.fail("lints", format!("{what} [evaluated on the pair cut behind the newline run: P' = P + leading newlines of D]"), pair_json(p, d, origin));
        }
    }
    let Some(((lw, lp, ld), verdict)) = lint_relation(cx, p, d, tokens_ok) else {
        rep.count("pair:lint_panicked");
        return;
    };
    if let Some(asym) = panic_asymmetry(&lw, &lp, &ld) {
        rep.fail("lints_panic_asymmetry", asym, pair_json(p, d, origin));
        return;
    }
    let (Ok(lw), Ok(lp), Ok(ld)) = (lw, lp, ld) else {
        rep.count("pair:lint_panicked");
        return;
    };
    let together = multiset(&lw, 0);
    if !seam {
        rep.monitor("H_rules_local:pairs_checked", 1);
    } else {
        rep.monitor("seam:literal_cut_checked", 1);
    }
    if let Some(what) = verdict {
        if seam {
            // the literal cut inside the newline run: Document(D) starts with a Newline token that does not
            // exist in Document(P++D), and P's closing ParagraphBreak is longer there (one root cause).
            // What remains of FC12seam after 1bab09f / ff1e7b4 is recognised STRUCTURALLY (seam_marker); any
            // other difference at the literal cut carries no marker and is reported as a violation.
            rep.monitor("seam:literal_cut_differs", 1);
            let mut separately = multiset(&lp, 0);
            separately.extend(multiset(&ld, p.chars().count()));
            separately.sort();
            let (only_t, only_s) = msdiff(&together, &separately);
            let k = d.chars().take_while(|c| *c == '\n').count();
            let what = format!("{what}{}", seam_marker(&only_t, &only_s, p.chars().count(), k));
            rep.fail("lints_seam", what, pair_json(p, d, origin));
        } else {
            rep.monitor("H_rules_local:violated", 1);
            rep.fail("lints", what, pair_json(p, d, origin));
        }
    }
    // cache monitor: the long-lived linter answers like a fresh one (the model's cache is coherent)
    if let Ok(w) = lint_text(&mut cx.warm, &dict, &whole) {
        rep.monitor("cache_coherent:documents_checked", 1);
        if multiset(&w, 0) != together {
            rep.monitor("cache_coherent:violated", 1);
            rep.fail("warm_cache_differs", "a long-lived LintGroup (warm chunk cache) answers differently from a fresh one".into(), pair_json(p, d, origin));
        }
    }
    // g0_inside monitor (hypothesis of C12_main): every lint of a rule that ends in a document-wide remove_overlaps
    // lies inside ONE chunk of the document, starts before the chunk's end and is not empty-at-the-end
    let ro_res = guarded(|| {
        let doc = Document::new_plain_english(&whole, &dict);
        let ls = cx.ro.lint(&doc);
        let hulls: Vec<(usize, usize)> = doc.iter_chunks().filter_map(|c| c.span()).map(|s| (s.start, s.end)).collect();
        (ls, hulls)
    });
    if let Ok((ls, hulls)) = ro_res {
        rep.monitor("g0_inside:documents_checked", 1);
        rep.monitor("g0_inside:lints_checked", ls.len() as u64);
        for l in &ls {
            let ok = hulls.iter().any(|(s, e)| *s <= l.span.start && l.span.start < *e && l.span.end <= *e);
            if !ok {
                rep.monitor("g0_inside:violated", 1);
                rep.fail(
                    "lint_outside_chunk",
                    format!("a lint of a remove_overlaps rule ({:?}) does not lie inside one chunk: {}..{} {:?}", RO_RULES, l.span.start, l.span.end, l.message),
                    pair_json(p, d, origin),
                );
                break;
            }
        }
    }
    // phase 5: UnclosedQuotes + guarded windows (W case on P++D and on D; monitor guard_covers)
    for text in [&whole, &d.to_string()] {
        let dict2 = cx.dict.clone();
        if let Ok(doc) = guarded(|| Document::new_plain_english(text, &dict2)) {
            let emit = rep.n_cases < 200_000;
            if let Some(what) = rules_case(rep, cx, &doc, emit) {
                rep.fail("lint_outside_guard", what, pair_json(p, d, origin));
            }
            if emit {
                comma_case(rep, cx, &doc, false);
            }
        }
    }
    // distribution
    let in_p = lp.len();
    let in_d = ld.len();
    if in_p > 0 && in_d > 0 {
        rep.nontrivial(&(p.to_string(), d.to_string()));
    }
    rep.count(&format!("lints_in_P:{}", bucket(in_p)));
    rep.count(&format!("lints_in_D:{}", bucket(in_d)));
    rep.count(&format!("origin:{origin}"));
    if d.starts_with('\n') {
        rep.count("D:leading_newline");
    }
    if d.chars().any(is_dquote) {
        rep.count("D:has_quote");
    }
    if d.contains('@') {
        rep.count("D:has_at");
    }
    if d.chars().any(|c| c.is_ascii_digit()) {
        rep.count("D:has_digit");
    }
    if d.is_empty() {
        rep.count("D:empty");
    }
    for (name, probe) in [("apostrophe", "'"), ("at", "@"), ("url", "://"), ("ellipsis", ".."), ("nonascii", "")] {
        let hit = if probe.is_empty() { !p.is_ascii() } else { p.contains(probe) };
        if hit {
            rep.count(&format!("P:has_{name}"));
        }
    }
    if p.chars().any(|c| c.is_ascii_digit()) {
        rep.count("P:has_digit");
    }
    if rep.samples.len() < 6 && in_p > 0 && in_d > 0 {
        rep.sample(json!({"p": p, "d": d, "lints_together": lw.len(), "lints_P": in_p, "lints_D": in_d}));
    }
}

/// the "editing one paragraph" corollary, evaluated directly
fn check_edit(rep: &mut Report, cx: &mut Ctx, p: &str, d: &str, p2: &str, d2: &str, origin: &str) {
    rep.eval();
    if !premise(p) || !premise(p2) {
        rep.count("edit:outside_premise(skipped)");
        return;
    }
    let inp = json!({"kind": "edit", "p": p, "d": d, "p2": p2, "d2": d2, "origin": origin});
    let dict = cx.dict.clone();
    let (n, n2) = (p.chars().count(), p2.chars().count());
    let gs = cx.groups();
    let a = lint_text(&mut gs[0], &dict, &format!("{p}{d}"));
    let b = lint_text(&mut gs[1], &dict, &format!("{p}{d2}"));
    let c = lint_text(&mut gs[2], &dict, &format!("{p2}{d}"));
    let (Ok(a), Ok(b), Ok(c)) = (a, b, c) else {
        rep.count("edit:lint_panicked");
        return;
    };
    rep.count("edit:checked");
    // editing D: the lints that lie in P are unchanged
    let in_p = |ls: &[Lint], n: usize| -> Vec<String> {
        let mut v: Vec<String> = ls.iter().filter(|l| l.span.end <= n).map(|l| canon(l, 0)).collect();
        v.sort();
        v
    };
    if in_p(&a, n) != in_p(&b, n) {
        let (x, y) = msdiff(&in_p(&a, n), &in_p(&b, n));
        rep.fail("edit_changes_other_paragraph", format!("replacing the text after P changed the lints inside P: only before {:?}; only after {:?}", x.iter().take(3).collect::<Vec<_>>(), y.iter().take(3).collect::<Vec<_>>()), inp.clone());
    }
    // editing P: the lints that lie in D move by the length change, nothing else
    let in_d = |ls: &[Lint], n: usize| -> Vec<String> {
        let mut v: Vec<String> = ls.iter().filter(|l| l.span.start >= n).map(|l| format!("{}..{} {:?} {:?} {:?}", l.span.start - n, l.span.end - n, l.lint_kind, l.message, l.suggestions)).collect();
        v.sort();
        v
    };
    if in_d(&a, n) != in_d(&c, n2) {
        let (x, y) = msdiff(&in_d(&a, n), &in_d(&c, n2));
        rep.fail("edit_changes_other_paragraph", format!("replacing P changed the lints after it (beyond the shift): only before {:?}; only after {:?}", x.iter().take(3).collect::<Vec<_>>(), y.iter().take(3).collect::<Vec<_>>()), inp);
    }
}

fn bucket(n: usize) -> &'static str {
    match n {
        0 => "0",
        1 => "1",
        2..=3 => "2-3",
        4..=7 => "4-7",
        _ => "8+",
    }
}

// ------------------------------------------------------------------------------------------------
// generators
// ------------------------------------------------------------------------------------------------
const SHIFTERS: &[&str] = &[
    "don't", "it's", "I've", "you're", "wouldn't've", "dogs'", "e.g.", "i.e.", "N.S.A.", "U.S.", "a.m.", "Ph.D.", "etc.",
    "et al.", "vs.", "...", "..", "....", "1st", "2nd", "21th", "3rd", "101th", "1ST", "1990s", "3.14", "1e10", "100,000", "$5",
    "5$", "0x1F", "https://example.com", "https://a.b/c?d=e#f", "http://user:pw@host.com:8080/path", "joe@x.com",
    "first.last+tag@sub.example.co.uk", "example.com", "www.foo.org", "café", "naïve", "résumé", "Ångström", "𝒜𝒷𝒸", "😀",
    "漢字", "Привет", "e\u{301}", "[a-z0-9]", "1's", "0s", "a.", "I.", "5.", "$5.", "x.y.z", "1e999", "1e999th",
];

fn strip_quotes(s: &str) -> String {
    s.chars().filter(|c| !is_dquote(*c)).collect()
}

/// A complete paragraph: quote-free, ends in terminator + blank line, with token-index shifting constructs.
fn gen_p(r: &mut Rng) -> String {
    let mut body = String::new();
    let sentences = r.range(1, 3);
    for i in 0..sentences {
        if i > 0 {
            body.push_str(r.s(&[" ", " ", "  ", "\n", " \n", "\t"]));
        }
        let mut s = match r.below(10) {
            0..=3 => gen::sentence(r),
            4..=6 => gen::clean_sentence(r),
            7 => {
                let c = gen::any_construct(r);
                gen::placed(r, c).replace("\n\n", " ")
            }
            _ => gen::paragraph(r),
        };
        // force constructs that condense / shift token indices, at the start, the middle and the very end
        let k = r.below(4);
        for _ in 0..k {
            let sh = r.s(SHIFTERS);
            match r.below(3) {
                0 => s = format!("{sh} {s}"),
                1 => {
                    let words: Vec<&str> = s.split(' ').collect();
                    let at = r.below(words.len() + 1);
                    let mut w: Vec<String> = words.iter().map(|x| x.to_string()).collect();
                    w.insert(at, sh.to_string());
                    s = w.join(" ");
                }
                _ => {
                    let t = s.trim_end_matches(|c| c == '.' || c == '!' || c == '?').to_string();
                    s = format!("{t} {sh}");
                }
            }
        }
        body.push_str(&s);
    }
    let mut body = strip_quotes(&body);
    while body.ends_with(|c: char| c.is_whitespace()) {
        body.pop();
    }
    if !matches!(body.chars().last(), Some('.') | Some('!') | Some('?')) {
        body.push_str(r.s(&[".", ".", "!", "?"]));
    }
    if r.chance(1, 12) {
        // a P of two paragraphs is still a complete paragraph sequence
        let more = gen_p_simple(r);
        body = format!("{}\n\n{}", body, more.trim_end_matches('\n'));
    }
    body.push_str("\n\n");
    body
}

fn gen_p_simple(r: &mut Rng) -> String {
    let mut s = strip_quotes(&gen::clean_sentence(r));
    if r.chance(1, 2) {
        s = format!("{} {}", r.s(SHIFTERS), s);
    }
    s.push_str("\n\n");
    s
}

fn gen_d(r: &mut Rng) -> String {
    match r.below(16) {
        0..=3 => gen::document(r),
        4..=5 => gen::any_text(r),
        6 => gen::malformed(r, 40),
        7 => format!("{}{}", r.s(&["\n", "\n\n", "\n\n\n", " \n", "\n ", "\t\n"]), gen::document(r)),
        8 => format!("{} {}", r.s(&["5", "@", "a@b.c", "\"", "“x”", "2nd", "1990s", "@ 5", "x@y 7.", "“", "”"]), gen::sentence(r)),
        9 => {
            let c = gen::any_construct(r);
            gen::placed(r, c)
        }
        10 => format!("\"{}\" {}", gen::clean_sentence(r), gen::sentence(r)),
        11 => r.s(&["", " ", "\n", "\n\n", "a", ".", "\"", "5", "@", "\t", "I", "the the"]).to_string(),
        12 => format!("{}{}", gen::paragraph(r), r.s(&["", "\n", "\n\n", " "])),
        13 => gen::clean_sentence(r).to_lowercase(),
        14 => format!("{} {}", gen::sentence(r), gen::clean_sentence(r)),
        _ => gen_p(r) + &gen::document(r),
    }
}

/// D whose first token matters: a newline run (it joins the break that closes P), then a construct that
/// rules treat specially at the start of a sentence / chunk / document.
fn gen_d_seam(r: &mut Rng) -> String {
    let lead = r.s(&["\n", "\n", "\n\n", "\n\n\n", "\n ", "\n\t", " \n", "\n \n"]);
    let first = match r.below(8) {
        0 => r.s(gen::NUMBERS).to_string(),
        1 => format!("{} {}", r.s(gen::NUMBERS), r.s(&["$", "£", "€", "¥", "%", "USD"])),
        2 => r.s(gen::TRIGGERS).to_string(),
        3 => r.s(gen::CONTRACTIONS).to_string(),
        4 => r.s(gen::ABBREV).to_string(),
        5 => r.s(gen::PUNCT).to_string(),
        6 => r.s(gen::NETISH).to_string(),
        _ => r.s(gen::COMMON).to_string(),
    };
    let rest = match r.below(4) {
        0 => String::new(),
        1 => format!(" {}", gen::sentence(r)),
        2 => format!(" {}", (0..r.range(38, 45)).map(|_| r.s(gen::COMMON)).collect::<Vec<_>>().join(" ")) + ".",
        _ => format!(" {}", gen::document(r)),
    };
    format!("{lead}{first}{rest}")
}

/// D whose FIRST tokens are what a rule treats specially at the start of a chunk / sentence / document — no
/// leading newline, so the pair is inside the premise of C12_main_partial (seeded change c12-1: a window that
/// takes its predecessor from the previous paragraph).
fn gen_d_head(r: &mut Rng) -> String {
    let lead = r.s(&["", "", "", " ", "  ", "\t"]);
    let cur = r.s(&["$", "£", "€", "¥", "₹"]);
    let num = r.s(gen::NUMBERS);
    let first = match r.below(10) {
        0..=2 => format!("{num} {cur}"),
        3 => format!("{cur} {num}"),
        4 => format!("{num}{cur}"),
        5 => format!("{num}  {cur}"),
        6 => r.s(gen::TRIGGERS).to_string(),
        7 => r.s(gen::CONTRACTIONS).to_string(),
        8 => format!("{} {}", r.s(&["they're", "there", "its", "it's", "a", "an", "I", "i"]), r.s(gen::COMMON)),
        _ => r.s(gen::NUMBERS).to_string(),
    };
    let rest = match r.below(4) {
        0 => r.s(&["", ".", " was all it cost.", " is."]).to_string(),
        1 => format!(" {}", gen::sentence(r)),
        2 => format!(" was all it cost. {}", gen::clean_sentence(r)),
        _ => format!(" {}", gen::document(r)),
    };
    format!("{lead}{first}{rest}")
}

/// clauses that make the rules ending in a document-wide remove_overlaps (CurrencyPlacement, merge_linters!: HopHope,
/// LetsConfusion, PronounContraction, CompoundNouns) report, some of them OVERLAPPING lints (`5 $ 5`: `5 $` and `$ 5`)
const RO_CLAUSES: &[&str] = &[
    "It cost 5 $ 5 more.", "We paid 25 $ today.", "$ 25 was all.", "It was 12 £ 7 € in all.", "He owes 30$.", "A 7 $ 7 $ 7 deal.",
    "Lets go now.", "Let's us go home.", "Lets see what happens.", "I hop to see you soon.", "We hoped on the bus.",
    "She was hopping for the best.", "The rabbit hoped away.", "I hope you hop.", "Your right about that.", "Its you are wrong.",
    "I think your going.", "We are in the back yard.", "Take the note book.", "A web site with a data base.", "He is a some one.",
    "Let's a try.", "Lets not.", "We all hop so.",
];

/// (P, D): both built from RO_CLAUSES — the stream behind C12_merge_local / C12_then_remove_overlaps_local
fn gen_overlap(r: &mut Rng) -> (String, String) {
    let mk = |r: &mut Rng, n: usize| -> String {
        (0..n).map(|_| if r.chance(1, 5) { gen::clean_sentence(r) } else { r.s(RO_CLAUSES).to_string() }).collect::<Vec<_>>().join(r.s(&[" ", " ", "  ", "\n"]))
    };
    let n = r.range(1, 3);
    let p = strip_quotes(&mk(r, n));
    let n = r.range(0, 3);
    let d = mk(r, n);
    (format!("{p}\n\n"), d)
}

/// clauses that make the token-window rules of phase 5 report (AdjectiveOfA, MergeWords, InflectedVerbAfterTo) or bring
/// their windows right up to a sentence end / the cut, and unpaired quotes for UnclosedQuotes (D only: P is quote-free)
const WINDOW_CLAUSES: &[&str] = &[
    "It is not that big of a deal.", "How large of an area is it.", "That was too long of a wait.", "He is not that good of a player.",
    "The refore we left.", "This is a her etofore unseen problem.", "That s fine.", "We did n t go.", "It was some what odd.",
    "I want to walked home.", "She tried to goes there.", "We need to asked him.", "They plan to visited us.", "He likes to talked.",
    "It is that big of.", "We went to.", "This is big of", "The", "to", "I want to",
];
const WINDOW_HEADS: &[&str] = &[
    "a deal.", "an area.", "refore we left.", "s fine.", "walked home.", "asked him.", "of a deal.", " a deal.", " walked home.",
    "\"Open quote here.", "He said \"hello\" and \"bye.", "One \" two \" three \".", "big of a deal.", "refore",
];

/// (P, D): P from WINDOW_CLAUSES (closed by a terminator + blank line), D opens with a WINDOW_HEAD (the second half of a
/// window whose first half closes P) or is built from the clauses — the stream behind C12_guarded_windows_local /
/// C12_unclosed_quotes_local
fn gen_windows(r: &mut Rng) -> (String, String) {
    let mk = |r: &mut Rng, n: usize| -> String {
        (0..n).map(|_| if r.chance(1, 6) { gen::clean_sentence(r) } else { r.s(WINDOW_CLAUSES).to_string() }).collect::<Vec<_>>().join(r.s(&[" ", " ", "  ", "\n"]))
    };
    let n = r.range(1, 3);
    let mut p = strip_quotes(&mk(r, n));
    if !matches!(p.chars().last(), Some('.') | Some('!') | Some('?')) {
        p.push_str(r.s(&[".", "!", "?"]));
    }
    let n = r.range(0, 2);
    let d = format!("{}{}{}", if r.chance(2, 3) { r.s(WINDOW_HEADS) } else { "" }, if r.chance(1, 2) { " " } else { "" }, mk(r, n));
    (format!("{p}\n\n"), d.trim_start_matches('\n').to_string())
}

const COMMA_CLAUSES: &[&str] = &[
    "foo ,bar", "foo , bar", "foo,bar", "foo\u{ff0c}bar", "foo \u{ff0c}bar", "foo \u{3001} bar", "foo\u{ff0c} bar", "cout\u{3001}endl\u{3001}string",
    "\u{82b1}\u{3001} \u{679c}\u{3001}\u{53f6}\u{ff0c}\u{6316}\u{6398}", "x \u{3001}\u{82b1}", "\u{82b1}\u{ff0c}y", "1,000", "a, b", "a ,", ", b", "a,\nb", "www.x.com\u{ff0c}y",
    "a@b.co\u{3001}c", "well ,then", "7\u{ff0c}8", "he said , she left", "so\u{3001}", "\u{ff0c}", ",",
];
const COMMA_HEADS: &[&str] = &[
    ",b", " ,b", "\u{ff0c}b", "\u{3001} b", " \u{3001}b", ", b", "\u{82b1}\u{ff0c}", "b ,c", "\u{ff0c}", " \u{ff0c} b", "b\u{ff0c}c", "b,c", ",\u{82b1}", "\u{3001}\u{82b1}",
];
/// (P, D) around CommaFixes: P from COMMA_CLAUSES, sometimes with a comma right before its terminator (so that toks.3 /
/// toks.4 of that comma are the terminator and P's closing break); D opens with a comma of each kind as its first or second
/// token (toks.0 / toks.1 absent alone, the ParagraphBreak glued)
fn gen_comma(r: &mut Rng) -> (String, String) {
    let mk = |r: &mut Rng, n: usize| -> String {
        (0..n).map(|_| if r.chance(1, 6) { gen::clean_sentence(r) } else { r.s(COMMA_CLAUSES).to_string() }).collect::<Vec<_>>().join(r.s(&[" ", " ", "  ", "\n"]))
    };
    let n = r.range(1, 3);
    let mut p = strip_quotes(&mk(r, n));
    if r.chance(1, 3) {
        p.push_str(r.s(&[",", " ,", "\u{ff0c}", " \u{3001}", "x\u{ff0c}", " y,"]));
    }
    p.push_str(r.s(&[".", "!", "?"]));
    let n = r.range(0, 2);
    let d = format!("{}{}{}", if r.chance(3, 4) { r.s(COMMA_HEADS) } else { "" }, if r.chance(1, 2) { " " } else { "" }, mk(r, n));
    (format!("{p}\n\n"), d.trim_start_matches('\n').to_string())
}

/// (P, D) in which ONE clause with a pattern-rule finding occurs twice with a different amount of leading
/// whitespace: behind another sentence of P and at the very start of D, or the other way round (seeded change
/// c12-2: a chunk-cache key that ignores the leading whitespace while the cached spans do not).
fn gen_repeat(r: &mut Rng) -> (String, String) {
    let trig = r.s(gen::TRIGGERS);
    let clause = match r.below(4) {
        0 => format!("We {trig} today."),
        1 => format!("{} {trig}.", gen::capitalize(r.s(gen::COMMON))),
        2 => format!("It was {trig} and we could of left earlier."),
        _ => format!("{}", gen::capitalize(&format!("{trig} {}.", r.s(gen::COMMON)))),
    };
    let clause = strip_quotes(&clause);
    let other = strip_quotes(&gen::clean_sentence(r));
    let gap = r.s(&[" ", " ", "  ", "\t", " \n"]);
    let tail = match r.below(3) {
        0 => String::new(),
        1 => format!(" {}", gen::sentence(r)),
        _ => format!("{gap}{clause}"),
    };
    if r.chance(2, 3) {
        (format!("{other}{gap}{clause}\n\n"), format!("{clause}{tail}"))
    } else {
        (format!("{clause}\n\n"), format!("{other}{gap}{clause}{tail}"))
    }
}

// ------------------------------------------------------------------------------------------------
fn replay_input(rep: &mut Report, cx: &mut Ctx, v: &Value) {
    let s = |k: &str| v[k].as_str().unwrap_or("").to_string();
    match v["kind"].as_str().unwrap_or("pair") {
        "edit" => {
            check_edit(rep, cx, &s("p"), &s("d"), &s("p2"), &s("d2"), "replay");
            check_pair(rep, cx, &s("p"), &s("d"), "replay");
        }
        "tokens" => {
            let classes: Vec<char> = s("classes").chars().collect();
            synth_case(rep, &classes, v["zero_width"].as_bool().unwrap_or(false));
        }
        "comma" => {
            let letters: Vec<char> = s("letters").chars().collect();
            comma_synth_case(rep, cx, &letters);
        }
        _ => check_pair(rep, cx, &s("p"), &s("d"), "replay"),
    }
}

/// synthetic token list over the kind classes, spans tiling from 0 (each token 1..2 chars wide)
fn synth_case(rep: &mut Report, classes: &[char], zero_width: bool) {
    let mut pos = 0;
    let toks: Vec<Token> = classes
        .iter()
        .enumerate()
        .map(|(i, c)| {
            let w = if zero_width && *c == 'B' { 0 } else { 1 + (i % 2) };
            let t = Token { span: Span { start: pos, end: pos + w }, kind: kind_of_class(*c) };
            pos += w;
            t
        })
        .collect();
    iter_case(rep, &toks);
}

pub fn run(a: &Args, corpus: &[Value]) {
    let mut rep = Report::new(&a.out);
    rep.rule = "pairs (P, D): P = 1-3 generated sentences (hv::gen vocabulary: triggers, misspellings, numbers, abbreviations) with forced contractions / initialisms / ellipses / number suffixes / URLs / e-mail addresses / multi-byte words at start, middle and end, double quotes removed, closed by . ! ? + blank line; D = generated documents, placed constructs, malformed text, leading newlines, quotes, digits, @, empty and one-character texts. Each pair: token-level relation (lexer, then Document), lint-level multiset relation with all rules on (fresh linters), warm-cache monitor; stream `seam`: D = newline run + number/currency/trigger/contraction/abbreviation + text (relation checked behind the run and at the literal cut); stream `head`: D opens with an amount (number, blank, currency symbol in both orders), a trigger, a contraction or a number, without a leading newline; stream `repeat`: one clause with a pattern-rule finding occurs behind a sentence of P and at the start of D (or vice versa), i.e. twice with different leading whitespace within one LintGroup; plus edit triples (P,D,P',D'). non-trivial = distinct pair with >=1 lint in P and >=1 lint in D. Correspondence: iterators/hull of the model vs TokenStringExt on the Document tokens of every pair and on synthetic kind sequences".into();
    let mut cx = Ctx::new(a.scale(40, 40));
    // the four Unicode facts C12_lex_split rests on (hypotheses of the theorem), on the real `char` methods;
    // is_english_lingual is private: observed through the lexer (a newline is never part of a Word token)
    {
        let nl = '\n';
        let direct = nl.is_whitespace() && !nl.is_numeric() && !nl.is_alphabetic();
        let toks = PlainEnglish.parse(&['a', '\n', 'b']);
        let lingual_ok = toks.len() == 3 && matches!(toks[1].kind, TokenKind::Newline(1)) && matches!(toks[0].kind, TokenKind::Word(_));
        rep.monitor("unicode_laws_newline:checked", 1);
        if !(direct && lingual_ok) {
            rep.monitor("unicode_laws_newline:violated", 1);
            rep.fail("unicode_law", "'\\n' must be whitespace, not numeric, not alphabetic, not English-lingual (hypotheses of C12_lex_split)".into(), json!({"kind": "pair", "p": "a.\n\n", "d": "b"}));
        }
    }
    // the generated rule table (coq/Model/Tables_c12rules.v, tools/tables/c12rules.py) against the registry the
    // implementation actually builds: every struct rule of the table is a rule of LintGroup::new_curated, and the
    // table accounts for all of them (registry_key_count = number of distinct keys)
    {
        let table = std::fs::read_to_string("/verif/coq/Model/Tables_c12rules.v").unwrap_or_default();
        let body = table.split("Definition struct_rules").nth(1).unwrap_or("");
        let body = body.split("\n].").next().unwrap_or("");
        let names: Vec<String> = body
            .lines()
            .filter_map(|l| l.trim_start().strip_prefix("(\""))
            .filter_map(|l| l.split('"').next().map(|x| x.to_string()))
            .collect();
        let n_keys: usize = table
            .split("Definition registry_key_count : nat := ")
            .nth(1)
            .and_then(|t| t.split('.').next())
            .and_then(|t| t.trim().parse().ok())
            .unwrap_or(0);
        let missing: Vec<&String> = names.iter().filter(|n| !cx.keys.contains(n)).collect();
        rep.monitor("rule_table:struct_rules_in_table", names.len() as u64);
        rep.monitor("rule_table:registry_keys", cx.keys.len() as u64);
        if names.is_empty() || !missing.is_empty() || n_keys != cx.keys.len() {
            rep.monitor("rule_table:mismatch", 1);
            rep.fail(
                "rule_table",
                format!(
                    "Tables_c12rules.v does not describe the registry of LintGroup::new_curated: {} struct rows, {} distinct rule names vs {} keys; rows that are no rule: {:?}",
                    names.len(), n_keys, cx.keys.len(), missing
                ),
                json!({"kind": "pair", "p": "a.\n\n", "d": "b"}),
            );
        }
    }
    for c in corpus {
        replay_input(&mut rep, &mut cx, c);
    }
    if a.replay.is_some() {
        rep.finish();
        return;
    }
    let mut r = Rng::new(a.seed);
    for _ in 0..a.scale(1200, 20000) {
        let p = gen_p(&mut r);
        let d = gen_d(&mut r);
        check_pair(&mut rep, &mut cx, &p, &d, "generated");
    }
    for _ in 0..a.scale(150, 2500) {
        let p = if r.chance(1, 2) { gen_p(&mut r) } else { gen_p_simple(&mut r) };
        let d = gen_d_seam(&mut r);
        check_pair(&mut rep, &mut cx, &p, &d, "seam");
    }
    for _ in 0..a.scale(120, 2000) {
        let p = if r.chance(1, 2) { gen_p(&mut r) } else { gen_p_simple(&mut r) };
        let d = gen_d_head(&mut r);
        check_pair(&mut rep, &mut cx, &p, &d, "head");
    }
    for _ in 0..a.scale(100, 1500) {
        let (p, d) = gen_repeat(&mut r);
        check_pair(&mut rep, &mut cx, &p, &d, "repeat");
    }
    for _ in 0..a.scale(80, 1500) {
        let (p, d) = gen_overlap(&mut r);
        check_pair(&mut rep, &mut cx, &p, &d, "overlap");
    }
    for _ in 0..a.scale(120, 2000) {
        let (p, d) = gen_windows(&mut r);
        check_pair(&mut rep, &mut cx, &p, &d, "windows");
    }
    for _ in 0..a.scale(100, 2500) {
        let (p, d) = gen_comma(&mut r);
        check_pair(&mut rep, &mut cx, &p, &d, "comma");
    }
    // synthetic comma neighbourhoods (K cases): random sequences, commas forced in
    for _ in 0..a.scale(1500, 20000) {
        let n = r.range(1, 9);
        let ls: Vec<char> = (0..n).map(|_| if r.chance(1, 3) { *r.pick(&[',', 'F', 'I']) } else { *r.pick(&COMMA_LETTERS) }).collect();
        comma_synth_case(&mut rep, &mut cx, &ls);
    }
    for _ in 0..a.scale(250, 4000) {
        let (p, d, p2, d2) = (gen_p(&mut r), gen_d(&mut r), gen_p(&mut r), gen_d(&mut r));
        check_edit(&mut rep, &mut cx, &p, &d, &p2, &d2, "generated");
    }
    // the modelled rule body LongSentences around its limit
    for _ in 0..a.scale(200, 3000) {
        let t = gen_long_text(&mut r);
        if let Ok(doc) = guarded(|| Document::new_plain_english(&t, &cx.dict)) {
            rep.eval();
            long_case(&mut rep, &doc);
        }
    }
    // synthetic kind sequences for the iterator correspondence
    for _ in 0..a.scale(3000, 30000) {
        let n = r.below(14);
        let cls: Vec<char> = (0..n).map(|_| if r.chance(1, 2) { *r.pick(&['B', '.', ',', 'Q', '!', ':']) } else { *r.pick(&CLASSES) }).collect();
        let zw = r.chance(1, 5);
        synth_case(&mut rep, &cls, zw);
    }
    if a.thorough() {
        // exhaustive: every sequence of <= 6 kind classes over a representative alphabet of 7
        let alpha = ['B', 'N', 'W', '.', ',', 'Q', 'O'];
        let mut count = 0u64;
        for len in 0..=6usize {
            let mut idx = vec![0usize; len];
            loop {
                let cls: Vec<char> = idx.iter().map(|i| alpha[*i]).collect();
                synth_case(&mut rep, &cls, false);
                count += 1;
                let mut k = 0;
                while k < len {
                    idx[k] += 1;
                    if idx[k] < alpha.len() {
                        break;
                    }
                    idx[k] = 0;
                    k += 1;
                }
                if k == len {
                    break;
                }
            }
        }
        rep.extra.insert("exhaustive_kind_sequences_le6_over_7_classes".into(), json!(count));
        // exhaustive: every comma neighbourhood x0 x1 COMMA x3 x4 over 8 neighbour classes (absent included: shorter lists)
        let nb = ['W', 'S', 'U', 'H', 'B', ',', 'F', '.'];
        let mut count2 = 0u64;
        for c in [',', 'F', 'I'] {
            for back in 0..=2usize {
                for fwd in 0..=2usize {
                    let total = back + fwd;
                    let mut idx = vec![0usize; total];
                    loop {
                        let mut ls: Vec<char> = idx[..back].iter().map(|i| nb[*i]).collect();
                        ls.push(c);
                        ls.extend(idx[back..].iter().map(|i| nb[*i]));
                        comma_synth_case(&mut rep, &mut cx, &ls);
                        count2 += 1;
                        let mut k = 0;
                        while k < total {
                            idx[k] += 1;
                            if idx[k] < nb.len() {
                                break;
                            }
                            idx[k] = 0;
                            k += 1;
                        }
                        if k == total {
                            break;
                        }
                    }
                }
            }
        }
        rep.extra.insert("exhaustive_comma_neighbourhoods".into(), json!(count2));
    }
    rep.extra.insert("rules_in_group".into(), json!(cx.keys.len()));
    rep.finish();
}

fn main() {
    let (args, corpus) = hv::cli();
    run(&args, &corpus);
}
