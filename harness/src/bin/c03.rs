//! C03 — lint spans in bounds; Suggestion::apply is the local splice.
//! Correspondence: Suggestion::apply vs Model/Suggestion.v (extracted) on (text, span, suggestion) triples,
//! panics included.  Oracle: every lint of every front-end document is in bounds and every suggestion
//! applies as the splice.
use hv::common::*;
use hv::frontends;
use hv::gen;
use harper_core::linting::{LintGroup, Linter, Suggestion};
use harper_core::{Dialect, FstDictionary, Span};
use serde_json::{json, Value};

fn sug_of(kind: usize, cs: &[char]) -> Suggestion {
    match kind {
        0 => Suggestion::ReplaceWith(cs.to_vec()),
        1 => Suggestion::InsertAfter(cs.to_vec()),
        _ => Suggestion::Remove,
    }
}

/// the specification, written independently of the implementation
fn splice(kind: usize, cs: &[char], a: usize, b: usize, src: &[char]) -> Vec<char> {
    let mut out: Vec<char> = src[..a].to_vec();
    match kind {
        0 => out.extend(cs),
        1 => {
            out.extend(&src[a..b]);
            out.extend(cs);
        }
        _ => {}
    }
    out.extend(&src[b..]);
    out
}

pub fn check_triple(rep: &mut Report, kind: usize, cs: &[char], a: usize, b: usize, src: &[char], origin: &str) {
    rep.eval();
    let case_line = format!("A {kind} {a} {b} | {} | {}", cps(src), cps(cs));
    let inp = json!({"kind": "triple", "sug": kind, "cs": cs.iter().collect::<String>(), "a": a, "b": b, "src": src.iter().collect::<String>(), "origin": origin});
    let s = sug_of(kind, cs);
    let r = guarded(|| {
        let mut v = src.to_vec();
        s.apply(Span { start: a, end: b }, &mut v);
        v
    });
    match &r {
        Ok(t) => rep.case(&case_line, format!("O {}", cps(t)).trim()),
        Err(_) => rep.case(&case_line, "P"),
    }
    let inside = a <= b && b <= src.len();
    if inside {
        match r {
            Ok(t) => {
                if t != splice(kind, cs, a, b, src) {
                    rep.fail("apply_not_splice", format!("apply changed the text outside the span or built the wrong replacement: got {:?}", t.iter().collect::<String>()), inp);
                }
            }
            Err(m) => rep.fail("apply_panics_in_bounds", format!("apply panicked on a span inside the text: {m}"), inp),
        }
        rep.nontrivial(&(kind, cs.to_vec(), a, b, src.to_vec()));
        rep.count(&format!("triple:{}:{}", ["replace", "insert_after", "remove"][kind.min(2)], if kind == 0 && cs.len() == b - a { "equal_len" } else { "general" }));
        if b == src.len() {
            rep.count("triple:touches_end");
        }
        if a == 0 {
            rep.count("triple:touches_start");
        }
    } else {
        rep.count("triple:span_outside_text(malformed stream)");
    }
    if rep.samples.len() < 3 {
        rep.sample(inp_small(kind, cs, a, b, src));
    }
}

fn inp_small(kind: usize, cs: &[char], a: usize, b: usize, src: &[char]) -> Value {
    json!({"sug": kind, "cs": cs.iter().collect::<String>(), "span": [a, b], "src": src.iter().collect::<String>()})
}

/// Lint a document in front-end `fe`; check every lint and suggestion.
pub fn check_document(rep: &mut Report, fe: &str, text: &str, group: &mut LintGroup, dict: &std::sync::Arc<FstDictionary>, cfg_name: &str) {
    rep.eval();
    let inp = json!({"kind": "document", "frontend": fe, "text": text, "config": cfg_name});
    let r = guarded(|| {
        let doc = frontends::make_document(fe, text, dict);
        group.lint(&doc)
    });
    let lints = match r {
        Ok(l) => l,
        Err(_) => {
            rep.count("document:panicked(C01's business)");
            return;
        }
    };
    let src: Vec<char> = text.chars().collect();
    rep.count(&format!("frontend:{}", fe.split(':').next().unwrap()));
    rep.count_n("lints", lints.len() as u64);
    if !lints.is_empty() {
        rep.nontrivial(&(fe.to_string(), text.to_string()));
    }
    for l in &lints {
        let (a, b) = (l.span.start, l.span.end);
        if !(a <= b && b <= src.len()) {
            rep.fail("lint_out_of_bounds", format!("lint {:?} {:?} \"{}\" lies outside the text of length {}", l.lint_kind, l.span, l.message, src.len()), inp.clone());
            continue;
        }
        for s in &l.suggestions {
            rep.count_n("suggestions", 1);
            let (kind, cs): (usize, Vec<char>) = match s {
                Suggestion::ReplaceWith(c) => (0, c.clone()),
                Suggestion::InsertAfter(c) => (1, c.clone()),
                Suggestion::Remove => (2, vec![]),
            };
            let r = guarded(|| {
                let mut v = src.clone();
                s.apply(l.span, &mut v);
                v
            });
            match r {
                Ok(t) if t == splice(kind, &cs, a, b, &src) => {}
                Ok(_) => rep.fail("suggestion_not_local", format!("suggestion {s} of lint at {:?} did not edit exactly its span", l.span), inp.clone()),
                Err(m) => rep.fail("suggestion_panics", format!("suggestion {s} of lint at {:?} panicked: {m}", l.span), inp.clone()),
            }
            // feed real (text, span, suggestion) triples to the correspondence as well (bounded size)
            if src.len() <= 160 && rep.n_cases < 200_000 {
                check_triple(rep, kind, &cs, a, b, &src, "document-lint");
            }
        }
    }
}

/// chunk (hull span, chars) of `doc` that contains char position `pos`
fn chunk_at(doc: &harper_core::Document, pos: usize) -> Option<(harper_core::Span, Vec<char>)> {
    use harper_core::TokenStringExt;
    for ch in doc.iter_chunks() {
        if let Some(sp) = ch.span() {
            if sp.start <= pos && pos < sp.end {
                return Some((sp, doc.get_span_content(&sp).to_vec()));
            }
        }
    }
    None
}

/// Cache re-basing (LintGroup::lint): the same clause seen at chunk start `a` and later, by the SAME
/// linter, at chunk start `a2`.  Correspondence line `B a a2 spans-of-first-sighting` against the
/// spans the linter reports for the second sighting; the ordinary in-bounds/splice oracle runs on both.
fn recurrence(rep: &mut Report, r: &mut Rng, dict: &std::sync::Arc<FstDictionary>, trig: &str, same_doc: bool) {
    let clause = format!(" and we saw {trig} again");
    let p1 = gen::clean_sentence(r).trim_end_matches('.').to_string();
    let mut p2 = format!("{} {}", gen::clean_sentence(r).trim_end_matches('.'), gen::clean_sentence(r).trim_end_matches('.').to_lowercase());
    if p2.chars().count() == p1.chars().count() {
        p2.push_str(" indeed");
    }
    let t1 = gen::clean_sentence(r).to_lowercase();
    let t2 = gen::clean_sentence(r).to_lowercase();
    let d1 = format!("{p1},{clause}, {t1}");
    let d2 = format!("{p2},{clause}, {t2}");
    let (text1, text2, off2) = if same_doc {
        let sep = *r.pick(&["\n\n", " ", "\n"]);
        let whole = format!("{d1}{sep}{d2}");
        let off = d1.chars().count() + sep.chars().count();
        (whole.clone(), whole, off)
    } else {
        (d1.clone(), d2.clone(), 0)
    };
    let pos1 = p1.chars().count() + 3;
    let pos2 = off2 + p2.chars().count() + 3;
    recurrence_run(rep, dict, trig, &text1, &text2, pos1, pos2, same_doc);
}

fn recurrence_run(rep: &mut Report, dict: &std::sync::Arc<FstDictionary>, trig: &str, text1: &str, text2: &str, pos1: usize, pos2: usize, same_doc: bool) {
    let (text1, text2) = (text1.to_string(), text2.to_string());
    let inp = json!({"kind": "recurrence", "trigger": trig, "same_doc": same_doc, "text1": text1, "text2": text2, "pos1": pos1, "pos2": pos2});
    let mut g = LintGroup::new_curated(dict.clone(), Dialect::American);
    g.set_all_rules_to(Some(true));
    let res = guarded(|| {
        let doc1 = frontends::make_document("plain", &text1, dict);
        let c1 = chunk_at(&doc1, pos1);
        let l1 = g.lint(&doc1);
        if same_doc {
            let c2 = chunk_at(&doc1, pos2);
            (c1, c2, l1.clone(), l1)
        } else {
            let doc2 = frontends::make_document("plain", &text2, dict);
            let c2 = chunk_at(&doc2, pos2);
            let l2 = g.lint(&doc2);
            (c1, c2, l1, l2)
        }
    });
    let Ok((Some((sp1, ch1)), Some((sp2, ch2)), l1, l2)) = res else {
        rep.count("recurrence:skipped(panic or no chunk)");
        return;
    };
    if ch1 != ch2 || sp1.start == sp2.start {
        rep.count("recurrence:skipped(chunks differ)");
        return;
    }
    rep.eval();
    let within = |ls: &[harper_core::linting::Lint], sp: harper_core::Span| -> Vec<(usize, usize)> {
        let mut v: Vec<(usize, usize)> = ls.iter().filter(|l| l.span.start >= sp.start && l.span.start < sp.end).map(|l| (l.span.start, l.span.end)).collect();
        v.sort();
        v
    };
    let s1 = within(&l1, sp1);
    let s2 = within(&l2, sp2);
    if !s1.is_empty() {
        rep.nontrivial(&(text1.clone(), text2.clone()));
        rep.count(if same_doc { "recurrence:same_document" } else { "recurrence:next_document" });
    } else {
        rep.count("recurrence:no_lint_in_clause");
    }
    let flat = |v: &[(usize, usize)]| v.iter().map(|(a, b)| format!("{a} {b}")).collect::<Vec<_>>().join(" ");
    rep.case(format!("B {} {} {}", sp1.start, sp2.start, flat(&s1)).trim(), flat(&s2).trim());
    // the second sighting must also satisfy the property itself
    let n2 = text2.chars().count();
    for l in &l2 {
        if !(l.span.start <= l.span.end && l.span.end <= n2) {
            rep.fail("lint_out_of_bounds", format!("lint {:?} {:?} of a clause served from the chunk cache lies outside the text of length {n2}", l.lint_kind, l.span),
                inp.clone());
        }
    }
    // ... and flag the same characters as the first sighting did (a re-based span that stays inside the
    // text but points at other characters is still a lint that does not point at its problem)
    let c1: Vec<char> = text1.chars().collect();
    let c2: Vec<char> = text2.chars().collect();
    if s1.len() == s2.len() {
        for ((a1, b1), (a2, b2)) in s1.iter().zip(&s2) {
            if *b1 <= c1.len() && *b2 <= c2.len() && a1 <= b1 && a2 <= b2 && c1[*a1..*b1] != c2[*a2..*b2] {
                rep.fail("cache_rebase_moves_lint", format!("the clause's lint flags {:?} at its first sighting but {:?} when served from the chunk cache",
                    c1[*a1..*b1].iter().collect::<String>(), c2[*a2..*b2].iter().collect::<String>()), inp.clone());
                break;
            }
        }
    }
}

// ======================================================================================================
// span.rs, every function (Model/C03Span.v run_span_op): correspondence lines `S op a b x y | src`
// ======================================================================================================
const SPAN_OPS: usize = 19;
const SPAN_OP_NAMES: [&str; SPAN_OPS] = ["new", "new_with_len", "len", "is_empty", "contains", "overlaps_with", "try_get_content", "get_content",
    "get_content_string", "set_len", "with_len", "push_by", "pull_by", "pushed_by", "pulled_by", "with_offset", "from_range", "into_range", "into_iter"];

fn fmt_span(s: Span) -> String {
    format!("S {} {}", s.start, s.end)
}
fn fmt_text(t: &[char]) -> String {
    format!("T {}", cps(t)).trim().to_string()
}

/// the algebra of C03SpanProofs evaluated on the implementation (inverse laws, with_len, overlaps/contains, slice)
fn span_algebra(rep: &mut Report, a: usize, b: usize, x: usize, y: usize, src: &[char], inp: &Value) {
    let sp = Span { start: a, end: b };
    let bad = guarded(|| {
        let mut bad: Vec<String> = vec![];
        if let Some(k) = a.checked_add(x).and(b.checked_add(x)) {
            let _ = k;
            let p = sp.pushed_by(x);
            if p.pulled_by(x) != Some(sp) {
                bad.push("pulled_by does not undo pushed_by".into());
            }
            let mut q = sp;
            q.push_by(x);
            q.pull_by(x);
            if q != sp || p != sp.with_offset(x) {
                bad.push("pull_by does not undo push_by / with_offset differs from pushed_by".into());
            }
        }
        if a <= b {
            if let Some(q) = sp.pulled_by(x) {
                if q.pushed_by(x) != sp {
                    bad.push("pushed_by does not undo pulled_by".into());
                }
            } else if x <= a {
                bad.push("pulled_by is None although by <= start".into());
            }
            if let Some(e) = a.checked_add(x) {
                let w = sp.with_len(x);
                if w.start != a || w.end != e || w.len() != x {
                    bad.push("with_len moved the start or has the wrong length".into());
                }
            }
            let o = Span { start: x.min(y), end: x.max(y) };
            if sp.overlaps_with(o) != o.overlaps_with(sp) {
                bad.push("overlaps_with is not symmetric".into());
            }
            if a < b && o.start < o.end && b - a <= 64 {
                let shared = (a..b).any(|i| o.contains(i) && sp.contains(i));
                if shared != sp.overlaps_with(o) {
                    bad.push("overlaps_with differs from sharing a position".into());
                }
            }
            if b <= src.len() && sp.get_content(src) != &src[a..b] {
                bad.push("get_content is not the slice".into());
            }
        }
        bad
    });
    if let Ok(bad) = bad {
        for m in bad {
            rep.fail("span_algebra", m, inp.clone());
        }
    } else {
        rep.fail("span_algebra", format!("a law of span.rs panicked on values it is defined for: {}", last_panic_location()), inp.clone());
    }
}

fn span_case(rep: &mut Report, op: usize, a: usize, b: usize, x: usize, y: usize, src: &[char], origin: &str) {
    use std::ops::Range;
    // keep `into_iter` finite
    if op == 18 && a <= b && b - a > 64 {
        return;
    }
    rep.eval();
    let sp = Span { start: a, end: b };
    let r = guarded(|| match op {
        0 => fmt_span(Span::new(a, b)),
        1 => fmt_span(Span::new_with_len(a, b)),
        2 => format!("N {}", sp.len()),
        3 => format!("B {}", sp.is_empty() as u8),
        4 => format!("B {}", sp.contains(x) as u8),
        5 => format!("B {}", sp.overlaps_with(Span { start: x, end: y }) as u8),
        6 => match sp.try_get_content(src) {
            Some(t) => fmt_text(t),
            None => "-".to_string(),
        },
        7 => fmt_text(sp.get_content(src)),
        8 => fmt_text(&sp.get_content_string(src).chars().collect::<Vec<_>>()),
        9 => {
            let mut s = sp;
            s.set_len(x);
            fmt_span(s)
        }
        10 => fmt_span(sp.with_len(x)),
        11 => {
            let mut s = sp;
            s.push_by(x);
            fmt_span(s)
        }
        12 => {
            let mut s = sp;
            s.pull_by(x);
            fmt_span(s)
        }
        13 => fmt_span(sp.pushed_by(x)),
        14 => match sp.pulled_by(x) {
            Some(s) => fmt_span(s),
            None => "-".to_string(),
        },
        15 => fmt_span(sp.with_offset(x)),
        16 => fmt_span(Span::from(a..b)),
        17 => {
            let r: Range<usize> = sp.into();
            format!("S {} {}", r.start, r.end)
        }
        _ => format!("L {}", sp.into_iter().map(|i| i.to_string()).collect::<Vec<_>>().join(" ")).trim().to_string(),
    });
    let case_line = format!("S {op} {a} {b} {x} {y} | {}", cps(src));
    let inp = json!({"kind": "span_op", "op": op, "a": a, "b": b, "x": x, "y": y, "src": src.iter().collect::<String>(), "origin": origin});
    match &r {
        Ok(s) => {
            rep.case(case_line.trim(), s);
            rep.count(&format!("span:{}:ok", SPAN_OP_NAMES[op.min(SPAN_OPS - 1)]));
            rep.nontrivial(&(op, a, b, x, y, src.to_vec()));
        }
        Err(_) => {
            rep.case(case_line.trim(), "P");
            rep.count(&format!("span:{}:panic", SPAN_OP_NAMES[op.min(SPAN_OPS - 1)]));
        }
    }
    if op == 0 {
        span_algebra(rep, a, b, x, y, src, &inp);
    }
}

fn span_ops(rep: &mut Report, r: &mut Rng, a: &Args) {
    let alphabet: Vec<char> = "ab é😀.".chars().collect();
    let m = usize::MAX;
    let big = [m, m - 1, m - 2, m - 3, m - 7, m / 2, m / 2 + 1, 1usize << 63, (1usize << 32) + 1];
    let num = |r: &mut Rng, hi: usize| -> usize {
        match r.below(10) {
            0 => *r.pick(&big),
            1 => r.below(3),
            _ => r.below(hi + 1),
        }
    };
    for _ in 0..a.scale(6000, 120_000) {
        let src: Vec<char> = (0..r.below(9)).map(|_| *r.pick(&alphabet)).collect();
        let op = r.below(SPAN_OPS);
        let (sa, sb) = (num(r, src.len() + 2), num(r, src.len() + 2));
        // mostly well-formed spans, some ill-formed
        let (sa, sb) = if r.chance(4, 5) { (sa.min(sb), sa.max(sb)) } else { (sa, sb) };
        let (x, y) = (num(r, src.len() + 3), num(r, src.len() + 3));
        span_case(rep, op, sa, sb, x, y, &src, "random");
    }
    if a.thorough() {
        // exhaustive: every function on every span / argument over 0..=5 and a 4-character source
        let src: Vec<char> = "abcd".chars().collect();
        let mut n = 0u64;
        for op in 0..SPAN_OPS {
            for sa in 0..=5 {
                for sb in 0..=5 {
                    for x in 0..=5 {
                        let ys: Vec<usize> = if op == 5 { (0..=5).collect() } else { vec![0] };
                        for y in ys {
                            span_case(rep, op, sa, sb, x, y, &src, "exhaustive");
                            n += 1;
                        }
                    }
                }
            }
        }
        rep.extra.insert("exhaustive_span_ops_over_0_5".into(), json!(n));
    }
}

// ======================================================================================================
// LintGroup::lint, the whole loop (Model/C03LintGroup.v): histories on ONE group made of test rules whose
// result functions the harness knows; correspondence lines GN / GC / GL
// ======================================================================================================
use harper_core::linting::{Lint, LintKind, PatternLinter};
use harper_core::patterns::Pattern;
use harper_core::{Document, Token, TokenStringExt};
use std::sync::atomic::{AtomicUsize, Ordering};
use std::sync::Arc;

const N_WHOLE: usize = 3;
const N_RULES: usize = 8;
/// rules 6 (reports a span starting before the token: before the CHUNK for the first word of a clause) and 7 (span
/// reaching 3 characters beyond the token) violate the premise of C03_lintgroup_history_in_bounds on purpose
const BAD_RULES: usize = (1 << 6) | (1 << 7);

fn mk_lint(span: Span, payload: usize) -> Lint {
    Lint { span, lint_kind: LintKind::Miscellaneous, suggestions: vec![], message: payload.to_string(), priority: 127 }
}

#[derive(Clone)]
struct TestRule {
    id: usize,
    epoch: Arc<AtomicUsize>,
}
impl Pattern for TestRule {
    fn matches(&self, tokens: &[Token], _source: &[char]) -> usize {
        usize::from(tokens.first().is_some_and(|t| t.kind.is_word()))
    }
}
impl PatternLinter for TestRule {
    fn pattern(&self) -> &dyn Pattern {
        self
    }
    fn match_to_lint(&self, m: &[Token], _source: &[char]) -> Option<Lint> {
        let s = m[0].span;
        Some(match self.id {
            3 => mk_lint(s, 3),
            4 => mk_lint(s.with_len(1), 4),
            5 => mk_lint(s, 200 + self.epoch.load(Ordering::SeqCst)),
            6 => mk_lint(Span { start: s.start - s.start.min(2), end: s.end }, 6),
            _ => mk_lint(Span { start: s.start, end: s.end + 3 }, 7),
        })
    }
    fn description(&self) -> &str {
        "test rule"
    }
}
struct WholeRule {
    id: usize,
    epoch: Arc<AtomicUsize>,
}
impl Linter for WholeRule {
    fn lint(&mut self, d: &Document) -> Vec<Lint> {
        let n = d.get_source().len();
        match self.id {
            0 => d.get_tokens().iter().filter(|t| t.kind.is_word()).map(|t| mk_lint(t.span, 1)).collect(),
            1 => vec![mk_lint(Span { start: 0, end: n }, 2)],
            _ => vec![mk_lint(Span { start: 0, end: n.min(1) }, 100 + self.epoch.load(Ordering::SeqCst))],
        }
    }
    fn description(&self) -> &str {
        "test rule"
    }
}

/// pattern_linter.rs::run_on_chunk (not exported), re-stated; cross-checked against the blanket `Linter` impl
fn run_on_chunk_replica(l: &dyn PatternLinter, chunk: &[Token], source: &[char]) -> Vec<Lint> {
    let mut lints = vec![];
    let mut cur = 0;
    while cur < chunk.len() {
        let n = l.pattern().matches(&chunk[cur..], source);
        if n != 0 {
            lints.extend(l.match_to_lint(&chunk[cur..cur + n], source));
            cur += n;
        } else {
            cur += 1;
        }
    }
    lints
}

struct TestGroup {
    g: LintGroup,
    epoch: Arc<AtomicUsize>,
    calls: usize,
}
fn rule_name(i: usize) -> String {
    format!("r{i}")
}
fn mk_test_group() -> TestGroup {
    let epoch = Arc::new(AtomicUsize::new(0));
    let mut g = LintGroup::empty();
    for i in 0..N_WHOLE {
        g.add(rule_name(i), Box::new(WholeRule { id: i, epoch: epoch.clone() }));
    }
    for i in N_WHOLE..N_RULES {
        g.add_pattern_linter(rule_name(i), Box::new(TestRule { id: i, epoch: epoch.clone() }));
    }
    TestGroup { g, epoch, calls: 0 }
}
fn set_cfg(g: &mut LintGroup, cfg: usize) {
    for i in 0..N_RULES {
        g.config.set_rule_enabled(rule_name(i), cfg >> i & 1 == 1);
    }
}
fn lint_triples(ls: &[Lint]) -> String {
    ls.iter().map(|l| format!("{} {} {}", l.span.start, l.span.end, l.message)).collect::<Vec<_>>().join(" ")
}

/// steps: {"cfg": n} | {"text": s}
fn lg_history(rep: &mut Report, kinds: &mut std::collections::HashMap<String, usize>, dict: &std::sync::Arc<FstDictionary>, steps: &[Value]) {
    let inp = json!({"kind": "lg_history", "steps": steps});
    lg_history_as(rep, kinds, dict, steps, "GL", &inp, &mut vec![]);
}
/// `tag`: which model answers the lint calls — "GL" the adversarial cache without evictions, "GE" the real LRU with the
/// capacity of lint_group.rs.  `outs`: what the implementation answered, call by call.
fn lg_history_as(rep: &mut Report, kinds: &mut std::collections::HashMap<String, usize>, dict: &std::sync::Arc<FstDictionary>, steps: &[Value], tag: &str, inp: &Value, outs: &mut Vec<Vec<Lint>>) {
    rep.eval();
    let inp = inp.clone();
    let mut tg = mk_test_group();
    let mut cfg = 0usize;
    rep.case("GN", "ok");
    let mut any_hit_elsewhere = false;
    let mut seen_chunks: std::collections::HashMap<Vec<char>, usize> = Default::default();
    for st in steps {
        if let Some(c) = st["cfg"].as_u64() {
            cfg = c as usize;
            set_cfg(&mut tg.g, cfg);
            rep.case(&format!("GC {cfg}"), "ok");
            continue;
        }
        let text = st["text"].as_str().unwrap_or("");
        let Ok(doc) = guarded(|| frontends::make_document("plain", text, dict)) else {
            rep.count("lintgroup:document_panicked(C01's business)");
            return;
        };
        let src = doc.get_source().to_vec();
        tg.epoch.store(tg.calls, Ordering::SeqCst);
        // what every rule returns NOW (a rule's answer may depend on the call number: rules 2 and 5)
        let shadow = guarded(|| {
            let whole: Vec<String> = (0..N_WHOLE).map(|i| format!("{i}: {}", lint_triples(&WholeRule { id: i, epoch: tg.epoch.clone() }.lint(&doc)))).collect();
            let mut chunks: Vec<String> = vec![];
            let mut per_rule_concat: Vec<Vec<Lint>> = vec![vec![]; N_RULES];
            for ch in doc.iter_chunks() {
                let toks: Vec<String> = ch.iter().map(|t| {
                    let n = kinds.len();
                    let k = *kinds.entry(format!("{:?}", t.kind)).or_insert(n);
                    format!("{} {} {}", t.span.start, t.span.end, k)
                }).collect();
                let mut f = vec![toks.join(" ")];
                for i in N_WHOLE..N_RULES {
                    let ls = run_on_chunk_replica(&TestRule { id: i, epoch: tg.epoch.clone() }, ch, &src);
                    f.push(format!("{i}: {}", lint_triples(&ls)));
                    per_rule_concat[i].extend(ls);
                }
                chunks.push(f.join(";"));
            }
            // the replica of run_on_chunk against the library's own loop (blanket impl Linter for PatternLinter)
            let mut replica_differs = 0u64;
            for i in N_WHOLE..N_RULES - 2 {
                let lib = TestRule { id: i, epoch: tg.epoch.clone() }.lint(&doc);
                if lint_triples(&lib) != lint_triples(&per_rule_concat[i]) {
                    replica_differs += 1;
                }
            }
            (whole, chunks, replica_differs)
        });
        let Ok((whole, chunks, replica_differs)) = shadow else {
            // rule 6 / 7 arithmetic cannot overflow here; a panic is the tokenizer's business
            rep.count("lintgroup:shadow_panicked");
            return;
        };
        rep.monitor("run_on_chunk_replica_differs", replica_differs);
        if replica_differs > 0 {
            rep.fail("run_on_chunk_replica_differs", "the harness's statement of run_on_chunk no longer agrees with pattern_linter.rs".into(), inp.clone());
        }
        for ch in doc.iter_chunks() {
            if let Some(sp) = ch.span() {
                let chars = doc.get_span_content(&sp).to_vec();
                if let Some(prev) = seen_chunks.get(&chars) {
                    if *prev != sp.start {
                        any_hit_elsewhere = true;
                    }
                }
                seen_chunks.insert(chars, sp.start);
            }
        }
        let case_line = format!("{tag}|{}|{}|{}", cps(&src), whole.join(";"), chunks.join("|"));
        let out = guarded(|| tg.g.lint(&doc));
        tg.calls += 1;
        match out {
            Ok(ls) => {
                rep.case(&case_line, lint_triples(&ls).trim());
                rep.count(if tag == "GE" { "lintgroup:lint_call(real LRU model)" } else { "lintgroup:lint_call" });
                outs.push(ls.clone());
                if cfg & BAD_RULES == 0 {
                    // premises of the theorem hold for rules 0..5: its conclusion must hold on the implementation
                    for l in &ls {
                        if !(l.span.start <= l.span.end && l.span.end <= src.len()) {
                            rep.fail("lintgroup_lint_out_of_bounds", format!("LintGroup::lint with well-behaved rules returned {:?} (rule payload {}) outside the text of length {}", l.span, l.message, src.len()), inp.clone());
                            break;
                        }
                    }
                }
            }
            Err(m) => {
                rep.case(&case_line, "P");
                rep.count("lintgroup:lint_call_panicked");
                if cfg & BAD_RULES == 0 {
                    rep.fail("lintgroup_panics", format!("LintGroup::lint with well-behaved rules panicked: {m} at {}", last_panic_location()), inp.clone());
                }
                // the group's state after a panic is not modelled: end of this history
                return;
            }
        }
    }
    if any_hit_elsewhere {
        rep.count("lintgroup:history_with_a_clause_recurring_at_another_offset");
        rep.nontrivial(&steps.iter().map(|s| s.to_string()).collect::<Vec<_>>());
    }
}

/// the capacity `LintGroup::empty()` gives its chunk cache, as tools/tables/c03cache.py read it from lint_group.rs just
/// before this binary was built (the MODEL gets the same number through the extracted Tables_c03cache.v); it sizes the stream
fn lru_cap() -> usize {
    let t = include_str!("../../../coq/Model/Tables_c03cache.v");
    let at = t.find("lint_group_cache_cap_N : N := ").expect("Tables_c03cache.v: unknown shape") + "lint_group_cache_cap_N : N := ".len();
    t[at..].chars().take_while(|c| c.is_ascii_digit()).collect::<String>().parse().expect("Tables_c03cache.v: capacity")
}

/// the `i`-th clause of the eviction stream: distinct characters for distinct `i`, the fastest-changing word first
fn evict_clause(i: usize) -> String {
    let l = gen::COMMON.len();
    let mut ws = vec![gen::COMMON[i % l], gen::COMMON[(i / l) % l]];
    let mut rest = i / (l * l);
    while rest > 0 {
        ws.push(gen::COMMON[rest % l]);
        rest /= l;
    }
    ws.join(" ")
}

/// A history that OVERFILLS the real chunk cache (capacity 10 000, private): documents of 20..60 clauses, all clauses
/// distinct, until `lru_cap() + extra` distinct chunks were linted on one `LintGroup::empty()` with the stateful test rules;
/// after `promote_after` documents the first document is linted again (its entries move to the front); a configuration
/// change in between (the configuration hash is part of the key); at the end documents 0, 1, 2 and the last two are
/// linted again: which of their clauses are still served from the cache (old payload of rule 5) depends on promotion and
/// on exactly which entries were popped.  Every call is compared with the extracted REAL-LRU model (`GE` lines).
fn evict_steps(seed: u64, extra: usize, promote_after: usize) -> Vec<Value> {
    let mut r = Rng::new(seed ^ 0x5eed_e71c);
    let mut docs: Vec<String> = vec![];
    let mut next = 0usize;
    while next < lru_cap() + extra {
        let k = 20 + r.below(41);
        let clauses: Vec<String> = (next..next + k).map(evict_clause).collect();
        next += k;
        let mut text = clauses.join(", ");
        text.push_str(*r.pick(&[".", ",", ""]));
        docs.push(text);
    }
    let cfg_a = 1 << 3 | 1 << 5;
    let cfg_b = 1 << 3 | 1 << 4 | 1 << 5;
    let mut steps = vec![json!({"cfg": cfg_a})];
    for (i, d) in docs.iter().enumerate() {
        steps.push(json!({"text": d}));
        if i + 1 == promote_after {
            steps.push(json!({"text": docs[0]}));
        }
        if i == 3 {
            // entries under another configuration: same characters, other key
            steps.push(json!({"cfg": cfg_b}));
            steps.push(json!({"text": docs[2]}));
            steps.push(json!({"cfg": cfg_a}));
        }
    }
    let n = docs.len();
    for i in [0, 1, 2, n - 2, n - 1, 0] {
        steps.push(json!({"text": docs[i]}));
    }
    steps
}

fn lg_evict_history(rep: &mut Report, dict: &std::sync::Arc<FstDictionary>, seed: u64, extra: usize, promote_after: usize) {
    let inp = json!({"kind": "lg_evict", "seed": seed, "extra": extra, "promote_after": promote_after});
    let steps = evict_steps(seed, extra, promote_after);
    let mut kinds = Default::default();
    let mut outs: Vec<Vec<Lint>> = vec![];
    lg_history_as(rep, &mut kinds, dict, &steps, "GE", &inp, &mut outs);
    // what the implementation did, read off rule 5's payload (200 + number of the call that computed the entry):
    // a lint of call c with payload 200 + c was computed now (miss), any other payload was served from the cache
    let n_calls = steps.iter().filter(|s| s.get("text").is_some()).count();
    if outs.len() != n_calls {
        rep.fail("eviction_stream_incomplete", format!("the eviction history stopped after {} of {} lint calls", outs.len(), n_calls), inp);
        return;
    }
    let served = |c: usize| -> (usize, usize) {
        let mut hit = 0;
        let mut miss = 0;
        for l in &outs[c] {
            if let Ok(p) = l.message.parse::<usize>() {
                if p >= 200 {
                    if p == 200 + c { miss += 1 } else { hit += 1 }
                }
            }
        }
        (hit, miss)
    };
    // last six calls: documents 0 (promoted: still cached), 1 (popped), 2, n-2, n-1 (recent: cached), 0 again
    let (h0, m0) = served(n_calls - 6);
    let (h1, m1) = served(n_calls - 5);
    let (hl, ml) = served(n_calls - 2);
    rep.count_n("lintgroup:evict_stream:lints_served_from_cache_after_overfill", (h0 + h1 + hl) as u64);
    rep.count_n("lintgroup:evict_stream:lints_recomputed_after_overfill", (m0 + m1 + ml) as u64);
    let evicted_seen = m1 > 0;
    let promoted_seen = h0 > 0 && m0 == 0;
    let recent_seen = hl > 0 && ml == 0;
    if lru_cap() < 1000 {
        // the promotion pattern below needs room for 12..20 documents before the promotion; the correspondence stands anyway
        rep.count("lintgroup:evict_stream:capacity_below_1000(pattern not asserted)");
        return;
    }
    rep.monitor("eviction_stream_ineffective", u64::from(!(evicted_seen && promoted_seen && recent_seen)));
    if !(evicted_seen && promoted_seen && recent_seen) {
        rep.fail("eviction_stream_ineffective", format!("overfilling the chunk cache with {} distinct clauses did not show the expected LRU pattern: document 0 (promoted) hits {h0} misses {m0}, document 1 (oldest) hits {h1} misses {m1}, last document hits {hl} misses {ml}", lru_cap() + extra), inp);
    } else {
        rep.count("lintgroup:history_with_real_evictions(promotion kept doc 0, doc 1 popped)");
        rep.nontrivial(&format!("lg_evict {seed} {extra} {promote_after}"));
    }
}

fn gen_lg_history(r: &mut Rng) -> Vec<Value> {
    let n_pool = 3 + r.below(3);
    let pool: Vec<String> = (0..n_pool).map(|_| {
        let n = 1 + r.below(4);
        (0..n).map(|_| r.pick(gen::COMMON).to_string()).collect::<Vec<_>>().join(" ")
    }).collect();
    let mut pool = pool;
    if r.chance(1, 2) {
        // twin clauses: same token shapes, characters that differ only late in the clause (a key that forgets
        // part of the chunk's characters confuses them)
        let base = format!("{} and the", pool[0]);
        let (x, y) = *r.pick(&[("cat", "dog"), ("walked", "talked"), ("house", "mouse"), ("cats", "dogs")]);
        pool.push(format!("{base} {x}"));
        pool.push(format!("{base} {y}"));
        pool.push(format!("{base} {x}"));
        pool.push(format!("{base} {y}"));
    }
    let good_cfg = |r: &mut Rng| r.below(1 << 6) | if r.chance(3, 4) { 1 << 3 | 1 << 5 } else { 0 };
    let mut steps = vec![];
    let bad = r.chance(1, 4);
    steps.push(json!({"cfg": good_cfg(r) | if bad { (1 + r.below(3)) << 6 } else { 0 }}));
    for _ in 0..(2 + r.below(4)) {
        if r.chance(1, 3) {
            steps.push(json!({"cfg": good_cfg(r) | if bad && r.chance(1, 2) { (1 + r.below(3)) << 6 } else { 0 }}));
        }
        let k = 1 + r.below(5);
        let mut text = String::new();
        if r.chance(1, 3) {
            text.push_str(*r.pick(&["é𝒜 ", "So ", "Well then", "😀"]));
        }
        for i in 0..k {
            if i > 0 || !text.is_empty() {
                text.push_str(*r.pick(&[", ", ", ", ", ", ", ", ", ", "; ", ". ", ",", " - ", ".\n\n", ": "]));
            }
            text.push_str(r.pick(&pool[..]).as_str());
        }
        text.push_str(*r.pick(&[",", ",", ".", "", "!"]));
        steps.push(json!({"text": text}));
    }
    steps
}

// ======================================================================================================
// the premise of C03_lintgroup_history_in_bounds on harper's own pattern rules: every lint a pattern rule
// reports for a chunk lies inside that chunk's hull (monitor `pattern_rule_lint_outside_chunk`)
// ======================================================================================================
fn real_pattern_rules() -> Vec<(&'static str, Box<dyn PatternLinter>)> {
    use harper_core::linting::*;
    macro_rules! rules { ($($r:ident),*) => { vec![$((stringify!($r), Box::new($r::default()) as Box<dyn PatternLinter>)),*] } }
    rules!(BackInTheDay, BoringWords, ChockFull, Confident, Dashes, DespiteOf, DotInitialisms, ExpandTimeShorthands, ForNoun, Hedging,
        Hereby, HyphenateNumberDay, LeftRightHand, Likewise, ModalOf, MultipleSequentialPronouns, Nobody, OutOfDate, Oxymorons,
        PiqueInterest, PossessiveYour, SomewhatSomething, ThatWhich, TheHowWhy, ThenThan, UseGenitive, WasAloud, Whereas, WidelyAccepted)
}
fn premise_monitor(rep: &mut Report, rules: &[(&'static str, Box<dyn PatternLinter>)], fe: &str, text: &str, dict: &std::sync::Arc<FstDictionary>) {
    struct_monitor(rep, fe, text, dict);
    let inp = json!({"kind": "premise", "frontend": fe, "text": text});
    let r = guarded(|| {
        let doc = frontends::make_document(fe, text, dict);
        let src = doc.get_source();
        let mut bad: Vec<String> = vec![];
        let (mut n_lints, mut n_chunks, mut hull_outside, mut n_none) = (0u64, 0u64, 0u64, 0u64);
        let mut rcases: Vec<(String, String, String)> = vec![];
        for ch in doc.iter_chunks() {
            let Some(sp) = ch.span() else { continue };
            n_chunks += 1;
            if sp.end > src.len() {
                hull_outside += 1;
                continue;
            }
            for (name, rule) in rules {
                // run_on_chunk again, match by match (the replica above is the one cross-checked against the library):
                // every slice handed to match_to_lint with the span of the lint it makes -> `R` correspondence line
                let mut cur = 0;
                while cur < ch.len() {
                    let n = rule.pattern().matches(&ch[cur..], src);
                    if n == 0 {
                        cur += 1;
                        continue;
                    }
                    let m = &ch[cur..cur + n];
                    cur += n;
                    let Some(l) = rule.match_to_lint(m, src) else {
                        n_none += 1;
                        continue;
                    };
                    n_lints += 1;
                    if !(sp.start <= l.span.start && l.span.start <= l.span.end && l.span.end <= sp.end) {
                        bad.push(format!("{name} reports {:?} for the chunk {:?}", l.span, sp));
                    }
                    let spans: Vec<String> = m.iter().map(|t| format!("{} {}", t.span.start, t.span.end)).collect();
                    rcases.push((name.to_string(), format!("R {name} {} {} | {}", l.span.start, l.span.end, spans.join(" ")), format!("{} {}", l.span.start, l.span.end)));
                }
            }
        }
        (bad, n_lints, n_chunks, hull_outside, rcases, n_none)
    });
    let Ok((bad, n_lints, n_chunks, hull_outside, rcases, n_none)) = r else {
        rep.count("premise:document_or_rule_panicked(C01's business)");
        return;
    };
    rep.eval();
    rep.count_n("premise:chunks", n_chunks);
    rep.count_n("premise:pattern_rule_lints", n_lints);
    rep.count_n("premise:match_to_lint_returned_None", n_none);
    for (name, case, imp) in rcases {
        rep.count(&format!("R:{name}"));
        rep.case(&case, &imp);
    }
    rep.monitor("pattern_rule_lint_outside_chunk", bad.len() as u64);
    rep.monitor("chunk_hull_outside_source", hull_outside);
    if hull_outside > 0 {
        rep.fail("chunk_hull_outside_source", "a chunk's hull ends beyond the source (token invariant, C02)".into(), inp.clone());
    }
    if let Some(b) = bad.first() {
        rep.fail("pattern_rule_lint_outside_chunk", format!("premise of C03_lintgroup_history_in_bounds violated: {b}"), inp);
    }
}

// ======================================================================================================
// phase 6: the struct (whole-document) rules of Tables_c03structroots.v — every lint each of them makes on a generated document,
// with the spans of ALL tokens of the document: `W` correspondence line, answered by the extracted C03StructRoots.run_struct_rule_span
// ("yes" iff some Lint construction of the rule's row denotes that span for SOME token indices)
// ======================================================================================================
fn real_struct_rules(dict: &std::sync::Arc<FstDictionary>) -> Vec<(&'static str, Box<dyn Linter>)> {
    use harper_core::linting::*;
    macro_rules! rules { ($($r:ident),*) => { vec![$((stringify!($r), Box::new($r::default()) as Box<dyn Linter>)),*] } }
    let mut v = rules!(AdjectiveOfA, AnA, AvoidCurses, CapitalizePersonalPronouns, CommaFixes, CorrectNumberSuffix, CurrencyPlacement,
        EllipsisLength, LinkingVerbs, LongSentences, MergeWords, NoOxfordComma, NumberSuffixCapitalization, OxfordComma, RepeatedWords,
        Spaces, SpelledNumbers, UnclosedQuotes, WordPressDotcom);
    v.push(("SpellCheck", Box::new(SpellCheck::new(dict.clone(), Dialect::American))));
    v.push(("InflectedVerbAfterTo", Box::new(InflectedVerbAfterTo::new(dict.clone(), Dialect::American))));
    v.push(("SentenceCapitalization", Box::new(SentenceCapitalization::new(dict.clone(), Dialect::American))));
    v
}
fn struct_monitor(rep: &mut Report, fe: &str, text: &str, dict: &std::sync::Arc<FstDictionary>) {
    let r = guarded(|| {
        let doc = frontends::make_document(fe, text, dict);
        let n = doc.get_source().len();
        let spans: Vec<String> = doc.get_tokens().iter().map(|t| format!("{} {}", t.span.start, t.span.end)).collect();
        let toks_inside = doc.get_tokens().iter().all(|t| t.span.start <= t.span.end && t.span.end <= n);
        // phase 7: the lexer facts imported from C02 that discharge SentenceCapitalization's premise — every token of a
        // plain-English document is non-empty (the tokens tile the text), in every front-end every Word token is non-empty
        let empty_word = doc.get_tokens().iter().any(|t| t.kind.is_word() && t.span.start >= t.span.end);
        let empty_plain = fe == "plain" && doc.get_tokens().iter().any(|t| t.span.start >= t.span.end);
        // ... and the guard the scanner records (struct_word_guards): a SentenceCapitalization lint is the first character of a Word token
        let mut cap_off_word = false;
        let mut cases: Vec<(String, String)> = vec![];
        for (name, rule) in real_struct_rules(dict).iter_mut() {
            // at most the first two and the last lint of a rule per document (Spaces / SpellCheck make hundreds; the model
            // answers one line per lint over the whole token list)
            let ls = rule.lint(&doc);
            let k = ls.len();
            if *name == "SentenceCapitalization" {
                for l in &ls {
                    if !(l.span.end == l.span.start + 1 && doc.get_tokens().iter().any(|t| t.kind.is_word() && t.span.start == l.span.start)) {
                        cap_off_word = true;
                    }
                }
                if k > 0 {
                    cases.push((String::new(), String::new()));      // marker: the rule fired on this document (bucket below)
                }
            }
            for (i, l) in ls.iter().enumerate() {
                if i < 2 || i + 1 == k {
                    cases.push((name.to_string(), format!("W {name} {} {} | {}", l.span.start, l.span.end, spans.join(" "))));
                }
            }
        }
        (cases, toks_inside, empty_word, empty_plain, cap_off_word)
    });
    let Ok((cases, toks_inside, empty_word, empty_plain, cap_off_word)) = r else {
        rep.count("struct:document_or_rule_panicked(C01's business)");
        return;
    };
    rep.monitor("document_token_outside_source", if toks_inside { 0 } else { 1 });
    if !toks_inside {
        rep.fail("document_token_outside_source", "a token of the document lies outside the source (token invariant, C02)".into(),
            json!({"kind": "premise", "frontend": fe, "text": text}));
    }
    rep.monitor("word_token_empty", if empty_word { 1 } else { 0 });
    if empty_word {
        rep.fail("word_token_empty", "a Word token of the document is empty (C02: zero-width tokens are Newline / ParagraphBreak only) — premise of SentenceCapitalization's with_len(1)".into(),
            json!({"kind": "premise", "frontend": fe, "text": text}));
    }
    rep.monitor("plain_document_token_empty", if empty_plain { 1 } else { 0 });
    if empty_plain {
        rep.fail("plain_document_token_empty", "a token of a plain-English document is empty (C02: the tokens tile the text)".into(),
            json!({"kind": "premise", "frontend": fe, "text": text}));
    }
    rep.monitor("sentence_capitalization_lint_not_first_char_of_word", if cap_off_word { 1 } else { 0 });
    if cap_off_word {
        rep.fail("sentence_capitalization_lint_not_first_char_of_word", "a SentenceCapitalization lint is not the first character of a Word token (the is_word() guard recorded in struct_word_guards)".into(),
            json!({"kind": "premise", "frontend": fe, "text": text}));
    }
    for (name, case) in cases {
        if name.is_empty() {
            rep.count(&format!("sentence_capitalization_fired:{}", if fe == "plain" { "plain" } else { "other front-end" }));
            continue;
        }
        rep.count(&format!("W:{name}"));
        rep.case(&case, "yes");
    }
}

pub fn replay_input(rep: &mut Report, v: &Value, group: &mut LintGroup, dict: &std::sync::Arc<FstDictionary>) {
    match v["kind"].as_str() {
        Some("span_op") => {
            let src: Vec<char> = v["src"].as_str().unwrap_or("").chars().collect();
            let g = |k: &str| v[k].as_u64().unwrap_or(0) as usize;
            span_case(rep, g("op"), g("a"), g("b"), g("x"), g("y"), &src, "replay")
        }
        Some("lg_history") => {
            let mut kinds = Default::default();
            let steps = v["steps"].as_array().map(|a| a.as_slice()).unwrap_or(&[]);
            if v["model"].as_str() == Some("lru") {
                lg_history_as(rep, &mut kinds, dict, steps, "GE", v, &mut vec![])
            } else {
                lg_history(rep, &mut kinds, dict, steps)
            }
        }
        Some("lg_evict") => lg_evict_history(rep, dict, v["seed"].as_u64().unwrap_or(1), v["extra"].as_u64().unwrap_or(100) as usize, v["promote_after"].as_u64().unwrap_or(3) as usize),
        Some("premise") => premise_monitor(rep, &real_pattern_rules(), v["frontend"].as_str().unwrap_or("plain"), v["text"].as_str().unwrap_or(""), dict),
        Some("recurrence") => recurrence_run(rep, dict, v["trigger"].as_str().unwrap_or(""), v["text1"].as_str().unwrap_or(""), v["text2"].as_str().unwrap_or(""),
            v["pos1"].as_u64().unwrap_or(0) as usize, v["pos2"].as_u64().unwrap_or(0) as usize, v["same_doc"].as_bool().unwrap_or(false)),
        Some("document") => {
            if v["config"].as_str() == Some("all") {
                group.set_all_rules_to(Some(true));
            }
            check_document(rep, v["frontend"].as_str().unwrap_or("plain"), v["text"].as_str().unwrap_or(""), group, dict, v["config"].as_str().unwrap_or("default"))
        }
        _ => {
            let cs: Vec<char> = v["cs"].as_str().unwrap_or("").chars().collect();
            let src: Vec<char> = v["src"].as_str().unwrap_or("").chars().collect();
            check_triple(rep, v["sug"].as_u64().unwrap_or(0) as usize, &cs, v["a"].as_u64().unwrap_or(0) as usize, v["b"].as_u64().unwrap_or(0) as usize, &src, "replay");
        }
    }
}

pub fn run(a: &Args, corpus: &[Value]) {
    let mut rep = Report::new(&a.out);
    rep.rule = "(text, span, suggestion) triples: random (|text|<=12, alphabet incl. astral chars; spans inside the text incl. both ends, empty spans, equal-length replace) + a malformed stream of spans outside the text (panic agreement only); documents in every front-end (plain, Markdown x2, HTML, Typst, LHS, git-commit, 22 comment languages, +CollapseIdentifiers/+IsolateEnglish) under default / all-rules / random configurations: every lint in bounds, every suggestion = splice; thorough adds all triples with |text|<=6 over {a,b}. span.rs: every function (19 opcodes) on random spans / arguments incl. values up to usize::MAX and ill-formed spans, with the algebra (inverse laws, with_len, overlaps = shared position, get_content = slice) evaluated on the implementation, thorough adds all spans/arguments over 0..=5; LintGroup::lint: histories (configuration changes, 2-5 documents built from a pool of clauses that recur at other offsets, twin clauses) on one LintGroup::empty() carrying 3 whole-document and 5 pattern test rules (two stateful, two deliberately violating the chunk premise: panics and out-of-bounds lints included), in-bounds oracle when only well-behaved rules are enabled; premise monitor: 29 exported pattern rules run chunk by chunk on the generated documents, every lint inside its chunk; every slice run_on_chunk hands to their match_to_lint with the span of the lint made = `R` correspondence line against the table-driven body model (C03Roots.run_rule_span); every lint each of the 22 struct rules (`impl Linter for`) makes on the same documents with the spans of all tokens of the document = `W` correspondence line (C03StructRoots.run_struct_rule_span: some Lint construction of the rule's row denotes it for some token indices). non-trivial = distinct in-bounds triple, distinct document with >=1 lint, distinct span case, or history with a clause recurring at another offset".into();
    let dict = FstDictionary::curated();
    let mut group = LintGroup::new_curated(dict.clone(), Dialect::American);
    for c in corpus {
        replay_input(&mut rep, c, &mut group, &dict);
    }
    if a.replay.is_some() {
        rep.finish();
        return;
    }
    let mut r = Rng::new(a.seed);
    let alphabet: Vec<char> = "ab cé\n😀𝒜.".chars().collect();
    let rand_text = |r: &mut Rng, max: usize| -> Vec<char> { (0..r.below(max + 1)).map(|_| *r.pick(&alphabet)).collect() };
    for _ in 0..a.scale(6000, 100_000) {
        let src = rand_text(&mut r, 12);
        let x = r.below(src.len() + 1);
        let y = r.below(src.len() + 1);
        let (x, y) = (x.min(y), x.max(y));
        let kind = r.below(3);
        let cs = if kind == 0 && r.chance(1, 3) { (0..(y - x)).map(|_| *r.pick(&alphabet)).collect() } else { rand_text(&mut r, 4) };
        check_triple(&mut rep, kind, &cs, x, y, &src, "random");
    }
    // malformed stream: spans reaching outside the text, start > end
    for _ in 0..a.scale(1500, 20_000) {
        let src = rand_text(&mut r, 6);
        let x = r.below(src.len() + 4);
        let y = r.below(src.len() + 4);
        let kind = r.below(3);
        let cs = rand_text(&mut r, 3);
        check_triple(&mut rep, kind, &cs, x, y, &src, "malformed");
    }
    // span.rs, every function, incl. the debug-build panics (numbers up to usize::MAX)
    span_ops(&mut rep, &mut r, a);
    // LintGroup::lint, whole loop: histories on one group of test rules
    {
        let mut kinds = Default::default();
        for _ in 0..a.scale(120, 1500) {
            let steps = gen_lg_history(&mut r);
            lg_history(&mut rep, &mut kinds, &dict, &steps);
        }
        // the same kind of histories against the REAL-LRU model (no eviction happens: both models must agree with the code)
        for _ in 0..a.scale(40, 500) {
            let steps = gen_lg_history(&mut r);
            let inp = json!({"kind": "lg_history", "model": "lru", "steps": steps});
            lg_history_as(&mut rep, &mut kinds, &dict, &steps, "GE", &inp, &mut vec![]);
        }
    }
    // ... and histories that overfill the cache: real evictions, promotion on get
    for i in 0..a.scale(1, 4) {
        // at most 99 + 60 entries are popped before the final calls; the >= 11 documents linted before the promotion of
        // document 0 hold >= 220 older entries, so document 0 must survive and document 1 (<= 60 entries, >= 110 popped) must be gone
        let extra = 50 + r.below(50);
        let promote_after = 12 + r.below(8);
        lg_evict_history(&mut rep, &dict, a.seed.wrapping_add(i as u64), extra, promote_after);
    }
    if a.thorough() {
        // exhaustive: all texts of length <= 6 over {a,b}, all spans, 3 kinds x replacement in {"", "x", same-length "xx.."}
        let mut n = 0u64;
        for len in 0..=6usize {
            for bits in 0..(1u32 << len) {
                let src: Vec<char> = (0..len).map(|i| if bits >> i & 1 == 1 { 'b' } else { 'a' }).collect();
                for x in 0..=len {
                    for y in x..=len {
                        for kind in 0..3 {
                            let reps: Vec<Vec<char>> = if kind == 2 { vec![vec![]] } else { vec![vec![], vec!['x'], vec!['x'; y - x], vec!['x'; y - x + 1]] };
                            for cs in reps {
                                check_triple(&mut rep, kind, &cs, x, y, &src, "exhaustive");
                                n += 1;
                            }
                        }
                    }
                }
            }
        }
        rep.extra.insert("exhaustive_triples_len_le6_over_ab".into(), json!(n));
    }
    // every special construct at the very start, alone, and at the very end of a text (no terminator):
    // spans computed with an offset only leave the text there
    group.set_all_rules_to(Some(true));
    let constructs: Vec<&str> = gen::TRIGGERS.iter().chain(gen::NUMBERS).chain(gen::ABBREV).chain(gen::MISSPELT).chain(gen::CONTRACTIONS).copied().collect();
    for (i, c) in constructs.iter().enumerate() {
        if !a.thorough() && i % 2 == (a.seed % 2) as usize && i >= gen::TRIGGERS.len() {
            continue;
        }
        let clean = gen::clean_sentence(&mut r);
        let clean_open = clean.trim_end_matches('.').to_string();
        for text in [c.to_string(), format!("{clean_open} {c}"), format!("{c} {}", clean.to_lowercase()), format!("{clean} {}", gen::capitalize(c)), format!("é𝒜 {c}")] {
            check_document(&mut rep, "plain", &text, &mut group, &dict, "all");
        }
        let fe = ["markdown", "c:rust", "c:python", "html", "typst", "lhaskell", "gitcommit", "c:java", "c:go"][i % 9];
        let text = match fe {
            "c:rust" | "c:java" | "c:go" => format!("// {clean_open} {c}"),
            "c:python" => format!("# {clean_open} {c}"),
            "html" => format!("<p>{clean_open} {c}</p>"),
            _ => format!("{clean_open} {c}"),
        };
        check_document(&mut rep, fe, &text, &mut group, &dict, "all");
    }
    // the chunk cache: clauses that recur at another offset, in the same and in the next document
    for (i, c) in gen::TRIGGERS.iter().enumerate() {
        for rep_i in 0..a.scale(2, 12) {
            recurrence(&mut rep, &mut r, &dict, c, (i + rep_i) % 2 == 0);
        }
    }
    // documents in every front-end
    let mut fes = frontends::base_frontends();
    let extra: Vec<String> = fes.iter().filter(|f| f.starts_with("c:") || *f == "lhaskell").map(|f| format!("{f}+ci")).collect();
    fes.extend(extra);
    fes.push("markdown+ie".into());
    fes.push("plain+ie".into());
    let per_fe = a.scale(14, 160);
    let real_rules = real_pattern_rules();
    // phrases for the pattern rules gen::TRIGGERS does not reach (the `R` lines should cover all 29 rules)
    const MORE_TRIGGERS: &[&str] = &["a text fro Sarah", "away fro sure", "I would argue that this is so", "I here by declare this",
        "the amateur expert spoke", "it is advancing backwards", "managed to peak his interest", "peeked his interest",
        "it is wide accepted that", "wide acceptable standards", "I am confidant", "she seems confidant"];
    for c in gen::TRIGGERS.iter().chain(MORE_TRIGGERS.iter()) {
        for _ in 0..a.scale(2, 10) {
            let text = format!("{} {}, {} {c}; {}", gen::clean_sentence(&mut r), c, gen::clean_sentence(&mut r).to_lowercase(), gen::clean_sentence(&mut r));
            premise_monitor(&mut rep, &real_rules, "plain", &text, &dict);
        }
        // the phrase as the LAST words of the text (no closing punctuation): a lint that sticks out of its last token by
        // one character leaves the chunk and the document here and nowhere else (mutation d11)
        let text = format!("{} {c}", gen::clean_sentence(&mut r).trim_end_matches(|ch: char| ch.is_ascii_punctuation()));
        premise_monitor(&mut rep, &real_rules, "plain", &text, &dict);
        group.set_all_rules_to(Some(true));
        check_document(&mut rep, "plain", &text, &mut group, &dict, "all");
    }
    let all_keys: Vec<String> = group.iter_keys().map(|s| s.to_string()).collect();
    for fe in &fes {
        for i in 0..per_fe {
            let cfg_name = match i % 3 {
                0 => {
                    group.config = harper_core::linting::LintGroupConfig::new_curated();
                    "default"
                }
                1 => {
                    group.set_all_rules_to(Some(true));
                    "all"
                }
                _ => {
                    for k in &all_keys {
                        match r.below(3) {
                            0 => group.config.set_rule_enabled(k, true),
                            1 => group.config.set_rule_enabled(k, false),
                            _ => group.config.unset_rule_enabled(k),
                        }
                    }
                    "random"
                }
            };
            let text = frontends::embed(fe, &mut r);
            if text.chars().count() > 1500 {
                continue;
            }
            check_document(&mut rep, fe, &text, &mut group, &dict, cfg_name);
            premise_monitor(&mut rep, &real_rules, fe, &text, &dict);
        }
    }
    rep.finish();
}

fn main() {
    let (args, corpus) = hv::cli();
    run(&args, &corpus);
}
