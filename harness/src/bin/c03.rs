//! C03 — lint spans in bounds; Suggestion::apply is the local splice.
//! Correspondence: Suggestion::apply vs Model/Suggestion.v (extracted) on (text, span, suggestion) triples,
//! panics included.  Oracle: every lint of every front-end document is in bounds and every suggestion
//! applies as the splice.
use hv::common::*;
use hv::frontends;
use hv::gen;
use harper_core::linting::{LintGroup, Linter, Suggestion};
use harper_core::{Dialect, FstDictionary, Span};
use serde_json::{json, Value};

fn sug_of(kind: usize, cs: &[char]) -> Suggestion {
    match kind {
        0 => Suggestion::ReplaceWith(cs.to_vec()),
        1 => Suggestion::InsertAfter(cs.to_vec()),
        _ => Suggestion::Remove,
    }
}

/// the specification, written independently of the implementation
fn splice(kind: usize, cs: &[char], a: usize, b: usize, src: &[char]) -> Vec<char> {
    let mut out: Vec<char> = src[..a].to_vec();
    match kind {
        0 => out.extend(cs),
        1 => {
            out.extend(&src[a..b]);
            out.extend(cs);
        }
        _ => {}
    }
    out.extend(&src[b..]);
    out
}

pub fn check_triple(rep: &mut Report, kind: usize, cs: &[char], a: usize, b: usize, src: &[char], origin: &str) {
    rep.eval();
    let case_line = format!("A {kind} {a} {b} | {} | {}", cps(src), cps(cs));
    let inp = json!({"kind": "triple", "sug": kind, "cs": cs.iter().collect::<String>(), "a": a, "b": b, "src": src.iter().collect::<String>(), "origin": origin});
    let s = sug_of(kind, cs);
    let r = guarded(|| {
        let mut v = src.to_vec();
        s.apply(Span { start: a, end: b }, &mut v);
        v
    });
    match &r {
        Ok(t) => rep.case(&case_line, format!("O {}", cps(t)).trim()),
        Err(_) => rep.case(&case_line, "P"),
    }
    let inside = a <= b && b <= src.len();
    if inside {
        match r {
            Ok(t) => {
                if t != splice(kind, cs, a, b, src) {
                    rep.fail("apply_not_splice", format!("apply changed the text outside the span or built the wrong replacement: got {:?}", t.iter().collect::<String>()), inp);
                }
            }
            Err(m) => rep.fail("apply_panics_in_bounds", format!("apply panicked on a span inside the text: {m}"), inp),
        }
        rep.nontrivial(&(kind, cs.to_vec(), a, b, src.to_vec()));
        rep.count(&format!("triple:{}:{}", ["replace", "insert_after", "remove"][kind.min(2)], if kind == 0 && cs.len() == b - a { "equal_len" } else { "general" }));
        if b == src.len() {
            rep.count("triple:touches_end");
        }
        if a == 0 {
            rep.count("triple:touches_start");
        }
    } else {
        rep.count("triple:span_outside_text(malformed stream)");
    }
    if rep.samples.len() < 3 {
        rep.sample(inp_small(kind, cs, a, b, src));
    }
}

fn inp_small(kind: usize, cs: &[char], a: usize, b: usize, src: &[char]) -> Value {
    json!({"sug": kind, "cs": cs.iter().collect::<String>(), "span": [a, b], "src": src.iter().collect::<String>()})
}

/// Lint a document in front-end `fe`; check every lint and suggestion.
pub fn check_document(rep: &mut Report, fe: &str, text: &str, group: &mut LintGroup, dict: &std::sync::Arc<FstDictionary>, cfg_name: &str) {
    rep.eval();
    let inp = json!({"kind": "document", "frontend": fe, "text": text, "config": cfg_name});
    let r = guarded(|| {
        let doc = frontends::make_document(fe, text, dict);
        group.lint(&doc)
    });
    let lints = match r {
        Ok(l) => l,
        Err(_) => {
            rep.count("document:panicked(C01's business)");
            return;
        }
    };
    let src: Vec<char> = text.chars().collect();
    rep.count(&format!("frontend:{}", fe.split(':').next().unwrap()));
    rep.count_n("lints", lints.len() as u64);
    if !lints.is_empty() {
        rep.nontrivial(&(fe.to_string(), text.to_string()));
    }
    for l in &lints {
        let (a, b) = (l.span.start, l.span.end);
        if !(a <= b && b <= src.len()) {
            rep.fail("lint_out_of_bounds", format!("lint {:?} {:?} \"{}\" lies outside the text of length {}", l.lint_kind, l.span, l.message, src.len()), inp.clone());
            continue;
        }
        for s in &l.suggestions {
            rep.count_n("suggestions", 1);
            let (kind, cs): (usize, Vec<char>) = match s {
                Suggestion::ReplaceWith(c) => (0, c.clone()),
                Suggestion::InsertAfter(c) => (1, c.clone()),
                Suggestion::Remove => (2, vec![]),
            };
            let r = guarded(|| {
                let mut v = src.clone();
                s.apply(l.span, &mut v);
                v
            });
            match r {
                Ok(t) if t == splice(kind, &cs, a, b, &src) => {}
                Ok(_) => rep.fail("suggestion_not_local", format!("suggestion {s} of lint at {:?} did not edit exactly its span", l.span), inp.clone()),
                Err(m) => rep.fail("suggestion_panics", format!("suggestion {s} of lint at {:?} panicked: {m}", l.span), inp.clone()),
            }
            // feed real (text, span, suggestion) triples to the correspondence as well (bounded size)
            if src.len() <= 160 && rep.n_cases < 200_000 {
                check_triple(rep, kind, &cs, a, b, &src, "document-lint");
            }
        }
    }
}

/// chunk (hull span, chars) of `doc` that contains char position `pos`
fn chunk_at(doc: &harper_core::Document, pos: usize) -> Option<(harper_core::Span, Vec<char>)> {
    use harper_core::TokenStringExt;
    for ch in doc.iter_chunks() {
        if let Some(sp) = ch.span() {
            if sp.start <= pos && pos < sp.end {
                return Some((sp, doc.get_span_content(&sp).to_vec()));
            }
        }
    }
    None
}

/// Cache re-basing (LintGroup::lint): the same clause seen at chunk start `a` and later, by the SAME
/// linter, at chunk start `a2`.  Correspondence line `B a a2 spans-of-first-sighting` against the
/// spans the linter reports for the second sighting; the ordinary in-bounds/splice oracle runs on both.
fn recurrence(rep: &mut Report, r: &mut Rng, dict: &std::sync::Arc<FstDictionary>, trig: &str, same_doc: bool) {
    let clause = format!(" and we saw {trig} again");
    let p1 = gen::clean_sentence(r).trim_end_matches('.').to_string();
    let mut p2 = format!("{} {}", gen::clean_sentence(r).trim_end_matches('.'), gen::clean_sentence(r).trim_end_matches('.').to_lowercase());
    if p2.chars().count() == p1.chars().count() {
        p2.push_str(" indeed");
    }
    let t1 = gen::clean_sentence(r).to_lowercase();
    let t2 = gen::clean_sentence(r).to_lowercase();
    let d1 = format!("{p1},{clause}, {t1}");
    let d2 = format!("{p2},{clause}, {t2}");
    let (text1, text2, off2) = if same_doc {
        let sep = *r.pick(&["\n\n", " ", "\n"]);
        let whole = format!("{d1}{sep}{d2}");
        let off = d1.chars().count() + sep.chars().count();
        (whole.clone(), whole, off)
    } else {
        (d1.clone(), d2.clone(), 0)
    };
    let pos1 = p1.chars().count() + 3;
    let pos2 = off2 + p2.chars().count() + 3;
    recurrence_run(rep, dict, trig, &text1, &text2, pos1, pos2, same_doc);
}

fn recurrence_run(rep: &mut Report, dict: &std::sync::Arc<FstDictionary>, trig: &str, text1: &str, text2: &str, pos1: usize, pos2: usize, same_doc: bool) {
    let (text1, text2) = (text1.to_string(), text2.to_string());
    let inp = json!({"kind": "recurrence", "trigger": trig, "same_doc": same_doc, "text1": text1, "text2": text2, "pos1": pos1, "pos2": pos2});
    let mut g = LintGroup::new_curated(dict.clone(), Dialect::American);
    g.set_all_rules_to(Some(true));
    let res = guarded(|| {
        let doc1 = frontends::make_document("plain", &text1, dict);
        let c1 = chunk_at(&doc1, pos1);
        let l1 = g.lint(&doc1);
        if same_doc {
            let c2 = chunk_at(&doc1, pos2);
            (c1, c2, l1.clone(), l1)
        } else {
            let doc2 = frontends::make_document("plain", &text2, dict);
            let c2 = chunk_at(&doc2, pos2);
            let l2 = g.lint(&doc2);
            (c1, c2, l1, l2)
        }
    });
    let Ok((Some((sp1, ch1)), Some((sp2, ch2)), l1, l2)) = res else {
        rep.count("recurrence:skipped(panic or no chunk)");
        return;
    };
    if ch1 != ch2 || sp1.start == sp2.start {
        rep.count("recurrence:skipped(chunks differ)");
        return;
    }
    rep.eval();
    let within = |ls: &[harper_core::linting::Lint], sp: harper_core::Span| -> Vec<(usize, usize)> {
        let mut v: Vec<(usize, usize)> = ls.iter().filter(|l| l.span.start >= sp.start && l.span.start < sp.end).map(|l| (l.span.start, l.span.end)).collect();
        v.sort();
        v
    };
    let s1 = within(&l1, sp1);
    let s2 = within(&l2, sp2);
    if !s1.is_empty() {
        rep.nontrivial(&(text1.clone(), text2.clone()));
        rep.count(if same_doc { "recurrence:same_document" } else { "recurrence:next_document" });
    } else {
        rep.count("recurrence:no_lint_in_clause");
    }
    let flat = |v: &[(usize, usize)]| v.iter().map(|(a, b)| format!("{a} {b}")).collect::<Vec<_>>().join(" ");
    rep.case(format!("B {} {} {}", sp1.start, sp2.start, flat(&s1)).trim(), flat(&s2).trim());
    // the second sighting must also satisfy the property itself
    let n2 = text2.chars().count();
    for l in &l2 {
        if !(l.span.start <= l.span.end && l.span.end <= n2) {
            rep.fail("lint_out_of_bounds", format!("lint {:?} {:?} of a clause served from the chunk cache lies outside the text of length {n2}", l.lint_kind, l.span),
                inp.clone());
        }
    }
    // ... and flag the same characters as the first sighting did (a re-based span that stays inside the
    // text but points at other characters is still a lint that does not point at its problem)
    let c1: Vec<char> = text1.chars().collect();
    let c2: Vec<char> = text2.chars().collect();
    if s1.len() == s2.len() {
        for ((a1, b1), (a2, b2)) in s1.iter().zip(&s2) {
            if *b1 <= c1.len() && *b2 <= c2.len() && a1 <= b1 && a2 <= b2 && c1[*a1..*b1] != c2[*a2..*b2] {
                rep.fail("cache_rebase_moves_lint", format!("the clause's lint flags {:?} at its first sighting but {:?} when served from the chunk cache",
                    c1[*a1..*b1].iter().collect::<String>(), c2[*a2..*b2].iter().collect::<String>()), inp.clone());
                break;
            }
        }
    }
}

pub fn replay_input(rep: &mut Report, v: &Value, group: &mut LintGroup, dict: &std::sync::Arc<FstDictionary>) {
    match v["kind"].as_str() {
        Some("recurrence") => recurrence_run(rep, dict, v["trigger"].as_str().unwrap_or(""), v["text1"].as_str().unwrap_or(""), v["text2"].as_str().unwrap_or(""),
            v["pos1"].as_u64().unwrap_or(0) as usize, v["pos2"].as_u64().unwrap_or(0) as usize, v["same_doc"].as_bool().unwrap_or(false)),
        Some("document") => {
            if v["config"].as_str() == Some("all") {
                group.set_all_rules_to(Some(true));
            }
            check_document(rep, v["frontend"].as_str().unwrap_or("plain"), v["text"].as_str().unwrap_or(""), group, dict, v["config"].as_str().unwrap_or("default"))
        }
        _ => {
            let cs: Vec<char> = v["cs"].as_str().unwrap_or("").chars().collect();
            let src: Vec<char> = v["src"].as_str().unwrap_or("").chars().collect();
            check_triple(rep, v["sug"].as_u64().unwrap_or(0) as usize, &cs, v["a"].as_u64().unwrap_or(0) as usize, v["b"].as_u64().unwrap_or(0) as usize, &src, "replay");
        }
    }
}

pub fn run(a: &Args, corpus: &[Value]) {
    let mut rep = Report::new(&a.out);
    rep.rule = "(text, span, suggestion) triples: random (|text|<=12, alphabet incl. astral chars; spans inside the text incl. both ends, empty spans, equal-length replace) + a malformed stream of spans outside the text (panic agreement only); documents in every front-end (plain, Markdown x2, HTML, Typst, LHS, git-commit, 22 comment languages, +CollapseIdentifiers/+IsolateEnglish) under default / all-rules / random configurations: every lint in bounds, every suggestion = splice; thorough adds all triples with |text|<=6 over {a,b}. non-trivial = distinct in-bounds triple, or distinct document with >=1 lint".into();
    let dict = FstDictionary::curated();
    let mut group = LintGroup::new_curated(dict.clone(), Dialect::American);
    for c in corpus {
        replay_input(&mut rep, c, &mut group, &dict);
    }
    if a.replay.is_some() {
        rep.finish();
        return;
    }
    let mut r = Rng::new(a.seed);
    let alphabet: Vec<char> = "ab cé\n😀𝒜.".chars().collect();
    let rand_text = |r: &mut Rng, max: usize| -> Vec<char> { (0..r.below(max + 1)).map(|_| *r.pick(&alphabet)).collect() };
    for _ in 0..a.scale(6000, 100_000) {
        let src = rand_text(&mut r, 12);
        let x = r.below(src.len() + 1);
        let y = r.below(src.len() + 1);
        let (x, y) = (x.min(y), x.max(y));
        let kind = r.below(3);
        let cs = if kind == 0 && r.chance(1, 3) { (0..(y - x)).map(|_| *r.pick(&alphabet)).collect() } else { rand_text(&mut r, 4) };
        check_triple(&mut rep, kind, &cs, x, y, &src, "random");
    }
    // malformed stream: spans reaching outside the text, start > end
    for _ in 0..a.scale(1500, 20_000) {
        let src = rand_text(&mut r, 6);
        let x = r.below(src.len() + 4);
        let y = r.below(src.len() + 4);
        let kind = r.below(3);
        let cs = rand_text(&mut r, 3);
        check_triple(&mut rep, kind, &cs, x, y, &src, "malformed");
    }
    if a.thorough() {
        // exhaustive: all texts of length <= 6 over {a,b}, all spans, 3 kinds x replacement in {"", "x", same-length "xx.."}
        let mut n = 0u64;
        for len in 0..=6usize {
            for bits in 0..(1u32 << len) {
                let src: Vec<char> = (0..len).map(|i| if bits >> i & 1 == 1 { 'b' } else { 'a' }).collect();
                for x in 0..=len {
                    for y in x..=len {
                        for kind in 0..3 {
                            let reps: Vec<Vec<char>> = if kind == 2 { vec![vec![]] } else { vec![vec![], vec!['x'], vec!['x'; y - x], vec!['x'; y - x + 1]] };
                            for cs in reps {
                                check_triple(&mut rep, kind, &cs, x, y, &src, "exhaustive");
                                n += 1;
                            }
                        }
                    }
                }
            }
        }
        rep.extra.insert("exhaustive_triples_len_le6_over_ab".into(), json!(n));
    }
    // every special construct at the very start, alone, and at the very end of a text (no terminator):
    // spans computed with an offset only leave the text there
    group.set_all_rules_to(Some(true));
    let constructs: Vec<&str> = gen::TRIGGERS.iter().chain(gen::NUMBERS).chain(gen::ABBREV).chain(gen::MISSPELT).chain(gen::CONTRACTIONS).copied().collect();
    for (i, c) in constructs.iter().enumerate() {
        if !a.thorough() && i % 2 == (a.seed % 2) as usize && i >= gen::TRIGGERS.len() {
            continue;
        }
        let clean = gen::clean_sentence(&mut r);
        let clean_open = clean.trim_end_matches('.').to_string();
        for text in [c.to_string(), format!("{clean_open} {c}"), format!("{c} {}", clean.to_lowercase()), format!("{clean} {}", gen::capitalize(c)), format!("é𝒜 {c}")] {
            check_document(&mut rep, "plain", &text, &mut group, &dict, "all");
        }
        let fe = ["markdown", "c:rust", "c:python", "html", "typst", "lhaskell", "gitcommit", "c:java", "c:go"][i % 9];
        let text = match fe {
            "c:rust" | "c:java" | "c:go" => format!("// {clean_open} {c}"),
            "c:python" => format!("# {clean_open} {c}"),
            "html" => format!("<p>{clean_open} {c}</p>"),
            _ => format!("{clean_open} {c}"),
        };
        check_document(&mut rep, fe, &text, &mut group, &dict, "all");
    }
    // the chunk cache: clauses that recur at another offset, in the same and in the next document
    for (i, c) in gen::TRIGGERS.iter().enumerate() {
        for rep_i in 0..a.scale(2, 12) {
            recurrence(&mut rep, &mut r, &dict, c, (i + rep_i) % 2 == 0);
        }
    }
    // documents in every front-end
    let mut fes = frontends::base_frontends();
    let extra: Vec<String> = fes.iter().filter(|f| f.starts_with("c:") || *f == "lhaskell").map(|f| format!("{f}+ci")).collect();
    fes.extend(extra);
    fes.push("markdown+ie".into());
    fes.push("plain+ie".into());
    let per_fe = a.scale(14, 160);
    let all_keys: Vec<String> = group.iter_keys().map(|s| s.to_string()).collect();
    for fe in &fes {
        for i in 0..per_fe {
            let cfg_name = match i % 3 {
                0 => {
                    group.config = harper_core::linting::LintGroupConfig::new_curated();
                    "default"
                }
                1 => {
                    group.set_all_rules_to(Some(true));
                    "all"
                }
                _ => {
                    for k in &all_keys {
                        match r.below(3) {
                            0 => group.config.set_rule_enabled(k, true),
                            1 => group.config.set_rule_enabled(k, false),
                            _ => group.config.unset_rule_enabled(k),
                        }
                    }
                    "random"
                }
            };
            let text = frontends::embed(fe, &mut r);
            if text.chars().count() > 1500 {
                continue;
            }
            check_document(&mut rep, fe, &text, &mut group, &dict, cfg_name);
        }
    }
    rep.finish();
}

fn main() {
    let (args, corpus) = hv::cli();
    run(&args, &corpus);
}
