//! C02 — tokens are in bounds, ordered, disjoint, and mean what their text says.
//! Correspondence (model = coq/Model/{Lexer,Condense}.v, extracted):
//!   L  PlainEnglish.parse (raw tokens)                       vs plain_parse
//!   D  Document::new_plain_english(..).get_tokens()          vs document_plain
//!   T  Document::new_from_vec with a parser that returns a GIVEN token vector (also ill-formed ones:
//!      adjacent Space/Newline runs, zero-width, overlapping, out of bounds, start > end)  vs document_passes
//!   I  IsolateEnglish::parse over a parser returning a GIVEN token vector      vs C02Wrappers.isolate_english
//!   C  CollapseIdentifiers::parse over a parser returning a GIVEN token vector vs C02Wrappers.collapse_identifiers
//!   J  Document::new(text, IsolateEnglish(PlainEnglish))                       vs document_plain_ie
//!   K  Document::new(text, CollapseIdentifiers(PlainEnglish))                  vs document_plain_ci
//!      (the dictionary of the model = the contains_word queries the real dictionary answered `true` to,
//!       recorded by a delegating wrapper `RecDict`)
//!   M  Markdown::parse(text) with the pulldown-cmark event stream recorded by the harness (arm, payload length,
//!      byte range of every event)  vs C02Markdown.markdown_parse on that stream; the line also carries K1/K0 =
//!      the contract of C02_markdown_glue evaluated by the harness vs the extracted md_contractb
//!   N  Document::new(text, Markdown)                                              vs document_markdown
//!   U  the Unicode predicates the model is instantiated with are dumped from Rust's char methods
//!      (is_english_lingual is private: it is observed through PlainEnglish.parse on one-character texts)
//! Oracle (failing-input search): tiling of the plain pipeline, the four invariants on every front-end,
//! the lexical shape of every kind.  Monitors: the Unicode laws the proofs assume.
use harper_core::parsers::{CollapseIdentifiers, IsolateEnglish, Parser, PlainEnglish};
use harper_core::spell::FuzzyMatchResult;
use harper_core::{Dictionary, MergedDictionary, MutableDictionary, WordId, WordMetadata};
use harper_core::{Document, FstDictionary, Lrc, Number, NumberSuffix, Punctuation, Quote, Span, Token, TokenKind};
use hv::common::*;
use hv::frontends;
use hv::gen;
use serde_json::{json, Value};
use std::sync::Arc;

// ---------------------------------------------------------------- printing
fn kind_str(k: &TokenKind) -> String {
    match k {
        TokenKind::Word(_) => "W".into(),
        TokenKind::Punctuation(p) => match p {
            Punctuation::Quote(q) => format!("P:Quote:{}", q.twin_loc.map(|x| x.to_string()).unwrap_or_else(|| "-".into())),
            Punctuation::Currency(c) => format!("P:Currency:{:?}", c),
            other => format!("P:{:?}", other),
        },
        TokenKind::Decade => "D".into(),
        TokenKind::Number(n) => format!(
            "N:{:x}:{}:{}:{}",
            n.value.0.to_bits(),
            n.radix,
            n.precision,
            n.suffix.map(|s| format!("{:?}", s)).unwrap_or_else(|| "-".into())
        ),
        TokenKind::Space(n) => format!("S:{n}"),
        TokenKind::Newline(n) => format!("NL:{n}"),
        TokenKind::EmailAddress => "E".into(),
        TokenKind::Url => "U".into(),
        TokenKind::Hostname => "H".into(),
        TokenKind::Unlintable => "X".into(),
        TokenKind::ParagraphBreak => "PB".into(),
        TokenKind::Regexish => "R".into(),
    }
}
/// md_doc_class of Model/C02Inert.v, computed natively from the implementation's Markdown tokens (compared with the
/// extracted model on every M line): 0 = every zero-width token is a ParagraphBreak; 1 = not 0, every zero-width Newline
/// counts >= 2 lines and after condense_spaces (its loop, mirrored: only the removed indices matter) no zero-width Newline
/// is a neighbour of another Newline in the vector; 2 = the remaining class.
fn md_doc_class(ts: &[Token]) -> u8 {
    let zw = |t: &Token| t.span.start == t.span.end;
    if ts.iter().all(|t| !zw(t) || matches!(t.kind, TokenKind::ParagraphBreak)) {
        return 0;
    }
    if ts.iter().any(|t| zw(t) && matches!(t.kind, TokenKind::Newline(n) if n < 2)) {
        return 2;
    }
    // condense_spaces: which indices are removed (double increment after a merge included)
    let mut removed = vec![false; ts.len()];
    let mut cursor = 0usize;
    while cursor < ts.len() {
        if matches!(ts[cursor].kind, TokenKind::Space(_)) {
            let mut end = ts[cursor].span.end;
            loop {
                cursor += 1;
                if cursor >= ts.len() {
                    break;
                }
                let child = &ts[cursor];
                if end != child.span.start {
                    break;
                }
                if matches!(child.kind, TokenKind::Space(_)) {
                    end = child.span.end;
                    removed[cursor] = true;
                    cursor += 1;
                } else {
                    break;
                }
            }
        }
        cursor += 1;
    }
    let kept: Vec<&Token> = ts.iter().zip(&removed).filter(|(_, r)| !**r).map(|(t, _)| t).collect();
    let nl = |t: &Token| matches!(t.kind, TokenKind::Newline(_));
    if kept.windows(2).any(|w| nl(w[0]) && nl(w[1]) && (zw(w[0]) || zw(w[1]))) {
        2
    } else {
        1
    }
}

fn toks_line(ts: &[Token]) -> String {
    let s = ts.iter().map(|t| format!("{},{},{}", t.span.start, t.span.end, kind_str(&t.kind))).collect::<Vec<_>>().join(" ");
    format!("O {s}").trim().to_string()
}

// ---------------------------------------------------------------- Unicode tables + laws
fn ranges(pred: impl Fn(char) -> bool) -> Vec<(u32, u32)> {
    let mut out: Vec<(u32, u32)> = vec![];
    let mut cur: Option<(u32, u32)> = None;
    for cp in 0..=0x10FFFFu32 {
        let v = char::from_u32(cp).map(|c| pred(c)).unwrap_or(false);
        match (v, cur) {
            (true, Some((a, _))) => cur = Some((a, cp)),
            (true, None) => cur = Some((cp, cp)),
            (false, Some(r)) => {
                out.push(r);
                cur = None
            }
            (false, None) => {}
        }
    }
    if let Some(r) = cur {
        out.push(r);
    }
    out
}

/// CharExt::is_english_lingual is private; on the one-character text [c] the lexer answers Word exactly
/// when lex_word accepts c, i.e. when c is lingual (ASCII digits are taken by lex_number before).
fn observed_lingual(c: char) -> bool {
    if !c.is_alphabetic() && !c.is_alphanumeric() {
        // every lingual character is alphabetic (char_ext.rs); the full scan below re-checks a sample
        return false;
    }
    let t = PlainEnglish.parse(&[c]);
    t.len() == 1 && matches!(t[0].kind, TokenKind::Word(_))
}

fn dump_unicode(rep: &mut Report, thorough: bool) {
    let tabs: Vec<(&str, Vec<(u32, u32)>)> = vec![
        ("ws", ranges(|c| c.is_whitespace())),
        ("num", ranges(|c| c.is_numeric())),
        ("alpha", ranges(|c| c.is_alphabetic())),
        ("ling", ranges(observed_lingual)),
    ];
    for (name, rs) in &tabs {
        let line = format!("U {name} {}", rs.iter().map(|(a, b)| format!("{a}-{b}")).collect::<Vec<_>>().join(" "));
        rep.case(line.trim(), &format!("U {name} {}", rs.len()));
    }
    // ---- the laws the proofs assume (Section hypotheses of Proofs/LexerProofs.v), over every scalar value
    let mut bad: Vec<(String, u32)> = vec![];
    let mut checked = 0u64;
    for cp in 0..=0x10FFFFu32 {
        let Some(c) = char::from_u32(cp) else { continue };
        checked += 1;
        let ling = observed_lingual(c);
        if ling && c.is_whitespace() {
            bad.push(("lingual_not_whitespace".into(), cp));
        }
        if ling && c.is_numeric() {
            bad.push(("lingual_not_numeric".into(), cp));
        }
        if ling && !c.is_alphabetic() {
            bad.push(("lingual_is_alphabetic".into(), cp));
        }
        if ling && (Punctuation::from_char(c).is_some() || matches!(c, '"' | '“' | '”')) {
            bad.push(("lingual_not_punctuation".into(), cp));
        }
        if cp < 128 {
            let ascii_ws = matches!(cp, 9..=13 | 32);
            if c.is_whitespace() != ascii_ws {
                bad.push(("ascii_whitespace".into(), cp));
            }
            if c.is_numeric() != c.is_ascii_digit() {
                bad.push(("ascii_numeric".into(), cp));
            }
            if c.is_alphabetic() != c.is_ascii_alphabetic() {
                bad.push(("ascii_alphabetic".into(), cp));
            }
            if ling != c.is_ascii_alphabetic() {
                bad.push(("ascii_lingual".into(), cp));
            }
            if c.is_alphanumeric() != c.is_ascii_alphanumeric() {
                bad.push(("ascii_alphanumeric".into(), cp));
            }
        }
        if (cp == 0x2019) && c.is_whitespace() {
            bad.push(("apostrophe_not_whitespace".into(), cp));
        }
        // the shortcut taken by observed_lingual = the law `lingual => alphabetic` of C02_words_maximal
        // (quick: a sample beyond U+3000; thorough: every scalar value)
        if (thorough || cp % 3 == 0 || cp < 0x3000) && !c.is_alphabetic() && !c.is_alphanumeric() {
            let t = PlainEnglish.parse(&[c]);
            if t.len() == 1 && matches!(t[0].kind, TokenKind::Word(_)) {
                bad.push(("lingual_implies_alphabetic".into(), cp));
            }
        }
    }
    rep.monitor("unicode_scalars_checked_against_laws", checked);
    rep.monitor("unicode_law_violations", bad.len() as u64);
    for (law, cp) in bad.iter().take(5) {
        rep.fail("unicode_law", format!("Unicode law `{law}` assumed by the proofs fails for U+{cp:04X}"), json!({"kind": "law", "law": law, "cp": cp}));
    }
}

// ---------------------------------------------------------------- failure bookkeeping
thread_local! {
    static FAIL_SEEN: std::cell::RefCell<std::collections::HashMap<String, u32>> = std::cell::RefCell::new(Default::default());
}
/// `rep.fail`, but at most 40 recorded failures per (class, front-end, known-class marker): the list of
/// failures is capped, and hundreds of occurrences of one known finding must not crowd out a new one.
/// Every occurrence is still counted in the distribution.
fn fail(rep: &mut Report, class: &str, what: String, input: Value) {
    let fe = input.get("fe").and_then(|x| x.as_str()).unwrap_or("plain").to_string();
    let key = format!("{class}|{fe}|{}|{}", what.contains("[et <whitespace> al.]"), what.contains("[condensed across a gap]"));
    let n = FAIL_SEEN.with(|m| {
        let mut m = m.borrow_mut();
        let e = m.entry(key).or_insert(0);
        *e += 1;
        *e
    });
    if n <= 40 {
        rep.fail(class, what, input);
    } else {
        rep.count(&format!("fail:{class}"));
        rep.count(&format!("fail_not_listed(over 40 of one kind):{class}"));
    }
}

// ---------------------------------------------------------------- oracles
const F7_CLASS_NOTE: &str = "word token containing whitespace";

fn is_quote_char(c: char) -> bool {
    matches!(c, '"' | '“' | '”')
}

/// lexical shape of one token; `plain` = plain-English pipeline (stricter: Space only blanks etc.)
fn shape_failures(i: usize, toks: &[Token], src: &[char], plain: bool) -> Vec<(&'static str, String)> {
    let t = &toks[i];
    let mut out = vec![];
    if t.span.start > t.span.end || t.span.end > src.len() {
        return out; // reported by the bounds oracle
    }
    let text = &src[t.span.start..t.span.end];
    let s: String = text.iter().collect();
    match &t.kind {
        TokenKind::Word(_) => {
            if text.iter().any(|c| c.is_whitespace()) {
                // the class of finding F7: the token is `et`, whitespace, `al.` (condense_latin's second alternative)
                let low: String = s.to_lowercase();
                let f7 = low.starts_with("et") && low.ends_with("al.") && low.chars().count() >= 6 && low[2..low.len() - 3].chars().all(|c| c.is_whitespace());
                out.push(("shape_word_whitespace", format!("{F7_CLASS_NOTE}{}: {:?} at {:?}", if f7 { " [et <whitespace> al.]" } else { "" }, s, t.span)));
            }
            if text.is_empty() {
                out.push(("shape_word_empty", format!("empty word token at {:?}", t.span)));
            }
            // no lexer rule and no condensing rule puts a quote character or a backslash under a Word (lex_word stops at
            // punctuation; contractions join with an apostrophe): a Word over `"h` means the spans are laid over another text
            if text.iter().any(|c| is_quote_char(*c) || *c == '\\') {
                out.push(("shape_word_quote", format!("word token over a quote / backslash character: {:?} at {:?}", s, t.span)));
            }
        }
        TokenKind::Space(_) => {
            // plain English: only ' ' and '\t' (proved); other front-ends take over the whitespace runs of
            // their own grammar (typst-syntax, tree-sitter), which may hold any Unicode whitespace
            let bad = if plain { text.iter().any(|c| *c != ' ' && *c != '\t') } else { text.iter().any(|c| !c.is_whitespace()) };
            if bad {
                out.push(("shape_space", format!("space token over non-blank text {:?} at {:?}", s, t.span)));
            }
        }
        TokenKind::Newline(n) if plain => {
            if text.iter().any(|c| *c != '\n') || *n != text.len() {
                out.push(("shape_newline", format!("Newline({n}) over {:?} at {:?}", s, t.span)));
            }
        }
        TokenKind::ParagraphBreak if plain => {
            if text.iter().any(|c| *c != '\n') || text.len() < 2 {
                out.push(("shape_paragraph_break", format!("ParagraphBreak over {:?} at {:?}", s, t.span)));
            }
        }
        TokenKind::Number(n) => {
            if let Some(m) = number_shape(n, text) {
                out.push(("shape_number", format!("{m}: token text {:?}, value {:?}", s, n)));
            }
        }
        TokenKind::Punctuation(p) => {
            let ok = match p {
                Punctuation::Quote(_) => text.len() == 1 && is_quote_char(text[0]),
                Punctuation::Ellipsis => (text.len() == 1 && text[0] == '…') || (text.len() >= 2 && text.iter().all(|c| *c == '.')),
                other => text.len() == 1 && Punctuation::from_char(text[0]) == Some(*other),
            };
            if !ok {
                out.push(("shape_punctuation", format!("{:?} over {:?} at {:?}", p, s, t.span)));
            }
            if let Punctuation::Quote(Quote { twin_loc: Some(j) }) = p {
                let twin_ok = *j != i
                    && *j < toks.len()
                    && matches!(&toks[*j].kind, TokenKind::Punctuation(Punctuation::Quote(Quote { twin_loc: Some(k) })) if *k == i);
                if !twin_ok {
                    out.push(("shape_quote_twin", format!("quote token {i} points at {j}, which is not a quote pointing back")));
                }
            }
        }
        _ => {}
    }
    out
}

/// text = literal ++ suffix letters; the literal denotes the value
fn number_shape(n: &Number, text: &[char]) -> Option<String> {
    let (lit, suf): (&[char], &[char]) = if n.suffix.is_some() {
        if text.len() < 2 {
            return Some("number with a suffix shorter than the suffix".into());
        }
        text.split_at(text.len() - 2)
    } else {
        (text, &[][..])
    };
    if let Some(sf) = n.suffix {
        if NumberSuffix::from_chars(suf) != Some(sf) {
            return Some(format!("the last two characters are not the suffix {:?}", sf));
        }
    }
    let lit_s: String = lit.iter().collect();
    if !n.value.0.is_finite() {
        // C02_document_numbers_finite: no literal of digits denotes an infinity or a NaN
        return Some("the value is not finite, no literal denotes it".into());
    }
    if n.radix == 16 {
        let ok = lit.len() >= 3 && lit[0] == '0' && lit[1] == 'x' && u64::from_str_radix(&lit_s[2..], 16).map(|v| v as f64 == n.value.0).unwrap_or(false);
        if !ok {
            return Some("text is not 0x<hex digits> denoting the value".into());
        }
    } else {
        if !lit.iter().all(|c| c.is_ascii_digit() || matches!(c, '.' | 'e' | 'E' | '+' | '-')) || !lit.first().map(|c| c.is_ascii_digit()).unwrap_or(false) {
            return Some("text is not a decimal literal".into());
        }
        match lit_s.parse::<f64>() {
            Ok(v) if v.to_bits() == n.value.0.to_bits() => {}
            _ => return Some("the literal does not denote the value".into()),
        }
        let prec = lit.iter().rev().position(|c| *c == '.').unwrap_or(0);
        if prec != n.precision {
            return Some(format!("precision {} but the literal has {} characters after the point", n.precision, prec));
        }
    }
    None
}

/// exact tiling of [0, len): consecutive, non-empty
fn tiling_failure(toks: &[Token], len: usize) -> Option<String> {
    let mut pos = 0usize;
    for (i, t) in toks.iter().enumerate() {
        if t.span.start != pos {
            return Some(if t.span.start > pos {
                format!("characters {pos}..{} are covered by no token (token {i} starts at {})", t.span.start, t.span.start)
            } else {
                format!("token {i} {:?} starts before the end ({pos}) of the previous token: characters duplicated", t.span)
            });
        }
        if t.span.end <= t.span.start {
            return Some(format!("token {i} {:?} is empty", t.span));
        }
        pos = t.span.end;
    }
    if pos != len {
        return Some(format!("tokens end at {pos}, text has {len} characters"));
    }
    None
}

/// the front-end independent invariants
fn general_failures(toks: &[Token], len: usize) -> Vec<(&'static str, String)> {
    let mut out = vec![];
    let mut last_end = 0usize;
    for (i, t) in toks.iter().enumerate() {
        if t.span.start > t.span.end {
            out.push(("span_inverted", format!("token {i} {:?} has start > end", t.span)));
            continue;
        }
        if t.span.start == t.span.end {
            if !matches!(t.kind, TokenKind::Newline(_) | TokenKind::ParagraphBreak) {
                out.push(("zero_width_kind", format!("zero-width token {i} at {} of kind {}", t.span.start, kind_str(&t.kind))));
            }
            continue;
        }
        if t.span.end > len {
            out.push(("out_of_bounds", format!("token {i} {:?} ({}) reaches beyond the text of {len} characters", t.span, kind_str(&t.kind))));
        }
        if t.span.start < last_end {
            out.push(("out_of_order", format!("token {i} {:?} ({}) starts before the end {last_end} of an earlier token", t.span, kind_str(&t.kind))));
        }
        last_end = last_end.max(t.span.end);
    }
    out
}

// ---------------------------------------------------------------- cases
fn case_plain(rep: &mut Report, text: &str, dict: &Arc<FstDictionary>, origin: &str) {
    case_plain_pinned(rep, text, dict, origin, None, None)
}

/// `pin_raw` / `pin_doc`: the tokens (in the correspondence syntax) the witness of a REPAIRED finding must
/// have; the pins were taken from the extracted model, which the correspondence run re-confirms every time.
fn case_plain_pinned(rep: &mut Report, text: &str, dict: &Arc<FstDictionary>, origin: &str, pin_raw: Option<&str>, pin_doc: Option<&str>) {
    rep.eval();
    let src: Vec<char> = text.chars().collect();
    let mut inp = json!({"kind": "plain", "text": text, "origin": origin});
    if let Some(p) = pin_raw {
        inp["pin_raw"] = json!(p);
    }
    if let Some(p) = pin_doc {
        inp["pin_doc"] = json!(p);
    }
    // L: raw tokens
    let raw = guarded(|| PlainEnglish.parse(&src));
    match &raw {
        Ok(ts) => rep.case(&format!("L {}", cps(&src)).trim(), &toks_line(ts)),
        Err(_) => rep.case(&format!("L {}", cps(&src)).trim(), "P"),
    }
    if let (Some(p), Ok(ts)) = (pin_raw, &raw) {
        rep.count("pinned_witness:raw");
        if toks_line(ts) != p {
            fail(rep, "regression_pin", format!("PlainEnglish.parse on the witness of a repaired finding: tokens `{}`, pinned (model-confirmed) `{p}`", toks_line(ts)), inp.clone());
        }
    }
    match &raw {
        Ok(ts) => {
            if let Some(m) = tiling_failure(ts, src.len()) {
                fail(rep, "plain_tiling", format!("PlainEnglish.parse does not tile the text: {m}"), inp.clone());
            }
            // C02_words_maximal: a raw Word token is a whole word
            for w in ts.windows(2) {
                if matches!(w[0].kind, TokenKind::Word(_)) && matches!(w[1].kind, TokenKind::Word(_)) && w[0].span.end == w[1].span.start {
                    let a: String = w[0].span.get_content(&src).iter().collect();
                    let b: String = w[1].span.get_content(&src).iter().collect();
                    fail(rep, "word_split", format!("raw tokens: two adjacent Word tokens {:?} {:?} at {:?}: a word was cut in two", a, b, w[0].span), inp.clone());
                }
            }
            for i in 0..ts.len() {
                for (c, m) in shape_failures(i, ts, &src, true) {
                    fail(rep, c, format!("raw token: {m}"), inp.clone());
                }
            }
        }
        Err(m) => fail(rep, "plain_parse_panic", format!("PlainEnglish.parse panicked: {m}"), inp.clone()),
    }
    // D: the document
    let doc = guarded(|| Document::new_plain_english(text, dict.as_ref()).get_tokens().to_vec());
    match &doc {
        Ok(ts) => rep.case(&format!("D {}", cps(&src)).trim(), &toks_line(ts)),
        Err(_) => rep.case(&format!("D {}", cps(&src)).trim(), "P"),
    }
    if let (Some(p), Ok(ts)) = (pin_doc, &doc) {
        rep.count("pinned_witness:doc");
        if toks_line(ts) != p {
            fail(rep, "regression_pin", format!("Document::new_plain_english on the witness of a repaired finding: tokens `{}`, pinned (model-confirmed) `{p}`", toks_line(ts)), inp.clone());
        }
    }
    match &doc {
        Ok(ts) => {
            if let Some(m) = tiling_failure(ts, src.len()) {
                fail(rep, "doc_tiling", format!("the tokens of the plain-English document do not tile the text: {m}"), inp.clone());
            }
            for i in 0..ts.len() {
                for (c, m) in shape_failures(i, ts, &src, true) {
                    fail(rep, c, m, inp.clone());
                }
            }
            let mut kinds: std::collections::BTreeSet<&'static str> = Default::default();
            for t in ts {
                let k = match &t.kind {
                    TokenKind::Word(_) => "Word",
                    TokenKind::Punctuation(Punctuation::Quote(_)) => "Quote",
                    TokenKind::Punctuation(Punctuation::Ellipsis) => "Ellipsis",
                    TokenKind::Punctuation(_) => "Punctuation",
                    TokenKind::Decade => "Decade",
                    TokenKind::Number(n) => {
                        if n.suffix.is_some() {
                            "Number+suffix"
                        } else if n.radix == 16 {
                            "Number(hex)"
                        } else {
                            "Number"
                        }
                    }
                    TokenKind::Space(_) => "Space",
                    TokenKind::Newline(_) => "Newline",
                    TokenKind::EmailAddress => "EmailAddress",
                    TokenKind::Url => "Url",
                    TokenKind::Hostname => "Hostname",
                    TokenKind::Unlintable => "Unlintable",
                    TokenKind::ParagraphBreak => "ParagraphBreak",
                    TokenKind::Regexish => "Regexish",
                };
                kinds.insert(k);
            }
            for k in kinds {
                rep.count(&format!("doc_has:{k}"));
            }
            if let Ok(r) = &raw {
                if r.len() != ts.len() {
                    rep.count("doc:some_pass_condensed");
                    rep.nontrivial(&text.to_string());
                }
            }
            rep.count(&format!("plain_len:{}", bucket(src.len())));
            if text.chars().any(|c| c.len_utf8() > 1) {
                rep.count("plain:has_multibyte");
            }
        }
        Err(m) => fail(rep, "doc_parse_panic", format!("Document::new_plain_english panicked: {m}"), inp.clone()),
    }
    if rep.samples.len() < 4 && origin == "rich" {
        if let Ok(ts) = &doc {
            rep.sample(json!({"text": text, "tokens": toks_line(ts)}));
        }
    }
}

fn bucket(n: usize) -> &'static str {
    match n {
        0 => "0",
        1..=3 => "1-3",
        4..=15 => "4-15",
        16..=63 => "16-63",
        64..=255 => "64-255",
        _ => "256+",
    }
}

/// a parser that returns a given token vector
struct Fake(Vec<Token>);
impl Parser for Fake {
    fn parse(&self, _source: &[char]) -> Vec<Token> {
        self.0.clone()
    }
}

/// token in the T input syntax (punctuation by character, numbers as small integers)
#[derive(Clone, Debug)]
struct FTok {
    s: usize,
    e: usize,
    k: String,
}
fn ftok_to_token(f: &FTok) -> Option<Token> {
    let parts: Vec<&str> = f.k.split(':').collect();
    let kind = match parts.as_slice() {
        ["W"] => TokenKind::Word(None),
        ["P", cp] => {
            let c = char::from_u32(cp.parse().ok()?)?;
            if is_quote_char(c) {
                TokenKind::Punctuation(Punctuation::Quote(Quote { twin_loc: None }))
            } else {
                TokenKind::Punctuation(Punctuation::from_char(c)?)
            }
        }
        ["D"] => TokenKind::Decade,
        ["N", v] => TokenKind::Number(Number { value: (v.parse::<u32>().ok()? as f64).into(), suffix: None, radix: 10, precision: 0 }),
        ["S", n] => TokenKind::Space(n.parse().ok()?),
        ["NL", n] => TokenKind::Newline(n.parse().ok()?),
        ["E"] => TokenKind::EmailAddress,
        ["U"] => TokenKind::Url,
        ["H"] => TokenKind::Hostname,
        ["X"] => TokenKind::Unlintable,
        ["PB"] => TokenKind::ParagraphBreak,
        ["R"] => TokenKind::Regexish,
        _ => return None,
    };
    Some(Token { span: Span { start: f.s, end: f.e }, kind })
}

fn case_toks(rep: &mut Report, text: &str, ft: &[FTok], dict: &Arc<FstDictionary>, origin: &str) {
    let Some(toks): Option<Vec<Token>> = ft.iter().map(ftok_to_token).collect() else { return };
    rep.eval();
    let src: Vec<char> = text.chars().collect();
    let line = format!("T {} | {}", cps(&src), ft.iter().map(|f| format!("{},{},{}", f.s, f.e, f.k)).collect::<Vec<_>>().join(" "));
    let out = guarded(|| Document::new_from_vec(Lrc::new(src.clone()), &Fake(toks.clone()), dict.as_ref()).get_tokens().to_vec());
    match &out {
        Ok(ts) => rep.case(&line, &toks_line(ts)),
        Err(_) => rep.case(&line, "P"),
    }
    rep.count(&format!("fake_tokens:{origin}:{}", if out.is_ok() { "ok" } else { "panic" }));
    if let Ok(ts) = &out {
        if ts.len() != toks.len() {
            rep.nontrivial(&line);
        }
        // when the given vector tiles the text, so must the result (the preservation theorems, on the implementation)
        if tiling_failure(&toks, src.len()).is_none() {
            if let Some(m) = tiling_failure(ts, src.len()) {
                let inp = json!({"kind": "toks", "text": text, "toks": ft.iter().map(|f| json!([f.s, f.e, f.k])).collect::<Vec<_>>()});
                fail(rep, "passes_break_tiling", format!("Document::parse turned a tiling token vector into a non-tiling one: {m}"), inp);
            }
        }
    }
}

fn case_frontend(rep: &mut Report, fe: &str, text: &str, dict: &Arc<FstDictionary>) {
    rep.eval();
    let src: Vec<char> = text.chars().collect();
    let inp = json!({"kind": "fe", "fe": fe, "text": text});
    let r = guarded(|| frontends::make_document(fe, text, dict).get_tokens().to_vec());
    let ts = match r {
        Ok(ts) => ts,
        Err(_) => {
            rep.count("frontend_panicked(C01's business)");
            return;
        }
    };
    rep.count(&format!("frontend:{}", fe.split(':').next().unwrap()));
    for (c, m) in general_failures(&ts, src.len()) {
        fail(rep, c, format!("[{fe}] {m}"), inp.clone());
    }
    // the raw tokens of the front-end's parser, to recognise finding F28: Document::parse condensed tokens that
    // are neighbours in the vector but NOT in the text (the front-end left a gap between them)
    let raw: Vec<Token> = guarded(|| frontends::make_parser(fe, &src, dict).parse(&src)).unwrap_or_default();
    let across_gap = |sp: Span| -> bool {
        let inside: Vec<&Token> = raw.iter().filter(|r| r.span.start < r.span.end && sp.start <= r.span.start && r.span.end <= sp.end).collect();
        inside.windows(2).any(|w| w[0].span.end < w[1].span.start)
    };
    for i in 0..ts.len() {
        for (c, m) in shape_failures(i, &ts, &src, fe == "plain") {
            let marker = if across_gap(ts[i].span) { " [condensed across a gap]" } else { "" };
            if c == "shape_word_quote" && !marker.is_empty() {
                rep.count("word_over_quote_only_because_condensed_across_a_gap(F28)");
                continue;
            }
            fail(rep, c, format!("[{fe}] {m}{marker}"), inp.clone());
        }
    }
    if ts.iter().any(|t| t.span.start == t.span.end) {
        rep.count("frontend_doc_with_zero_width_token");
    }
    if !ts.is_empty() {
        rep.nontrivial(&(fe.to_string(), text.to_string()));
    }
}


// ---------------------------------------------------------------- Markdown glue (M, N)
/// what Markdown::parse reads of a pulldown-cmark event: the arm of its `match`, the payload's char count, the byte range
struct MdEv {
    code: u32,
    n: usize,
    rs: usize,
    re: usize,
}
const MD_EV_NAMES: [&str; 9] = ["start", "end_breaking", "end_other", "soft_break", "hard_break", "code_or_math", "text", "html", "other"];

fn md_events(text: &str) -> Option<Vec<MdEv>> {
    use pulldown_cmark::{Event, Tag, TagEnd};
    let evs = guarded(|| {
        let p = pulldown_cmark::Parser::new_ext(text, pulldown_cmark::Options::all().difference(pulldown_cmark::Options::ENABLE_SMART_PUNCTUATION));
        p.into_offset_iter().collect::<Vec<_>>()
    })
    .ok()?;
    let n = |s: &str| s.chars().count();
    let mut out = vec![];
    for (ev, range) in &evs {
        let (code, k) = match ev {
            Event::SoftBreak => (3, 0),
            Event::HardBreak => (4, 0),
            Event::Start(Tag::List(_)) => (0, 9),
            Event::Start(t) => (
                0,
                match t {
                    Tag::Paragraph => 0,
                    Tag::Link { .. } => 1,
                    Tag::Heading { .. } => 2,
                    Tag::Item => 3,
                    Tag::TableCell => 4,
                    Tag::Emphasis => 5,
                    Tag::Strong => 6,
                    Tag::Strikethrough => 7,
                    Tag::CodeBlock(_) => 8,
                    _ => 10,
                },
            ),
            Event::End(TagEnd::Paragraph) | Event::End(TagEnd::Item) | Event::End(TagEnd::Heading(_)) | Event::End(TagEnd::CodeBlock) | Event::End(TagEnd::TableCell) => (1, 0),
            Event::End(_) => (2, 0),
            Event::InlineMath(c) | Event::DisplayMath(c) | Event::Code(c) => (5, n(c)),
            Event::Text(t) => (6, n(t)),
            Event::Html(c) | Event::InlineHtml(c) => (7, n(c)),
            _ => (8, 0),
        };
        out.push(MdEv { code, n: k, rs: range.start, re: range.end });
    }
    Some(out)
}

/// The contract of C02_markdown_glue (Model/C02Markdown.v: md_contractb / ev_ok), evaluated on the real event stream,
/// independently of the model: the violated clauses.  Since 8b26ba4 / b736ef8 the code enforces the order of the events
/// itself; the contract is a property of every event on its own (range on char boundaries, payload fits its own range).
fn md_contract_violations(text: &str, evs: &[MdEv]) -> Vec<String> {
    let mut bad = vec![];
    for (i, e) in evs.iter().enumerate() {
        let name = MD_EV_NAMES[e.code as usize];
        if !text.is_char_boundary(e.rs) {
            bad.push(format!("K1 event {i} ({name}) starts at byte {}: out of the source or off a char boundary", e.rs));
            continue;
        }
        if !matches!(e.code, 3..=7) {
            continue;
        }
        if !(e.rs <= e.re && text.is_char_boundary(e.re)) {
            bad.push(format!("K1 leaf event {i} ({name}) has the range {}..{}: reversed, out of the source or off a char boundary", e.rs, e.re));
            continue;
        }
        let have = text[e.rs..e.re].chars().count();
        let need = match e.code {
            3 | 4 => Some(1usize),
            5 | 7 => Some(e.n),
            _ => None,
        };
        if let Some(n) = need {
            if n > have {
                bad.push(format!("K3 leaf event {i} ({name}) claims {n} characters, its source range {}..{} holds {have}", e.rs, e.re));
            }
        }
        if e.code == 7 && e.n == 0 {
            bad.push(format!("K3 leaf event {i} (html) has an empty payload: a zero-width Unlintable token"));
        }
    }
    bad
}

fn case_markdown(rep: &mut Report, text: &str, ilt: bool, dict: &Arc<FstDictionary>, origin: &str) {
    use harper_core::parsers::{Markdown, MarkdownOptions};
    rep.eval();
    let src: Vec<char> = text.chars().collect();
    let inp = json!({"kind": "md", "fe": if ilt { "markdown-ilt" } else { "markdown" }, "text": text, "ilt": ilt});
    let Some(evs) = md_events(text) else {
        rep.count("md:pulldown_cmark_panicked");
        return;
    };
    // ---- the hypothesis of C02_markdown_glue, monitored on every generated document
    let bad = md_contract_violations(text, &evs);
    rep.monitor("md_event_streams_checked", 1);
    rep.monitor("md_events_checked", evs.len() as u64);
    rep.monitor("md_contract_violations", bad.len() as u64);
    for e in &evs {
        rep.count(&format!("md_event:{}", MD_EV_NAMES[e.code as usize]));
    }
    let clamped = evs.iter().filter(|e| e.code == 6 && text.is_char_boundary(e.rs) && text.is_char_boundary(e.re) && e.rs <= e.re && e.n > text[e.rs..e.re].chars().count()).count();
    if clamped > 0 {
        rep.count("md_doc_with_clamped_text_event(F27 shape)");
    }
    // the shapes of the repaired findings FC02a (an empty Code / Math payload: skipped since a37d1cc) and FC02b (a leaf
    // event that exactly repeats an earlier one: skipped by the covered_until / behind_cursor guard since 8b26ba4 / b736ef8) — distribution only
    let empty_math = evs.iter().any(|e| e.code == 5 && e.n == 0);
    let repeated = evs.iter().enumerate().any(|(i, e)| matches!(e.code, 3..=7) && e.re > e.rs && evs[..i].iter().any(|p| p.code == e.code && p.n == e.n && p.rs == e.rs && p.re == e.re));
    let mark = |_class: &str, m: &str| -> String { m.to_string() };
    for b in &bad {
        fail(rep, "md_contract", format!("the pulldown-cmark event stream violates the contract of C02_markdown_glue: {b}"), inp.clone());
    }
    if empty_math {
        rep.count("md_doc_with_empty_math_payload(FC02a shape)");
    }
    if repeated {
        rep.count("md_doc_with_repeated_leaf_event(FC02b shape)");
    }
    let evline = evs.iter().map(|e| format!("{} {} {} {}", e.code, e.n, e.rs, e.re)).collect::<Vec<_>>().join(" ");
    let k = if bad.is_empty() { "K1" } else { "K0" };
    let mut mo = MarkdownOptions::default();
    mo.ignore_link_title = ilt;
    // ---- M: Markdown::parse
    let imp = guarded(|| Markdown::new(mo).parse(&src));
    let line = format!("M {} {} | {}", if ilt { 1 } else { 0 }, cps(&src), evline);
    match &imp {
        Ok(ts) => rep.case(line.trim(), &format!("{k} Z{} {}", md_doc_class(ts), toks_line(ts))),
        Err(_) => rep.case(line.trim(), &format!("{k} Z- P")),
    }
    rep.count(&format!("md_origin:{origin}"));
    match &imp {
        Ok(ts) => {
            for (c, m) in general_failures(ts, src.len()) {
                fail(rep, c, mark(c, &format!("[markdown parser] {m}")), inp.clone());
            }
            // what the glue theorem states beyond TokInv: EVERY token (zero-width ones too) lies inside the text
            if let Some((i, t)) = ts.iter().enumerate().find(|(_, t)| t.span.end > src.len()) {
                fail(rep, "out_of_bounds", mark("out_of_bounds", &format!("[markdown parser] token {i} {:?} ({}) ends beyond the text of {} characters", t.span, kind_str(&t.kind), src.len())), inp.clone());
            }
            if ts.iter().any(|t| t.span.start == t.span.end) {
                rep.count("md_parse_with_zero_width_token");
            }
            let brackets = |ts: &[Token]| ts.iter().filter(|t| matches!(t.kind, TokenKind::Punctuation(Punctuation::OpenSquare | Punctuation::CloseSquare | Punctuation::Pipe))).count();
            if text.contains("[[") && text.contains("]]") {
                rep.count(if brackets(ts) == 0 { "md_wikilink_doc:no_bracket_token_left" } else { "md_wikilink_doc:bracket_tokens_left" });
            }
            if !ts.is_empty() {
                rep.nontrivial(&("md", ilt, text.to_string()));
            }
        }
        Err(m) => {
            if bad.is_empty() {
                fail(rep, "md_panic", mark("md_panic", &format!("Markdown::parse panicked on an event stream that meets the contract: {m} at {}", last_panic_location())), inp.clone());
            } else {
                rep.count("md_panic_outside_contract");
            }
        }
    }
    // ---- N: Document::new(text, Markdown)
    let doc = guarded(|| Document::new(text, &Markdown::new(mo), dict.as_ref()).get_tokens().to_vec());
    let line = format!("N {} {} | {}", if ilt { 1 } else { 0 }, cps(&src), evline);
    match &doc {
        Ok(ts) => rep.case(line.trim(), &toks_line(ts)),
        Err(_) => rep.case(line.trim(), "P"),
    }
    if let Ok(ts) = &doc {
        for (c, m) in general_failures(ts, src.len()) {
            fail(rep, c, mark(c, &format!("[markdown] {m}")), inp.clone());
        }
    }
    // C02_document_markdown_partial: contract met and every Markdown token covers characters => Document::parse does not
    // panic and its tokens are a gapped tiling (general_failures above: bounds / order) without any zero-width token
    if let Ok(pts) = &imp {
        let zw = |t: &Token| t.span.start == t.span.end;
        if bad.is_empty() && !pts.iter().any(zw) {
            rep.count("md_doc_in_partial_theorem_domain(no zero-width parser token)");
            match &doc {
                Ok(ts) => {
                    if let Some((i, t)) = ts.iter().enumerate().find(|(_, t)| zw(t)) {
                        fail(rep, "md_doc_zero_width", mark("md_doc_zero_width", &format!("[markdown] document token {i} at {} ({}) is zero-width although no Markdown token is", t.span.start, kind_str(&t.kind))), inp.clone());
                    }
                }
                Err(m) => fail(rep, "md_doc_panic", mark("md_doc_panic", &format!("Document::new panicked on Markdown tokens that all cover characters, contract met: {m} at {}", last_panic_location())), inp.clone()),
            }
        }
        // C02_document_markdown_breaks (phase 6): contract met and every zero-width Markdown token is a ParagraphBreak (no
        // Start(List) Newline) => Document::parse does not panic, the document keeps the invariant (general_failures above:
        // bounds / order / zero-width kinds) and every zero-width document token is again a ParagraphBreak
        let zw_other = |t: &Token| zw(t) && !matches!(t.kind, TokenKind::ParagraphBreak);
        if bad.is_empty() && !pts.iter().any(zw_other) {
            rep.count("md_doc_in_breaks_theorem_domain(zero-width parser tokens are ParagraphBreaks)");
            if pts.iter().any(zw) {
                rep.count("md_doc_in_breaks_theorem_domain:with_a_floating_break");
            }
            match &doc {
                Ok(ts) => {
                    if let Some((i, t)) = ts.iter().enumerate().find(|(_, t)| zw_other(t)) {
                        fail(rep, "md_doc_breaks_zero_width", mark("md_doc_breaks_zero_width", &format!("[markdown] document token {i} at {} ({}) is zero-width and no ParagraphBreak although every zero-width Markdown token is one", t.span.start, kind_str(&t.kind))), inp.clone());
                    }
                }
                Err(m) => fail(rep, "md_doc_breaks_panic", mark("md_doc_breaks_panic", &format!("Document::new panicked on Markdown tokens whose zero-width tokens are all ParagraphBreaks, contract met: {m} at {}", last_panic_location())), inp.clone()),
            }
        }
        // C02_document_markdown_inert_newlines (phase 7): contract met, class 1 (a Start(List) Newline that condense_newlines
        // leaves alone) => Document::parse does not panic, invariant kept, every zero-width document token is a ParagraphBreak.
        // Class 2 is what no theorem covers yet: counted, so that the evidence carries the coverage.
        if bad.is_empty() {
            let class = md_doc_class(pts);
            rep.count(match class {
                0 => "md_doc_class:0(zero-width tokens are ParagraphBreaks: C02_document_markdown_breaks)",
                1 => "md_doc_class:1(inert zero-width Newlines: C02_document_markdown_inert_newlines)",
                _ => "md_doc_class:2(REMAINING: a zero-width Newline merged by condense_newlines, no theorem)",
            });
            if class == 2 {
                rep.sample(json!({"md_doc_class": 2, "text": text, "markdown_tokens": toks_line(pts)}));
            }
            if class == 1 {
                match &doc {
                    Ok(ts) => {
                        if let Some((i, t)) = ts.iter().enumerate().find(|(_, t)| zw_other(t)) {
                            fail(rep, "md_doc_inert_zero_width", mark("md_doc_inert_zero_width", &format!("[markdown] document token {i} at {} ({}) is zero-width and no ParagraphBreak although the zero-width Newlines of the Markdown vector are inert", t.span.start, kind_str(&t.kind))), inp.clone());
                        }
                    }
                    Err(m) => fail(rep, "md_doc_inert_panic", mark("md_doc_inert_panic", &format!("Document::new panicked on Markdown tokens whose zero-width Newlines are inert, contract met: {m} at {}", last_panic_location())), inp.clone()),
                }
            }
        }
        // the shapes the three _limit Examples isolate (what a theorem about zero-width tokens must exclude), counted on real vectors
        let mut cover_end = 0usize;
        for (i, t) in pts.iter().enumerate() {
            if zw(t) {
                if matches!(t.kind, TokenKind::Newline(_)) && t.span.start < cover_end {
                    rep.count("md_limit_a:zero_width_newline_before_the_end_of_an_earlier_token");
                }
                if i >= 2 && i + 1 < pts.len() && pts[i - 2].kind.is_space() && pts[i - 1].kind.is_space() && pts[i + 1].kind.is_space()
                    && pts[i - 2].span.end == pts[i - 1].span.start && pts[i - 1].span.end == pts[i + 1].span.start {
                    rep.count("md_limit_b:space_space_zero_width_space");
                }
            } else {
                cover_end = cover_end.max(t.span.end);
            }
        }
    }
}

const MD_BLOCKS: &[&str] = &[
    "[[Target page|shown text]] ", "[[plain wikilink]] ", "[[a|b|c]] ", "[[x|y]] and [[z|w]] ", "[[a]] [[b|c]] ", "a | b [[c|d]]\n", "[[open|never closed\n", "| [[ x ]]\n", "[[a|b]]\n]] ",
    "[[ [[n|m]] ]] ", "[[é|値😀]] ", "| pipe ", "[ [a|b] ] ", "[[|]] ", "[[a|]] ", "x [[ y\n\nz | w ]] ",
    "`inline cde` ", "`` a ` b `` ", "` `` ` ", "$x^2$ ", "$$\ny = é\n$$\n\n", "$$$$ ", "$ $ ", "``` ```", "<b>bold é</b> ", "<div>\nblock é\n</div>\n\n", "<!-- cmt -->\n", "<br/>", "<>", "&amp; &copy; &#233; &nosuch; ",
    "line one  \nline two\n", "line one\\\nline two\n", "soft\nbreak\n", "é\r\nü\r\n", "a\u{2028}b ",
    "# Heading é\n\n", "Setext\n======\n\n", "## h {#id .cls}\n\n", "###### \n", "#\tTabbed\n",
    "- item é\n- two\n\n", "- a\n  - nested\n    - deep\n\n", "1. one\n2. two\n   cont\n\n", "- [ ] todo\n- [x] done\n\n", "* \n*\n", "-\t\titem\n", "1.\t\tfoo\n",
    "> quote é\n> more\n\n", "> lazy\ncontinuation\n\n", "> > \t\tdeep\n", "> [!NOTE]\n> alert text\n\n", "> - a\n> - b\n\n", ">\t\ttext here\n",
    "```rust\nlet teh = 1; // é\n```\n\n", "    indented code\n\n", "~~~\ntilde é\n~~~\n", "```\nunclosed\n", "- a\n\n  ```\n\t\tcode\n  ```\n\t\tb c\n",
    "| a | b |\n|---|:-:|\n| é | `c` |\n| x \\| y | z |\n\n", "| h |\n|---|\n| [[t|u]] |\n\n",
    "[link é](https://example.com \"title é\") ", "[ref][r]\n\n[r]: http://x.y \"t\"\n\n", "![img alt](a.png) ", "<https://auto.link> ", "[a [b](c) d](e) ", "[^1] note\n\n[^1]: The footnote é.\n\n",
    "*emph é* **strong** ~~strike~~ ***both*** ", "_a_ __b__ ~sub~ ^sup^ ", "**unclosed ", "*a **b* c** ",
    "---\ntitle: é\n---\n\n", "+++\nx = 1\n+++\n\n", "***\n\n", "Term\n: definition é\n\n", "\\* escaped \\[ \\| ", "\t", "  ", "\n", "\n\n", "\u{feff}", "\0 ",
];

/// Markdown documents for the glue: block and inline constructs of every arm of Markdown::parse's match, wikilinks and
/// pipes for the two removal passes, multi-byte characters, tabs after container markers, CR-LF, truncation
fn md_text(r: &mut Rng) -> String {
    let mut out = String::new();
    for _ in 0..r.range(1, 6) {
        match r.below(10) {
            0 | 1 => out.push_str(&gen::sentence(r)),
            2 => {
                out.push_str(&gen::item(r));
                out.push(' ');
            }
            3 => out.push_str(r.s(&["\n", "\n\n", " ", "  \n", "\\\n"])),
            _ => out.push_str(r.s(MD_BLOCKS)),
        }
    }
    match r.below(12) {
        0 => {
            let cut = r.below(out.chars().count() + 1);
            out.chars().take(cut).collect()
        }
        1 => out.replace('\n', "\r\n"),
        2 => out.trim_end().to_string(),
        _ => out,
    }
}

// ---------------------------------------------------------------- wrapper parsers (I, C, J, K)
/// delegates to a real dictionary and records the `contains_word` queries answered `true`
struct RecDict {
    inner: Arc<dyn Dictionary>,
    yes: std::sync::Mutex<std::collections::BTreeSet<Vec<char>>>,
    queries: std::sync::atomic::AtomicU64,
}
impl RecDict {
    fn new(inner: Arc<dyn Dictionary>) -> Arc<Self> {
        Arc::new(RecDict { inner, yes: Default::default(), queries: Default::default() })
    }
    fn known_line(&self) -> String {
        let y = self.yes.lock().unwrap();
        y.iter().map(|w| if w.is_empty() { "e".to_string() } else { cps(w) }).collect::<Vec<_>>().join(" ; ")
    }
}
impl Dictionary for RecDict {
    fn contains_word(&self, word: &[char]) -> bool {
        self.queries.fetch_add(1, std::sync::atomic::Ordering::Relaxed);
        let r = self.inner.contains_word(word);
        if r {
            self.yes.lock().unwrap().insert(word.to_vec());
        }
        r
    }
    fn contains_word_str(&self, word: &str) -> bool {
        let w: Vec<char> = word.chars().collect();
        self.contains_word(&w)
    }
    fn contains_exact_word(&self, word: &[char]) -> bool {
        self.inner.contains_exact_word(word)
    }
    fn contains_exact_word_str(&self, word: &str) -> bool {
        self.inner.contains_exact_word_str(word)
    }
    fn fuzzy_match(&self, word: &[char], max_distance: u8, max_results: usize) -> Vec<FuzzyMatchResult<'_>> {
        self.inner.fuzzy_match(word, max_distance, max_results)
    }
    fn fuzzy_match_str(&self, word: &str, max_distance: u8, max_results: usize) -> Vec<FuzzyMatchResult<'_>> {
        self.inner.fuzzy_match_str(word, max_distance, max_results)
    }
    fn get_correct_capitalization_of(&self, word: &[char]) -> Option<&'_ [char]> {
        self.inner.get_correct_capitalization_of(word)
    }
    fn get_word_metadata(&self, word: &[char]) -> Option<&WordMetadata> {
        self.inner.get_word_metadata(word)
    }
    fn get_word_metadata_str(&self, word: &str) -> Option<&WordMetadata> {
        self.inner.get_word_metadata_str(word)
    }
    fn words_iter(&self) -> Box<dyn Iterator<Item = &'_ [char]> + Send + '_> {
        self.inner.words_iter()
    }
    fn word_count(&self) -> usize {
        self.inner.word_count()
    }
    fn get_word_from_id(&self, id: &WordId) -> Option<&[char]> {
        self.inner.get_word_from_id(id)
    }
}

/// the curated dictionary plus the given extra words (identifiers)
fn dict_with(dict: &Arc<FstDictionary>, extra: &[String]) -> Arc<dyn Dictionary> {
    if extra.is_empty() {
        return dict.clone();
    }
    let mut m = MutableDictionary::new();
    for w in extra {
        m.append_word_str(w, WordMetadata::default());
    }
    let mut merged = MergedDictionary::new();
    merged.add_dictionary(dict.clone());
    merged.add_dictionary(Arc::new(m));
    Arc::new(merged)
}

fn tok_key(t: &Token) -> String {
    format!("{},{},{}", t.span.start, t.span.end, kind_str(&t.kind))
}
fn is_subsequence(out: &[Token], inner: &[Token]) -> bool {
    let mut i = 0;
    for t in out {
        while i < inner.len() && tok_key(&inner[i]) != tok_key(t) {
            i += 1;
        }
        if i == inner.len() {
            return false;
        }
        i += 1;
    }
    true
}
/// quote twins of a token vector (QuotesOk)
fn twin_failures(toks: &[Token]) -> Vec<String> {
    let mut out = vec![];
    for (i, t) in toks.iter().enumerate() {
        if let TokenKind::Punctuation(Punctuation::Quote(Quote { twin_loc: Some(j) })) = &t.kind {
            let ok = *j != i && *j < toks.len() && matches!(&toks[*j].kind, TokenKind::Punctuation(Punctuation::Quote(Quote { twin_loc: Some(k) })) if *k == i);
            if !ok {
                out.push(format!("quote token {i} points at {j}, which is not a quote pointing back"));
            }
        }
    }
    out
}

/// I / C: the wrapper over a parser that returns a given token vector
fn case_wrapper(rep: &mut Report, which: char, text: &str, ft: &[FTok], extra: &[String], dict: &Arc<FstDictionary>, origin: &str) {
    let Some(toks): Option<Vec<Token>> = ft.iter().map(ftok_to_token).collect() else { return };
    rep.eval();
    let src: Vec<char> = text.chars().collect();
    let rec = RecDict::new(dict_with(dict, extra));
    let out = guarded(|| {
        if which == 'I' {
            IsolateEnglish::new(Box::new(Fake(toks.clone())), rec.clone()).parse(&src)
        } else {
            let d: Arc<dyn Dictionary> = rec.clone();
            CollapseIdentifiers::new(Box::new(Fake(toks.clone())), Box::new(d)).parse(&src)
        }
    });
    let line = format!(
        "{which} {} | {} | {}",
        cps(&src),
        ft.iter().map(|f| format!("{},{},{}", f.s, f.e, f.k)).collect::<Vec<_>>().join(" "),
        rec.known_line()
    );
    match &out {
        Ok(ts) => rep.case(&line, &toks_line(ts)),
        Err(_) => rep.case(&line, "P"),
    }
    let name = if which == 'I' { "isolate_english" } else { "collapse_identifiers" };
    rep.count(&format!("wrapper:{name}:{origin}:{}", if out.is_ok() { "ok" } else { "panic" }));
    let inp = json!({"kind": "wrap", "which": which.to_string(), "text": text, "extra": extra,
                     "toks": ft.iter().map(|f| json!([f.s, f.e, f.k])).collect::<Vec<_>>()});
    let inner_ok = general_failures(&toks, src.len()).is_empty();
    match &out {
        Ok(ts) => {
            if ts.len() != toks.len() {
                rep.count(&format!("wrapper:{name}:{}", if which == 'I' { "dropped_a_chunk" } else { "collapsed_an_identifier" }));
                rep.nontrivial(&line);
            }
            if which == 'I' && ts.is_empty() && !toks.is_empty() {
                rep.count("wrapper:isolate_english:dropped_everything");
            }
            // C02_isolate_english / C02_collapse_identifiers: the token invariant is preserved
            if inner_ok {
                for (c, m) in general_failures(ts, src.len()) {
                    fail(rep, "wrapper_breaks_invariant", format!("{name} turned a vector with the token invariant into one without ({c}): {m}"), inp.clone());
                }
            }
            // C02_isolate_english_chunks: a sub-sequence
            if which == 'I' && !is_subsequence(ts, &toks) {
                fail(rep, "isolate_not_subsequence", "the output of IsolateEnglish is not a sub-sequence of the inner parser's tokens".into(), inp.clone());
            }
            // C02_collapse_identifiers_tiling
            if which == 'C' && tiling_failure(&toks, src.len()).is_none() {
                if let Some(m) = tiling_failure(ts, src.len()) {
                    fail(rep, "collapse_breaks_tiling", format!("CollapseIdentifiers turned a tiling into a non-tiling: {m}"), inp.clone());
                }
            }
        }
        Err(m) => {
            // the theorems exclude a panic when the inner vector has the token invariant
            if inner_ok {
                fail(rep, "wrapper_panic", format!("{name} panicked on a vector with the token invariant: {m}"), inp.clone());
            }
        }
    }
}

/// J / K: the plain-English parser wrapped, then Document::parse
fn case_wrapped_doc(rep: &mut Report, which: char, text: &str, extra: &[String], dict: &Arc<FstDictionary>, origin: &str) {
    rep.eval();
    let src: Vec<char> = text.chars().collect();
    let rec = RecDict::new(dict_with(dict, extra));
    let out = guarded(|| {
        if which == 'J' {
            Document::new(text, &IsolateEnglish::new(Box::new(PlainEnglish), rec.clone()), dict.as_ref()).get_tokens().to_vec()
        } else {
            let d: Arc<dyn Dictionary> = rec.clone();
            Document::new(text, &CollapseIdentifiers::new(Box::new(PlainEnglish), Box::new(d)), dict.as_ref()).get_tokens().to_vec()
        }
    });
    let line = format!("{which} {} | {}", cps(&src), rec.known_line());
    match &out {
        Ok(ts) => rep.case(&line, &toks_line(ts)),
        Err(_) => rep.case(&line, "P"),
    }
    let name = if which == 'J' { "plain+IsolateEnglish" } else { "plain+CollapseIdentifiers" };
    rep.count(&format!("wrapped_doc:{name}:{origin}"));
    let inp = json!({"kind": "wrapdoc", "which": which.to_string(), "text": text, "extra": extra});
    match &out {
        Ok(ts) => {
            // C02_document_plain_ie: gapped (no zero-width token, in bounds, ordered), quotes paired;
            // C02_document_plain_ci: an exact tiling
            for (c, m) in general_failures(ts, src.len()) {
                fail(rep, "wrapped_doc_invariant", format!("[{name}] ({c}) {m}"), inp.clone());
            }
            if let Some(t) = ts.iter().find(|t| t.span.start == t.span.end) {
                fail(rep, "wrapped_doc_invariant", format!("[{name}] zero-width token at {}", t.span.start), inp.clone());
            }
            for m in twin_failures(ts) {
                fail(rep, "wrapped_doc_quotes", format!("[{name}] {m}"), inp.clone());
            }
            if which == 'K' {
                if let Some(m) = tiling_failure(ts, src.len()) {
                    fail(rep, "wrapped_doc_tiling", format!("[{name}] the tokens do not tile the text: {m}"), inp.clone());
                }
            } else if tiling_failure(ts, src.len()).is_some() {
                rep.count("wrapped_doc:plain+IsolateEnglish:has_a_gap");
                rep.nontrivial(&line);
            }
            if which == 'K' && ts.iter().any(|t| matches!(t.kind, TokenKind::Word(_)) && src[t.span.start..t.span.end.min(src.len())].iter().any(|c| *c == '_' || *c == '-')) {
                rep.count("wrapped_doc:plain+CollapseIdentifiers:has_collapsed_identifier");
                rep.nontrivial(&line);
            }
        }
        Err(m) => fail(rep, "wrapped_doc_panic", format!("[{name}] panicked: {m}"), inp.clone()),
    }
}

const IE_TEXTS: &[&str] = &[
    "a. zz q..", "This is good. qzx wvk jhg fds pqr ....", "See the e.g. accomodate zorgle blarg p.m. today",
    "En la mañana, como a dish de los huevos, un poquito of tocino, y a lot of leche.",
    "This is a test: el gato come pescado y bebe leche, then we go home.", "The end. xq zv kk pp. The start.",
    "\"qzx wvk jhg fds\" she said, and left.", "zz zz zz zz", "zz zz zz zz zz zz zz zz zz", "the the the the the the the the the",
    "a b c d e f g h, i j", "One, two, three: four! Five? six.", "x@y.z qq ww ee rr tt.", "$ % ^ & * ( ) the cat sat.", "the cat, , , , sat on the mat",
    "\n\nqzx wvk jhg\n\nThis is fine.\n\n", "1st 2nd qzx 3rd wvk.", "",
];
const CI_TEXTS: &[&str] = &[
    "a_b c-d", "kebab-case", "snake_case_word is here", "This is a separated_identifier, wow!", "well-known fact", "x_-y", "_a", "a_", "a__b", "a_b-c_d", "foo_bar.baz",
    "1_a", "a_1", "a-b-c-d-e", "a_b a_b a_b", "a - b", "a_ b", "don't_do-it", "e.g._x", "U.S._A", "a_b_", "-a_b", "co-op re-use", "x_y_z-w q_r", "",
];
const CI_WORDS: &[&str] = &["a_b", "kebab-case", "snake_case", "snake_case_word", "separated_identifier", "well-known", "a_b-c_d", "b-c", "c_d", "foo_bar", "a-b-c-d-e", "a-b", "c-d", "x_y_z-w", "x_y", "q_r", "co-op", "a__b", "do-it"];

/// maximal runs word(sep word)+ of a text, as strings (candidates for the identifier dictionary)
fn identifier_runs(text: &str) -> Vec<String> {
    let cs: Vec<char> = text.chars().collect();
    let mut out = vec![];
    let mut i = 0;
    while i < cs.len() {
        if cs[i].is_alphabetic() {
            let mut j = i;
            let mut seps = 0;
            while j < cs.len() && (cs[j].is_alphabetic() || ((cs[j] == '_' || cs[j] == '-') && j + 1 < cs.len() && cs[j + 1].is_alphabetic())) {
                if cs[j] == '_' || cs[j] == '-' {
                    seps += 1;
                }
                j += 1;
            }
            if seps > 0 {
                out.push(cs[i..j].iter().collect());
            }
            i = j.max(i + 1);
        } else {
            i += 1;
        }
    }
    out
}

fn wrapper_text(r: &mut Rng, which: char) -> String {
    let gib = ["qzx", "wvk", "jhg", "fds", "pqr", "zorgle", "blarg", "xq", "zv", "el", "gato", "come", "leche", "huevos"];
    let n = r.range(1, 8);
    let mut out = String::new();
    for i in 0..n {
        if i > 0 {
            out.push_str(r.s(&[" ", " ", " ", ", ", ". ", ": ", "\n\n", "! ", "? ", " \"", "\" ", "...", ".", " - ", "  "]));
        }
        match r.below(10) {
            0..=3 => out.push_str(r.s(gen::COMMON)),
            4..=5 => out.push_str(r.s(&gib)),
            6 => out.push_str(r.s(C02_ITEMS)),
            _ => {
                if which == 'I' || which == 'J' {
                    out.push_str(r.s(&gib))
                } else {
                    let k = r.range(2, 4);
                    for m in 0..k {
                        if m > 0 {
                            out.push_str(r.s(&["_", "-", "_", "-", "__", "_-"]));
                        }
                        out.push_str(r.s(&["a", "b", "foo", "bar", "case", "kebab", "snake", "x", "well", "known"]));
                    }
                }
            }
        }
    }
    out
}

// ---------------------------------------------------------------- generators
const C02_ITEMS: &[&str] = &[
    "e.g.", "i.e.", "N.S.A.", "U.S.", "U.S.A", "a.", "I.", "A.B.", "x.y.z", "a.b", "etc.", "vs.", "et al.", "Et  Al.", "ET\tAL.", "et\nal.", "et al", "etc",
    "don't", "it’s", "rock'n'roll", "a'b'c'd", "y'all'd've", "'tis", "dogs'", "...", "..", "....", ". . .", ".....", "…",
    "1st", "2nd", "3rd", "4th", "21th", "21thing", "1ST", "2Nd", "3.5th", "0x1Fth", "1e3rd", "7 th", "1990s", "1990st", "2000s.", "90s", "1's", "a's", "as",
    "0x1F", "0xdeadbeef", "0xZZ", "0x", "0x1g", "0xFFFFFFFFFFFFFFFF", "0x10000000000000000", "3.14", "1e10", "1e999", "5.", "5..", "1.e5", "1e+5", "1e-5", "1e+", "1.2.3", "1-2", "1+1", "1e5e5", "00.10", "9007199254740993", "123456789012345678901234567890",
    "1e308", "1e309", "1.7976931348623157e308", "1.7976931348623158e308", "1.7976931348623159e308", "17976931348623158e292", "17976931348623159e292", "1e-400", "1e99999999999999999999", "1e-99999999999999999999",
    "0.0000000000000000000000000000000000000000000000000000000000000000000001e400", "123456789e301", "9e999th", "1e999TH", "2e308.5",
    // 2^1024 - 2^970 (the first integer that rounds to infinity) and its predecessor
    "179769313486231580793728971405303415079934132710037826936173778980444968292764750946649017977587207096330286416692887910946555547851940402630657488671505820681908902000708383676273854845817711531764475730270069855571366959622842914819860834936475292719074168444365510704342711559699508093042880177904174497792",
    "179769313486231580793728971405303415079934132710037826936173778980444968292764750946649017977587207096330286416692887910946555547851940402630657488671505820681908902000708383676273854845817711531764475730270069855571366959622842914819860834936475292719074168444365510704342711559699508093042880177904174497791",
    "asüsociations", "esäctqda", "asü", "1sé", "a'sé", "A’sü", "as٣", "1s²", "asßen", "isаk", "2st's", "11st’s", "2nd's", "3rd'll", "the 2st's value", "1st'", "don't2nd", "1'st",
    "٣", "½", "²", "٣4", "4٣",
    "https://example.com", "https://a.b/c?d=e#f", "http://user:pw@host.com:8080/path", "http://user@host.com/x", "joe@x.com", "\"a b\"@x.com", "a..b@x.com", ".a@x.com", "example.com",
    "www.foo.org", "a@b", "@handle", "https://", "http://x", "://x", "ftp://files.example.org/a.txt", "mailto:a@b.co", "first.last+tag@sub.example.co.uk", "http://a.b/%41%zz", "x.y.", "a-b.c", "foo.rs", "1.2",
    "[a-z]", "[a-z0-9]+", "[]", "[a", "[a-]", "[ab-c]", "[é]", "[a-z", "\"", "“", "”", "\"a\" \"b\"", "\"a\" \"b", "'", "’",
    "café", "naïve", "Ångström", "e\u{301}", "😀", "漢字", "한국어", "Привет", "\u{a0}", "\u{2028}", "\u{85}", "\u{200b}", "ß", "ǅ", "ﬁ", "𝒜", "\u{10FFFF}", "\u{0}",
    " ", "  ", "\t", " \t ", "\t\t", " \t \t", "   \t", "\n", "\n\n", "\n\n\n", "\r\n", "\r\n\r\n", "\r", " \n ", "\n \n", "$5", "¥500", "50%", "#tag", "a_b", "a/b", "C:\\dir",
];

fn rich_text(r: &mut Rng) -> String {
    let n = r.range(1, 7);
    let mut out = String::new();
    for i in 0..n {
        if i > 0 && r.chance(3, 4) {
            out.push_str(r.s(&[" ", " ", " ", "  ", "\t", " \t", "\n", "\n\n", "\r\n", "", ".", ", "]));
        }
        match r.below(10) {
            0..=5 => out.push_str(r.s(C02_ITEMS)),
            6..=7 => out.push_str(&gen::item(r)),
            8 => out.push_str(r.s(gen::COMMON)),
            _ => out.push_str(gen::any_construct(r)),
        }
    }
    if r.chance(1, 5) {
        out.push_str(r.s(&[".", "\n", " ", "...", "\"", "th", "st", "'s"]));
    }
    out
}

fn ftoks_of_plain(src: &[char]) -> Vec<FTok> {
    PlainEnglish
        .parse(src)
        .iter()
        .map(|t| {
            let k = match &t.kind {
                TokenKind::Punctuation(_) => format!("P:{}", src[t.span.start] as u32),
                TokenKind::Number(_) => format!("N:{}", t.span.start % 97),
                other => kind_str(other),
            };
            FTok { s: t.span.start, e: t.span.end, k }
        })
        .collect()
}

/// token vectors for the T stream: real ones perturbed (split into adjacent runs, zero-width inserts,
/// drops, duplicates, shifted or inverted spans) and fully random ones
fn perturbed(r: &mut Rng, src: &[char]) -> Vec<FTok> {
    let mut v = ftoks_of_plain(src);
    // split Space / Newline tokens into one token per character (what comment parsers and Markdown produce)
    if r.chance(2, 3) {
        let mut w = vec![];
        for t in v {
            let splittable = (t.k.starts_with("S:") || t.k.starts_with("NL:")) && t.e - t.s > 1;
            if splittable && r.chance(3, 4) {
                for i in t.s..t.e {
                    let k = if t.k.starts_with("S:") { format!("S:{}", if src[i] == '\t' { 2 } else { 1 }) } else { "NL:1".to_string() };
                    w.push(FTok { s: i, e: i + 1, k });
                }
            } else {
                w.push(t);
            }
        }
        v = w;
    }
    let edits = match r.below(4) {
        0 => 0,
        1 => 1,
        _ => r.range(1, 4),
    };
    for _ in 0..edits {
        if v.is_empty() {
            break;
        }
        let i = r.below(v.len());
        match r.below(9) {
            0 => {
                v.remove(i);
            }
            1 => {
                let t = v[i].clone();
                v.insert(i, t);
            }
            2 => {
                let p = v[i].s;
                v.insert(i, FTok { s: p, e: p, k: r.s(&["NL:1", "NL:2", "PB", "S:1", "W", "P:46"]).to_string() });
            }
            3 => {
                v[i].e += r.range(1, 3);
            }
            4 => {
                let d = r.range(1, 3);
                v[i].s += d;
                v[i].e += d;
            }
            5 => {
                let (a, b) = (v[i].s, v[i].e);
                if b > a {
                    v[i].s = b;
                    v[i].e = a;
                }
            }
            6 => {
                let j = r.below(v.len());
                v.swap(i, j);
            }
            7 => {
                v[i].k = r.s(&["W", "S:1", "NL:1", "NL:2", "P:46", "P:39", "P:34", "N:7", "X", "PB"]).to_string();
            }
            _ => {
                let t = FTok { s: v[i].e, e: v[i].e + r.below(3), k: r.s(&["W", "S:1", "NL:1", "P:46", "P:39", "P:34", "N:3"]).to_string() };
                v.insert(i + 1, t);
            }
        }
    }
    v
}

/// a tiling of `src` by tokens of random kinds whose text may or may not fit the kind
fn random_tiling(r: &mut Rng, src: &[char]) -> Vec<FTok> {
    let mut v = vec![];
    let mut pos = 0;
    while pos < src.len() {
        let len = if r.chance(3, 5) { 1 } else { r.range(1, 3) }.min(src.len() - pos);
        let c = src[pos];
        let k = if len == 1 && (Punctuation::from_char(c).is_some() || is_quote_char(c)) && r.chance(5, 6) {
            format!("P:{}", c as u32)
        } else {
            r.s(&["W", "W", "W", "S:1", "S:2", "NL:1", "NL:1", "NL:2", "N:1", "N:21", "X", "PB", "D", "H"]).to_string()
        };
        v.push(FTok { s: pos, e: pos + len, k });
        pos += len;
    }
    v
}

const TOKEN_TEXTS: &[&str] = &[
    "a  \t b", " \t \t \t", "a\n\n\n\nb", "\n\n\n", "e.g. x", "N.S.A.", "a.b.c.", "a.", "x a. b", "1st 2nd", "21th", "1st", "don't it's", "a'b'c", "...", ". .. ...", "et al.", "etc. vs.", "et \n al.",
    "\"a\" \"b\" \"", "“x” \"", "I. e.g.", "a.b. 3rd...", "it's 1st e.g. \"x\" etc.", "th st nd rd", "1 st", "a' b",
];

pub fn replay_input(rep: &mut Report, v: &Value, dict: &Arc<FstDictionary>) {
    match v["kind"].as_str().unwrap_or("plain") {
        "plain" => {
            if let Some(t) = v["text"].as_str() {
                case_plain_pinned(rep, t, dict, v["origin"].as_str().unwrap_or("corpus"), v["pin_raw"].as_str(), v["pin_doc"].as_str());
            }
        }
        "fe" => {
            if let (Some(fe), Some(t)) = (v["fe"].as_str(), v["text"].as_str()) {
                case_frontend(rep, fe, t, dict);
            }
        }
        "toks" => {
            if let (Some(t), Some(a)) = (v["text"].as_str(), v["toks"].as_array()) {
                let ft: Vec<FTok> = a
                    .iter()
                    .filter_map(|x| Some(FTok { s: x[0].as_u64()? as usize, e: x[1].as_u64()? as usize, k: x[2].as_str()?.to_string() }))
                    .collect();
                case_toks(rep, t, &ft, dict, "corpus");
            }
        }
        "wrap" | "wrapdoc" => {
            let which = v["which"].as_str().and_then(|w| w.chars().next()).unwrap_or('I');
            let extra: Vec<String> = v["extra"].as_array().map(|a| a.iter().filter_map(|x| x.as_str().map(|s| s.to_string())).collect()).unwrap_or_default();
            let Some(t) = v["text"].as_str() else { return };
            if v["kind"] == "wrapdoc" {
                case_wrapped_doc(rep, which, t, &extra, dict, "corpus");
            } else if let Some(a) = v["toks"].as_array() {
                let ft: Vec<FTok> = a
                    .iter()
                    .filter_map(|x| Some(FTok { s: x[0].as_u64()? as usize, e: x[1].as_u64()? as usize, k: x[2].as_str()?.to_string() }))
                    .collect();
                case_wrapper(rep, which, t, &ft, &extra, dict, "corpus");
            } else {
                let src: Vec<char> = t.chars().collect();
                case_wrapper(rep, which, t, &ftoks_of_plain(&src), &extra, dict, "corpus");
            }
        }
        "md" => {
            if let Some(t) = v["text"].as_str() {
                match v["ilt"].as_bool() {
                    Some(b) => case_markdown(rep, t, b, dict, "corpus"),
                    None => {
                        case_markdown(rep, t, false, dict, "corpus");
                        case_markdown(rep, t, true, dict, "corpus");
                    }
                }
            }
        }
        "law" => {}
        _ => {}
    }
}

pub fn run(a: &Args, corpus: &[Value]) {
    let mut rep = Report::new(&a.out);
    rep.rule = "plain texts: corpus, construct-rich generator (initialisms/contractions/ellipses/suffixes/decades/hex/floats/URLs/e-mails/hostnames/regexish/quotes, multi-byte, tabs, CR-LF, blank lines; constructs forced to the very end), every prefix of each text, shared document generator, malformed stream; token vectors (T): plain tokens perturbed (per-character Space/Newline runs, zero-width inserts, drops, duplicates, shifted/inverted/out-of-bounds spans, kind changes) and random tilings with arbitrary kinds; wrapper parsers (I, C): IsolateEnglish / CollapseIdentifiers over given token vectors (plain vectors of chunk- and identifier-rich texts, perturbed vectors, random tilings; curated dictionary + random identifiers of the text), wrapped plain documents (J, K); front-ends: every front-end of hv::frontends (+ci, +ie) on embedded documents incl. tabs after container markers. non-trivial = distinct text whose document has fewer tokens than PlainEnglish.parse produced (some pass condensed), distinct token vector changed by the passes, distinct wrapper case that dropped a chunk / collapsed an identifier, distinct wrapped document with a gap / a collapsed identifier, distinct non-empty front-end document".into();
    let dict = FstDictionary::curated();
    dump_unicode(&mut rep, a.thorough());
    for c in corpus {
        replay_input(&mut rep, c, &dict);
    }
    if a.replay.is_some() {
        rep.finish();
        return;
    }
    let mut r = Rng::new(a.seed);
    // ---- plain: every construct alone, at the end of a sentence, and every prefix
    for it in C02_ITEMS {
        case_plain(&mut rep, it, &dict, "item");
        case_plain(&mut rep, &format!("See {it}"), &dict, "item_end");
        case_plain(&mut rep, &format!("{it} this"), &dict, "item_start");
    }
    for _ in 0..a.scale(260, 4000) {
        let t = rich_text(&mut r);
        case_plain(&mut rep, &t, &dict, "rich");
        let cs: Vec<char> = t.chars().collect();
        if cs.len() <= 48 || r.chance(1, 4) {
            for k in 0..cs.len() {
                let p: String = cs[..k].iter().collect();
                case_plain(&mut rep, &p, &dict, "prefix");
            }
        }
    }
    for _ in 0..a.scale(300, 6000) {
        let t = gen::any_text(&mut r);
        case_plain(&mut rep, &t, &dict, "document");
    }
    for _ in 0..a.scale(200, 4000) {
        let t = gen::malformed(&mut r, 40);
        case_plain(&mut rep, &t, &dict, "malformed");
    }
    if a.thorough() {
        // exhaustive finite sweep: every text of length <= 5 over ten characters that drive every pass
        let alpha = ['a', '.', ' ', '\t', '\n', '\'', '1', 's', '"', 't'];
        let mut count = 0u64;
        for len in 0..=5usize {
            let mut idx = vec![0usize; len];
            loop {
                let t: String = idx.iter().map(|i| alpha[*i]).collect();
                case_plain(&mut rep, &t, &dict, "exhaustive");
                count += 1;
                let mut k = 0;
                while k < len {
                    idx[k] += 1;
                    if idx[k] < alpha.len() {
                        break;
                    }
                    idx[k] = 0;
                    k += 1;
                }
                if k == len {
                    break;
                }
            }
        }
        rep.extra.insert("exhaustive_texts_le5_over_10_chars".into(), json!(count));
    }
    // ---- token vectors through Document::parse
    for t in TOKEN_TEXTS {
        let src: Vec<char> = t.chars().collect();
        let v = ftoks_of_plain(&src);
        case_toks(&mut rep, t, &v, &dict, "plain");
        // one token per character for blanks and newlines
        let mut w = vec![];
        for f in &v {
            if f.k.starts_with("S:") || f.k.starts_with("NL:") {
                for i in f.s..f.e {
                    w.push(FTok { s: i, e: i + 1, k: if f.k.starts_with("S:") { "S:1".into() } else { "NL:1".into() } });
                }
            } else {
                w.push(f.clone());
            }
        }
        case_toks(&mut rep, t, &w, &dict, "per_char_runs");
    }
    for _ in 0..a.scale(1500, 30000) {
        let t = if r.chance(1, 2) { r.s(TOKEN_TEXTS).to_string() } else { rich_text(&mut r) };
        let src: Vec<char> = t.chars().collect();
        if src.len() > 60 {
            continue;
        }
        if r.chance(2, 3) {
            let v = perturbed(&mut r, &src);
            case_toks(&mut rep, &t, &v, &dict, "perturbed");
        } else {
            let v = random_tiling(&mut r, &src);
            case_toks(&mut rep, &t, &v, &dict, "random_tiling");
        }
    }
    // ---- the wrapper parsers: given token vectors (I, C) and wrapped plain documents (J, K)
    let all_ci: Vec<String> = CI_WORDS.iter().map(|s| s.to_string()).collect();
    for t in IE_TEXTS.iter().chain(CI_TEXTS.iter()).chain(TOKEN_TEXTS.iter()) {
        let src: Vec<char> = t.chars().collect();
        let v = ftoks_of_plain(&src);
        case_wrapper(&mut rep, 'I', t, &v, &[], &dict, "plain");
        case_wrapper(&mut rep, 'C', t, &v, &all_ci, &dict, "plain");
        case_wrapper(&mut rep, 'C', t, &v, &[], &dict, "plain_no_identifiers");
        case_wrapped_doc(&mut rep, 'J', t, &[], &dict, "fixed");
        case_wrapped_doc(&mut rep, 'K', t, &all_ci, &dict, "fixed");
    }
    for _ in 0..a.scale(700, 12000) {
        let which = if r.chance(1, 2) { 'I' } else { 'C' };
        let t = match r.below(6) {
            0 => r.s(if which == 'I' { IE_TEXTS } else { CI_TEXTS }).to_string(),
            1 => rich_text(&mut r),
            _ => wrapper_text(&mut r, which),
        };
        let src: Vec<char> = t.chars().collect();
        if src.len() > 120 {
            continue;
        }
        let mut extra: Vec<String> = vec![];
        if which == 'C' {
            for id in identifier_runs(&t) {
                if r.chance(1, 2) {
                    extra.push(id);
                }
            }
            if r.chance(1, 3) {
                extra.extend(all_ci.iter().cloned());
            }
        }
        let (v, origin) = match r.below(5) {
            0 if src.len() <= 60 => (perturbed(&mut r, &src), "perturbed"),
            1 if src.len() <= 60 => (random_tiling(&mut r, &src), "random_tiling"),
            _ => (ftoks_of_plain(&src), "plain"),
        };
        case_wrapper(&mut rep, which, &t, &v, &extra, &dict, origin);
        if r.chance(1, 3) {
            case_wrapped_doc(&mut rep, if which == 'I' { 'J' } else { 'K' }, &t, &extra, &dict, "generated");
        }
    }
    // ---- the Markdown glue (M, N): Markdown::parse / Document::new over the recorded pulldown-cmark event stream
    for b in MD_BLOCKS {
        case_markdown(&mut rep, b, false, &dict, "block");
        case_markdown(&mut rep, &format!("{}{b}", gen::sentence(&mut r)), true, &dict, "block_after_sentence");
    }
    for _ in 0..a.scale(450, 9000) {
        let t = if r.chance(1, 6) { frontends::embed("markdown", &mut r) } else { md_text(&mut r) };
        let ilt = r.chance(1, 3);
        case_markdown(&mut rep, &t, ilt, &dict, "generated");
    }
    // ---- every front-end: the four invariants (search only)
    let mut fes = frontends::base_frontends();
    for l in ["rust", "python", "javascript", "java", "go", "lua"] {
        fes.push(format!("c:{l}+ci"));
    }
    fes.push("markdown+ie".into());
    fes.push("plain+ie".into());
    fes.push("lhaskell+ci".into());
    let tabby = ["> \t\t!", "- \tx", "> \t\ta b", "1.\t\tfoo", "- a\n\n  ```\n\t\tcode\n  ```\n\t\tb c", ">\t\ttext here", "> > \t\tdeep", "-\t\titem\n-\t\ttwo"];
    for fe in &fes {
        for _ in 0..a.scale(12, 150) {
            let t = frontends::embed(fe, &mut r);
            case_frontend(&mut rep, fe, &t, &dict);
        }
        if fe.starts_with("markdown") || fe.starts_with("gitcommit") || fe.starts_with("lhaskell") {
            for t in tabby {
                case_frontend(&mut rep, fe, t, &dict);
            }
            for _ in 0..a.scale(20, 400) {
                // tabs after container markers, random
                let mut t = String::new();
                for _ in 0..r.range(1, 3) {
                    t.push_str(r.s(&["> ", "- ", "1. ", ">", "-", "  ", "* ", "> > ", "```\n"]));
                    for _ in 0..r.below(4) {
                        t.push_str(r.s(&["\t", " ", "\t\t"]));
                    }
                    t.push_str(&gen::item(&mut r));
                    t.push_str(r.s(&["\n", " ", "\n\n", "\t"]));
                }
                case_frontend(&mut rep, fe, &t, &dict);
            }
        }
    }
    // ---- Typst string literals with escape sequences (seeded c02-6): the VALUE of the literal is shorter than its spelling;
    // tokens must be laid over the spelling.  Escapes followed by words / quotes / numbers / punctuation, in #let, function
    // arguments, content blocks and arrays; multi-byte characters before and after the escape.
    for t in TYPST_STRINGS {
        case_frontend(&mut rep, "typst", t, &dict);
    }
    for _ in 0..a.scale(120, 2500) {
        let t = typst_string_doc(&mut r);
        case_frontend(&mut rep, if r.chance(1, 5) { "typst+ci" } else { "typst" }, &t, &dict);
        rep.count("typst_string_literal_doc");
    }
    rep.finish();
}

const TYPST_STRINGS: &[&str] = &[
    "#let greeting = \"say \\\"hi\\\" to them now\"",
    "#let p = \"C:\\\\dir\\\\file 1st 3.5 ok\"",
    "#let n = \"one\\ntwo\\tthree, 21st \\\"q\\\".\"",
    "#let u = \"snow \\u{2603} man 0x1F e.g. done\"",
    "#text(\"é \\\" ü “x” 12\")[body \"lit\\\\eral word\"]",
    "#let a = (\"a\\\"b\", \"c d\", \"\\\\\")\n\nPlain \"markup\" text.",
    "#let e = \"\\\"\"",
    "#let r = \"\\r\\n x\"",
];

fn typst_string_doc(r: &mut Rng) -> String {
    let esc = ["\\\"", "\\\\", "\\n", "\\t", "\\r", "\\u{e9}", "\\u{1F600}", "\\u{2603}", "\\\"\\\"", "\\\\\\\""];
    let mut lit = |r: &mut Rng| -> String {
        let mut s = String::from("\"");
        for _ in 0..r.range(1, 6) {
            match r.below(8) {
                0..=2 => s.push_str(r.s(&esc)),
                3 => s.push_str(r.s(C02_ITEMS)),
                4 => s.push_str(r.s(&["é", "“", "”", "値", "😀", "'", "’", ".", ", ", "...", "1st", "3.14", "0x1F", "42"])),
                _ => s.push_str(r.s(gen::COMMON)),
            }
            s.push_str(r.s(&[" ", " ", "", "  "]));
        }
        // the generated pieces must not close the literal early or leave a dangling backslash
        let body: String = s[1..].to_string();
        let mut clean = String::from("\"");
        let cs: Vec<char> = body.chars().collect();
        let mut i = 0;
        while i < cs.len() {
            if cs[i] == '\\' && i + 1 < cs.len() {
                clean.push(cs[i]);
                clean.push(cs[i + 1]);
                i += 2;
            } else if cs[i] == '"' || cs[i] == '\\' {
                i += 1;
            } else {
                clean.push(cs[i]);
                i += 1;
            }
        }
        clean.push('"');
        clean
    };
    let mut out = String::new();
    for _ in 0..r.range(1, 3) {
        match r.below(5) {
            0 | 1 => out.push_str(&format!("#let x = {}\n\n", lit(r))),
            2 => out.push_str(&format!("{} #text({})[{}]\n\n", gen::clean_sentence(r), lit(r), gen::clean_sentence(r))),
            3 => out.push_str(&format!("#let a = ({}, {})\n\n", lit(r), lit(r))),
            _ => out.push_str(&format!("é #figure(caption: {})[{}]\n\n", lit(r), gen::clean_sentence(r))),
        }
    }
    out
}

fn main() {
    let (args, corpus) = hv::cli();
    run(&args, &corpus);
}
