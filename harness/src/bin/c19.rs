//! C19 — the statistics log: correspondence with Model/JsonEscape.v + Model/Stats.v + Model/C19Record.v (extracted) and the
//! property oracle on the implementation (harper-stats Stats::write/read/summarize through a real file
//! opened in append mode the way harper-ls's save_stats does, harper-wasm's generate/import_stats_file,
//! serde_json's string escaping, std's BufRead::lines).
#[path = "../lsclient.rs"]
mod lsclient;
use harper_core::linting::{LintGroup, LintGroupConfig, LintKind, Linter};
use harper_core::{Dialect, Dictionary, Document, FatStringToken, FstDictionary, Number, NumberSuffix, Punctuation, TokenKind};
use harper_stats::{Record, RecordKind, Stats};
use hv::common::*;
use hv::gen;
use serde_json::{json, Value};
use std::collections::{BTreeMap, HashSet};
use std::io::{BufRead, BufReader, BufWriter, Write};
use std::sync::Arc;

const LINT_KINDS: [LintKind; 10] = [
    LintKind::Spelling,
    LintKind::Capitalization,
    LintKind::Style,
    LintKind::Formatting,
    LintKind::Repetition,
    LintKind::Enhancement,
    LintKind::Readability,
    LintKind::WordChoice,
    LintKind::Miscellaneous,
    LintKind::Punctuation,
];
const OTHER: usize = 999_999;

fn kind_index(k: LintKind) -> usize {
    LINT_KINDS.iter().position(|x| *x == k).unwrap_or(OTHER)
}
fn ints<T: Copy + Into<u64>>(xs: &[T]) -> String {
    xs.iter().map(|b| (*b).into().to_string()).collect::<Vec<_>>().join(" ")
}
fn cps_of(s: &str) -> String {
    s.chars().map(|c| (c as u32).to_string()).collect::<Vec<_>>().join(" ")
}
/// the same digest as ocaml/c19_main.ml
fn digest(bs: &[u8]) -> String {
    if bs.len() <= 1500 {
        ints(bs)
    } else {
        let mut h: u64 = 7;
        for b in bs {
            h = (h * 31 + *b as u64 + 1) & 0xFFFF_FFFF_FFFF;
        }
        format!("#{}:{}", bs.len(), h)
    }
}

// ------------------------------------------------------------------------------------------------
// replayable description of records
// ------------------------------------------------------------------------------------------------
fn tok_to_json(t: &FatStringToken) -> Value {
    let mut v = json!({"content": t.content, "kind": serde_json::to_value(&t.kind).unwrap_or(Value::Null)});
    if let TokenKind::Number(n) = &t.kind {
        v["bits"] = json!(format!("{:016x}", n.value.0.to_bits()));
    }
    v
}
fn tok_from_json(v: &Value) -> Option<FatStringToken> {
    let content = v["content"].as_str()?.to_string();
    let kind = if let Some(bits) = v.get("bits").and_then(|b| b.as_str()) {
        let bits = u64::from_str_radix(bits, 16).ok()?;
        let mut k = v["kind"].clone();
        k["value"]["value"] = json!(0.0);
        match serde_json::from_value::<TokenKind>(k).ok()? {
            TokenKind::Number(mut n) => {
                n.value = f64::from_bits(bits).into();
                TokenKind::Number(n)
            }
            _ => return None,
        }
    } else {
        serde_json::from_value::<TokenKind>(v["kind"].clone()).ok()?
    };
    Some(FatStringToken { content, kind })
}
fn uuid_string(x: u128) -> String {
    let h = format!("{:032x}", x);
    format!("{}-{}-{}-{}-{}", &h[0..8], &h[8..12], &h[12..16], &h[16..20], &h[20..32])
}
fn mk_record(kind: RecordKind, when: i64, uuid: u128) -> Record {
    let mut r = Record::now(kind);
    r.when = when;
    r.uuid = serde_json::from_value(json!(uuid_string(uuid))).expect("uuid");
    r
}
fn record_to_json(r: &Record) -> Value {
    let uuid = serde_json::to_value(r.uuid).unwrap_or(Value::Null);
    match &r.kind {
        RecordKind::Lint { kind, context } => {
            json!({"t": "lint", "k": kind_index(*kind), "ctx": context.iter().map(tok_to_json).collect::<Vec<_>>(), "when": r.when, "uuid": uuid})
        }
        RecordKind::LintConfigUpdate(c) => {
            json!({"t": "cfg", "entries": serde_json::to_value(c).unwrap_or(Value::Null), "when": r.when, "uuid": uuid})
        }
    }
}
struct Ctx {
    dict: Arc<FstDictionary>,
    group: LintGroup,
}
impl Ctx {
    fn new() -> Self {
        let dict = FstDictionary::curated();
        let mut group = LintGroup::new_curated(dict.clone(), Dialect::American);
        group.set_all_rules_to(Some(true));
        Ctx { dict, group }
    }
    /// the records the JS API would log for every lint of `text` (RecordKind::from_lint)
    fn doc_records(&mut self, text: &str, when: i64, uuid0: u128) -> Vec<Record> {
        let dict = self.dict.clone();
        let group = &mut self.group;
        guarded(|| {
            let doc = Document::new_plain_english(text, &dict);
            let lints = group.lint(&doc);
            lints.iter().enumerate().map(|(i, l)| mk_record(RecordKind::from_lint(l, &doc), when + i as i64, uuid0.wrapping_add(i as u128))).collect::<Vec<_>>()
        })
        .unwrap_or_default()
    }
    fn records_from_json(&mut self, v: &Value) -> Vec<Record> {
        let when = v["when"].as_i64().unwrap_or(0);
        let uuid = v["uuid"].as_str().and_then(|s| u128::from_str_radix(&s.replace('-', ""), 16).ok()).unwrap_or(0);
        match v["t"].as_str().unwrap_or("") {
            "lint" => {
                let ctx: Vec<FatStringToken> = v["ctx"].as_array().map(|a| a.iter().filter_map(tok_from_json).collect()).unwrap_or_default();
                let k = LINT_KINDS[(v["k"].as_u64().unwrap_or(8) as usize).min(9)];
                vec![mk_record(RecordKind::Lint { kind: k, context: ctx }, when, uuid)]
            }
            "cfg" => {
                let c: LintGroupConfig = serde_json::from_value(v["entries"].clone()).unwrap_or_default();
                vec![mk_record(RecordKind::LintConfigUpdate(c), when, uuid)]
            }
            "doc" => {
                let mut recs = self.doc_records(v["text"].as_str().unwrap_or(""), when, uuid);
                if let Some(n) = v["take"].as_u64() {
                    recs.truncate(n as usize);
                }
                recs
            }
            _ => vec![],
        }
    }
}

// ------------------------------------------------------------------------------------------------
// strings: serde_json escaping (E), parsing (U); lines (S)
// ------------------------------------------------------------------------------------------------
fn check_string(rep: &mut Report, s: &str, origin: &str) {
    rep.eval();
    let inp = json!({"kind": "str", "cps": s.chars().map(|c| c as u32).collect::<Vec<_>>(), "origin": origin});
    let out = match guarded(|| serde_json::to_string(s)) {
        Ok(Ok(o)) => o.into_bytes(),
        other => {
            rep.case(&format!("E {}", cps_of(s)), "PANIC");
            rep.fail("escape", format!("serde_json::to_string failed: {:?}", other.map(|r| r.map(|_| ()).map_err(|e| e.to_string()))), inp);
            return;
        }
    };
    rep.case(format!("E {}", cps_of(s)).trim_end(), &ints(&out));
    // oracle: no raw control byte (so no line break), and the text comes back
    if let Some(b) = out.iter().find(|b| **b < 0x20) {
        rep.fail("escape", format!("serialised string contains the raw control byte {b:#04x}"), inp.clone());
    }
    match serde_json::from_slice::<String>(&out) {
        Ok(t) if t == s => {}
        Ok(_) => rep.fail("escape", "string does not come back from its JSON form".into(), inp.clone()),
        Err(e) => rep.fail("escape", format!("JSON form of the string does not parse: {e}"), inp.clone()),
    }
    if s.chars().any(|c| (c as u32) < 0x20 || c == '"' || c == '\\') {
        rep.nontrivial(&s.to_string());
        rep.count("str:needs_escape");
    } else if !s.is_ascii() {
        rep.count("str:non_ascii_verbatim");
    } else {
        rep.count("str:plain");
    }
}

fn check_json_literal(rep: &mut Report, bytes: &[u8], origin: &str) {
    rep.eval();
    let r = serde_json::from_slice::<String>(bytes);
    let line = match &r {
        Ok(s) => format!("S {}", cps_of(s)).trim_end().to_string(),
        Err(_) => "N".to_string(),
    };
    rep.case(format!("U {}", ints(bytes)).trim_end(), &line);
    rep.count(if r.is_ok() { "json_literal:accepted" } else { "json_literal:rejected" });
    let _ = origin;
}

fn check_lines(rep: &mut Report, bytes: &[u8]) {
    rep.eval();
    let mut out = vec![];
    let mut n = 0;
    for l in BufReader::new(bytes).lines() {
        n += 1;
        out.push(match l {
            Ok(s) => cps_of(&s),
            Err(_) => "E".to_string(),
        });
        if n > bytes.len() + 2 {
            break;
        }
    }
    let mut fields = vec![n.to_string()];
    fields.extend(out);
    rep.case(format!("S {}", ints(bytes)).trim_end(), &fields.join("|"));
    rep.count(if std::str::from_utf8(bytes).is_ok() { "lines:utf8" } else { "lines:invalid_utf8" });
}

// ------------------------------------------------------------------------------------------------
// the shape of a serialised record: fixed fragments and escaped strings
// ------------------------------------------------------------------------------------------------
enum Piece {
    Lit(Vec<u8>),
    Str(String),
}
fn pieces_of_line(line: &[u8]) -> Option<Vec<Piece>> {
    let mut ps = vec![];
    let mut lit = vec![];
    let mut i = 0;
    while i < line.len() {
        if line[i] == b'"' {
            let mut j = i + 1;
            loop {
                if j >= line.len() {
                    return None;
                }
                if line[j] == b'\\' {
                    j += 2;
                    continue;
                }
                if line[j] == b'"' {
                    break;
                }
                j += 1;
            }
            let s: String = serde_json::from_slice(&line[i..=j]).ok()?;
            if !lit.is_empty() {
                ps.push(Piece::Lit(std::mem::take(&mut lit)));
            }
            ps.push(Piece::Str(s));
            i = j + 1;
        } else {
            lit.push(line[i]);
            i += 1;
        }
    }
    if !lit.is_empty() {
        ps.push(Piece::Lit(lit));
    }
    Some(ps)
}

fn dots_cps(s: &str) -> String {
    s.chars().map(|c| (c as u32).to_string()).collect::<Vec<_>>().join(".")
}
/// what the model's reader of the concrete Record (Model/C19Record.v, case J) must say about the line serde wrote
/// for `r`: rejected ("N") iff serde_json rejects it; otherwise that the model's writer reprints the line exactly,
/// the lint kind (999 = configuration update), the Word(None) contents and the texts of the Number values
fn j_expected(r: &Record, back: &Option<Record>) -> String {
    if back.is_none() {
        return "N".into();
    }
    match &r.kind {
        RecordKind::Lint { kind, context } => {
            let ws: Vec<String> = context.iter().filter(|t| matches!(t.kind, TokenKind::Word(None))).map(|t| dots_cps(&t.content)).collect();
            let ns: Vec<String> = context
                .iter()
                .filter_map(|t| if let TokenKind::Number(n) = &t.kind { Some(serde_json::to_string(&n.value.0).unwrap_or_default().bytes().map(|b| b.to_string()).collect::<Vec<_>>().join(".")) } else { None })
                .collect();
            format!("1 k={} w={} n={}", kind_index(*kind), ws.join(","), ns.join(","))
        }
        RecordKind::LintConfigUpdate(_) => "1 k=999 w= n=".into(),
    }
}
/// case Q: the lines as a log through the model's read + summarize over the modelled records
fn q_expected(lines: &[Vec<u8>]) -> String {
    let mut buf = vec![];
    for l in lines {
        buf.extend_from_slice(l);
        buf.push(b'\n');
    }
    let st = match guarded(|| Stats::read(&mut &buf[..])) {
        Ok(Ok(st)) => st,
        _ => return "ERR".into(),
    };
    let sum = match guarded(|| st.summarize()) {
        Ok(s) => s,
        Err(_) => return "PANIC".into(),
    };
    let kinds: BTreeMap<usize, u32> = sum.lint_counts.iter().map(|(k, v)| (kind_index(*k), *v)).collect();
    let mut ws: Vec<(String, u32)> = sum.misspelled.iter().map(|(k, v)| (dots_cps(k), *v)).collect();
    ws.sort();
    let mut cfg: Vec<(Vec<u8>, String)> = match serde_json::to_value(&sum.final_config) {
        Ok(Value::Object(m)) => m.iter().map(|(k, v)| (k.as_bytes().to_vec(), format!("{}={}", dots_cps(k), match v { Value::Bool(true) => "1", Value::Bool(false) => "0", _ => "2" }))).collect(),
        _ => vec![],
    };
    cfg.sort();
    format!(
        "T={} K={} C={} W={}",
        sum.total_applied,
        kinds.iter().map(|(k, c)| format!("{k}:{c}")).collect::<Vec<_>>().join(","),
        cfg.iter().map(|(_, e)| e.clone()).collect::<Vec<_>>().join(";"),
        ws.iter().map(|(w, c)| format!("{w}:{c}")).collect::<Vec<_>>().join(",")
    )
}

fn has_nonfinite(r: &Record) -> bool {
    match &r.kind {
        RecordKind::Lint { context, .. } => context.iter().any(|t| matches!(&t.kind, TokenKind::Number(n) if !n.value.0.is_finite())),
        _ => false,
    }
}

/// the f64 values of the Numbers in a record's context
fn numbers_of(r: &Record) -> Vec<f64> {
    match &r.kind {
        RecordKind::Lint { context, .. } => context.iter().filter_map(|t| if let TokenKind::Number(n) = &t.kind { Some(n.value.0) } else { None }).collect(),
        _ => vec![],
    }
}

/// Diagnosis only (F29, fixed by abf6ba7; reappears when float_roundtrip is switched off again): is `read`
/// what serde_json makes of `written`, differing only in Number values whose printed decimal form it does
/// not parse back exactly?  Returns those values.
fn float_drift(written: &Record, read: &Record) -> Option<Vec<f64>> {
    if written.when != read.when || written.uuid != read.uuid {
        return None;
    }
    let (RecordKind::Lint { kind: k1, context: c1 }, RecordKind::Lint { kind: k2, context: c2 }) = (&written.kind, &read.kind) else { return None };
    if k1 != k2 || c1.len() != c2.len() {
        return None;
    }
    let mut vals = vec![];
    for (a, b) in c1.iter().zip(c2) {
        if a == b {
            continue;
        }
        if a.content != b.content {
            return None;
        }
        let (TokenKind::Number(x), TokenKind::Number(y)) = (&a.kind, &b.kind) else { return None };
        if x.suffix != y.suffix || x.radix != y.radix || x.precision != y.precision || !x.value.0.is_finite() {
            return None;
        }
        let txt = serde_json::to_string(&x.value.0).ok()?;
        let re: f64 = serde_json::from_str(&txt).ok()?;
        if re.to_bits() != y.value.0.to_bits() || re.to_bits() == x.value.0.to_bits() {
            return None;
        }
        vals.push(x.value.0);
    }
    if vals.is_empty() { None } else { Some(vals) }
}

/// Some(drifted values) when `got` equals `written` up to float drift (empty = identical)
fn equal_up_to_drift(written: &[Record], got: &[Record]) -> Option<Vec<f64>> {
    if written.len() != got.len() {
        return None;
    }
    let mut drift = vec![];
    for (w, g) in written.iter().zip(got) {
        if w != g {
            drift.extend(float_drift(w, g)?);
        }
    }
    Some(drift)
}

struct LogChecker {
    seen_lines: HashSet<Vec<u8>>,
    configs: Vec<LintGroupConfig>,
    file_no: u64,
}

impl LogChecker {
    fn new() -> Self {
        LogChecker { seen_lines: HashSet::new(), configs: vec![LintGroupConfig::default()], file_no: 0 }
    }
    fn config_id(&mut self, c: &LintGroupConfig) -> usize {
        if let Some(i) = self.configs.iter().position(|x| x == c) {
            i
        } else {
            self.configs.push(c.clone());
            self.configs.len() - 1
        }
    }

    /// one record: its line, the shape of the line (L case), the serde contract (monitored)
    fn check_record_line(&mut self, rep: &mut Report, r: &Record, outside: bool, inp: &Value) -> (Vec<u8>, Option<Record>) {
        let line = serde_json::to_vec(r).unwrap_or_default();
        let back = serde_json::from_slice::<Record>(&line).ok();
        let first = self.seen_lines.insert(line.clone());
        // contract: no LF, does not end in CR, de(ser r) = r
        if line.contains(&b'\n') || line.last() == Some(&b'\r') {
            rep.monitor("contract_violated: serialised record contains LF / ends in CR", 1);
            rep.fail("record_line", "the JSON of one record contains a raw line break".into(), inp.clone());
        } else {
            rep.monitor("contract: serialised record is LF-free and does not end in CR", 1);
        }
        match &back {
            _ if outside => rep.monitor(if back.is_none() { "outside the property (synthetic record with a non-finite Number): from_str(to_string(r)) fails" } else { "outside the property (synthetic record with a non-finite Number): from_str(to_string(r)) succeeds" }, 1),
            Some(b) if b == r => rep.monitor("contract: from_str(to_string(r)) == r", 1),
            Some(_) => rep.monitor("contract_violated: from_str(to_string(r)) is a different record", 1),
            None => rep.monitor("contract_violated: from_str(to_string(r)) fails", 1),
        }
        if first && line.len() <= 6000 {
            // J: the model's concrete Record reader / writer against this real line
            rep.case(&format!("J {}", ints(&line)), &j_expected(r, &back));
            rep.count(if back.is_some() { "record_line:model_reader_must_accept" } else { "record_line:model_reader_must_reject" });
        }
        if first {
            match pieces_of_line(&line) {
                None => rep.fail("record_shape", "serialised record is not a sequence of fragments and well-formed string literals".into(), inp.clone()),
                Some(ps) => {
                    let mut fields = vec![];
                    let mut ok = true;
                    let mut nstr = 0;
                    for p in &ps {
                        match p {
                            Piece::Lit(b) => {
                                ok &= b.iter().all(|x| (0x20..0x7f).contains(x));
                                fields.push(format!("l {}", ints(b)));
                            }
                            Piece::Str(s) => {
                                nstr += 1;
                                fields.push(format!("s {}", cps_of(s)).trim_end().to_string());
                            }
                        }
                    }
                    if line.len() <= 6000 {
                        rep.case(&format!("L {}", fields.join("|")), &ints(&line));
                    }
                    if ok {
                        rep.monitor("shape: every non-string fragment of a record is printable ASCII", 1);
                    } else {
                        rep.monitor("shape_violated: non-printable byte outside a string", 1);
                        rep.fail("record_shape", "a byte outside 0x20..0x7E occurs outside a string literal of a serialised record".into(), inp.clone());
                    }
                    rep.count_n("record_string_positions", nstr);
                }
            }
        }
        (line, back)
    }

    /// sessions of records -> real file (append mode) -> Stats::read; R and M cases; the property oracle
    ///
    /// `from_text[s][i]`: record i of session s was made from a text (RecordKind::from_lint over a linted
    /// Document) — the records the property quantifies over.  A record the harness assembled token by token
    /// is in the quantifier too as long as a text could have produced its Numbers, i.e. they are finite:
    /// the only constructors of a Number from text are lex_number (harper-core/src/lexing/mod.rs; accepts a
    /// candidate only if `is_finite()`, b5c1992) and lex_hex_number (a u64 as f64), and JSON cannot denote a
    /// non-finite number, so no imported record has one either.  A log holding a SYNTHETIC record with a
    /// non-finite Number is therefore outside the property: correspondence (R, M) only, no oracle.
    fn check_log(&mut self, rep: &mut Report, sessions: &[Vec<Record>], from_text: &[Vec<bool>], sessions_json: Option<Value>, how: &[u8], origin: &str, dir: &str) {
        rep.eval();
        let all: Vec<Record> = sessions.iter().flatten().cloned().collect();
        let all_from_text: Vec<bool> = sessions.iter().enumerate().flat_map(|(si, s)| (0..s.len()).map(move |i| (si, i))).map(|(si, i)| from_text.get(si).and_then(|f| f.get(i)).copied().unwrap_or(false)).collect();
        // the replayable input: records made from text are described by the text (so that a replay goes through
        // the real lexer and linters again), assembled ones token by token
        let inp = json!({"kind": "log", "origin": origin, "how": how,
            "sessions": sessions_json.unwrap_or_else(|| json!(sessions.iter().map(|s| s.iter().map(record_to_json).collect::<Vec<_>>()).collect::<Vec<_>>()))});
        // --- the lexer contract: every Number of a record made from text is finite (monitored; F16 if not)
        for (ri, r) in all.iter().enumerate() {
            if all_from_text[ri] {
                let ns = numbers_of(r);
                let nf = ns.iter().filter(|x| !x.is_finite()).count();
                rep.monitor("lexer: a Number in a record made from text is finite", (ns.len() - nf) as u64);
                if nf > 0 {
                    rep.monitor("lexer_violated: a record made from text holds a non-finite Number", nf as u64);
                    rep.fail("nonfinite_from_text", format!("record {ri}, made by RecordKind::from_lint from a linted text, holds a Number whose value is not finite ({:?}): JSON cannot carry it", ns), inp.clone());
                }
            }
        }
        // outside the property's quantifier: a hand-assembled record with a Number no text can produce
        let outside = all.iter().zip(&all_from_text).any(|(r, ft)| !*ft && has_nonfinite(r));
        // --- every record on its own
        let mut lines = vec![];
        let mut backs = vec![];
        for (ri, r) in all.iter().enumerate() {
            let (l, b) = self.check_record_line(rep, r, !all_from_text[ri] && has_nonfinite(r), &inp);
            lines.push(l);
            backs.push(b);
        }
        // harper-wasm style sessions re-serialise what they read: only meaningful (and only predicted by the
        // model's `sessions`) when every record satisfies the serde contract; otherwise all sessions append
        let contract_ok = all.iter().zip(&backs).all(|(r, b)| b.as_ref() == Some(r));
        let how: Vec<u8> = how.iter().map(|m| if contract_ok { *m } else { (*m).min(1) }).collect();
        // --- write the sessions
        self.file_no += 1;
        let path = format!("{dir}/log-{}.jsonl", self.file_no % 4);
        let _ = std::fs::remove_file(&path);
        let mut expected: Vec<u8> = vec![];
        let mut so_far: Vec<Record> = vec![];
        let mut prefix_ok = true;
        for (si, s) in sessions.iter().enumerate() {
            let st = Stats { records: s.clone() };
            let mode = how.get(si).copied().unwrap_or(0);
            let res: Result<(), String> = guarded(|| -> Result<(), String> {
                match mode {
                    // harper-ls save_stats
                    0 => {
                        let f = std::fs::OpenOptions::new().read(true).append(true).create(true).open(&path).map_err(|e| e.to_string())?;
                        let mut w = BufWriter::new(f);
                        st.write(&mut w).map_err(|e| e.to_string())?;
                        w.flush().map_err(|e| e.to_string())
                    }
                    // unbuffered append, one write call per fragment
                    1 => {
                        let mut f = std::fs::OpenOptions::new().append(true).create(true).open(&path).map_err(|e| e.to_string())?;
                        st.write(&mut f).map_err(|e| e.to_string())
                    }
                    // harper-wasm: import_stats_file(existing) then generate_stats_file() of everything
                    _ => {
                        let existing = std::fs::read(&path).unwrap_or_default();
                        let mut held = Stats::read(&mut &existing[..]).map_err(|e| format!("import: {e}"))?;
                        held.records.extend(s.iter().cloned());
                        let mut out = vec![];
                        held.write(&mut out).map_err(|e| e.to_string())?;
                        std::fs::write(&path, &out).map_err(|e| e.to_string())
                    }
                }
            })
            .unwrap_or_else(|p| Err(format!("panic: {p}")));
            for r in s {
                expected.extend(serde_json::to_vec(r).unwrap_or_default());
                expected.push(b'\n');
            }
            so_far.extend(s.iter().cloned());
            if let Err(e) = res {
                if mode >= 2 && e.starts_with("import") {
                    // reading the existing log failed: reported below by the read oracle
                    prefix_ok = false;
                    continue;
                }
                rep.fail("write_error", format!("writing session {si} failed: {e}"), inp.clone());
                return;
            }
            // append after append: what is on disk after session i reads back as the records so far
            if sessions.len() > 1 && si + 1 < sessions.len() {
                let bytes = std::fs::read(&path).unwrap_or_default();
                match Stats::read(&mut &bytes[..]) {
                    Ok(st) if st.records == so_far => {}
                    _ => prefix_ok = false,
                }
            }
        }
        let file = std::fs::read(&path).unwrap_or_default();
        // (1) the file is the concatenation of the sessions, each record one line
        if file != expected && prefix_ok && !outside {
            rep.fail("write_framing", format!("file after {} session(s) is not the concatenation of <record JSON> LF per record ({} vs {} bytes)", sessions.len(), file.len(), expected.len()), inp.clone());
        }
        // (2) read back
        let read = guarded(|| Stats::read(&mut std::fs::File::open(&path).unwrap()));
        let bad: Vec<usize> = all.iter().enumerate().filter(|(_, r)| has_nonfinite(r)).map(|(i, _)| i).collect();
        let impl_read: String;
        match &read {
            Ok(Ok(st)) => {
                impl_read = st.records.iter().map(|r| all.iter().position(|x| x == r).unwrap_or(OTHER).to_string()).collect::<Vec<_>>().join(" ");
                if outside {
                    // no claim (correspondence only)
                } else if st.records != all {
                    let i = st.records.iter().zip(&all).position(|(a, b)| a != b).unwrap_or(st.records.len().min(all.len()));
                    // diagnosis: serde_json's float parsing not inverting its float printing, and nothing else?
                    let cause = match equal_up_to_drift(&all, &st.records) {
                        Some(drift) if !drift.is_empty() => {
                            rep.count("log:has_float_drift");
                            format!("Number value(s) {:?} in a lint context are not re-read exactly by serde_json (its parser does not invert its own float printing: float_roundtrip off?); everything else is identical", drift)
                        }
                        _ => "unexplained".to_string(),
                    };
                    rep.fail("readback_differs", format!("read back {} records for {} written; first difference at record {i}; cause: {cause}", st.records.len(), all.len()), inp.clone());
                } else if !prefix_ok {
                    rep.fail("append_prefix", "the log read back wrongly after an intermediate session".into(), inp.clone());
                }
            }
            Ok(Err(e)) => {
                impl_read = "ERR".into();
                if !outside {
                    // diagnosis: is the failure explained by records (made from text!) with a non-finite Number?
                    let cause = if !bad.is_empty() {
                        let rest: Vec<Record> = all.iter().filter(|r| !has_nonfinite(r)).cloned().collect();
                        let mut buf = vec![];
                        let _ = Stats { records: rest.clone() }.write(&mut buf);
                        let ok = matches!(Stats::read(&mut &buf[..]), Ok(st) if st.records == rest);
                        if ok {
                            format!("non-finite Number in the context of record(s) {:?} (made from text) serialised as null; the log without them reads back correctly", bad)
                        } else {
                            "unexplained (removing the records with non-finite Numbers does not help)".to_string()
                        }
                    } else {
                        "unexplained".to_string()
                    };
                    rep.fail("read_fails", format!("Stats::read rejects the whole log of {} records: {e}; cause: {cause}", all.len()), inp.clone());
                }
            }
            Err(p) => {
                impl_read = "PANIC".into();
                rep.fail("read_panics", format!("Stats::read panicked: {p}"), inp.clone());
            }
        }
        // R case: the model is handed serde's verdict on each distinct line
        let mut fields = vec![String::new()];
        let mut seen: HashSet<&Vec<u8>> = HashSet::new();
        for (l, b) in lines.iter().zip(&backs) {
            if seen.insert(l) {
                let v: i64 = match b {
                    None => -1,
                    Some(r) => all.iter().position(|x| x == r).unwrap_or(OTHER) as i64,
                };
                fields.push(format!("t {v} {}", ints(l)));
            }
        }
        let mut k = 0;
        for (si, s) in sessions.iter().enumerate() {
            if si > 0 {
                fields.push("n".into());
            }
            for _ in s {
                fields.push(format!("r {}", ints(&lines[k])));
                k += 1;
            }
        }
        let case = format!("R {}", fields.join("|"));
        if case.len() <= 400_000 {
            rep.case(&case, &format!("{}|{}", digest(&file), impl_read).trim_end().to_string());
        }
        // Q case: the same lines through the model's reader of the concrete Record + summarize over the modelled records
        let qcase = format!("Q {}", lines.iter().map(|l| ints(l)).collect::<Vec<_>>().join("|"));
        if qcase.len() <= 200_000 && !lines.is_empty() {
            rep.case(&qcase, &q_expected(&lines));
        }
        // (3) summarize
        self.check_summary(rep, &all, &inp);
        // distribution
        rep.count(&format!("log:sessions={}", sessions.len().min(5)));
        rep.count(&format!("log:records={}", bucket(all.len())));
        if outside {
            rep.count("log:outside_property(synthetic non-finite Number; correspondence only)");
        } else if !bad.is_empty() {
            rep.count("log:has_nonfinite_number_from_text");
        }
        if all.iter().any(|r| !numbers_of(r).is_empty()) {
            rep.count("log:has_numbers");
        }
        if all.len() >= 2 && sessions.len() >= 2 {
            rep.nontrivial(&file);
        }
        if rep.samples.len() < 4 && all.len() >= 2 && file.len() < 700 {
            rep.sample(json!({"file": String::from_utf8_lossy(&file), "sessions": sessions.len(), "origin": origin}));
        }
    }

    fn check_summary(&mut self, rep: &mut Report, all: &[Record], inp: &Value) {
        let st = Stats { records: all.to_vec() };
        let sum = match guarded(|| st.summarize()) {
            Ok(s) => s,
            Err(p) => {
                rep.fail("summary", format!("summarize panicked: {p}"), inp.clone());
                return;
            }
        };
        // independent count
        let mut lints = 0u32;
        let mut per_kind: BTreeMap<usize, u32> = BTreeMap::new();
        let mut words: BTreeMap<String, u32> = BTreeMap::new();
        let mut last_cfg = LintGroupConfig::default();
        let mut fields = vec![];
        for r in all {
            match &r.kind {
                RecordKind::Lint { kind, context } => {
                    lints += 1;
                    *per_kind.entry(kind_index(*kind)).or_insert(0) += 1;
                    let mut f = format!("l {}", kind_index(*kind));
                    for t in context {
                        if let TokenKind::Word(None) = t.kind {
                            *words.entry(t.content.clone()).or_insert(0) += 1;
                            f.push(',');
                            f.push_str(&cps_of(&t.content));
                        }
                    }
                    fields.push(f);
                }
                RecordKind::LintConfigUpdate(c) => {
                    last_cfg = c.clone();
                    fields.push(format!("c {}", self.config_id(c)));
                }
            }
        }
        let got_kinds: BTreeMap<usize, u32> = sum.lint_counts.iter().map(|(k, v)| (kind_index(*k), *v)).collect();
        let got_words: BTreeMap<String, u32> = sum.misspelled.iter().map(|(k, v)| (k.clone(), *v)).collect();
        if sum.total_applied != lints {
            rep.fail("summary", format!("total_applied = {} for {} lint records", sum.total_applied, lints), inp.clone());
        } else if got_kinds.values().sum::<u32>() != lints || got_kinds != per_kind {
            rep.fail("summary", format!("lint_counts {:?} for lint records {:?}", got_kinds, per_kind), inp.clone());
        } else if sum.final_config != last_cfg {
            rep.fail("summary", "final_config is not the last configuration update".into(), inp.clone());
        } else if got_words != words {
            rep.fail("summary", format!("misspelled {:?}, expected {:?}", got_words, words), inp.clone());
        }
        for k in per_kind.keys() {
            if sum.get_count(LINT_KINDS[(*k).min(9)]) != per_kind[k] {
                rep.fail("summary", "get_count disagrees with the number of records of that kind".into(), inp.clone());
            }
        }
        // M case
        let mut ws: Vec<(String, u32)> = got_words.iter().map(|(w, c)| (w.chars().map(|c| (c as u32).to_string()).collect::<Vec<_>>().join("."), *c)).collect();
        ws.sort();
        let cfg_id = self.config_id(&sum.final_config);
        let line = format!(
            "T={} K={} C={} W={}",
            sum.total_applied,
            got_kinds.iter().map(|(k, c)| format!("{k}:{c}")).collect::<Vec<_>>().join(","),
            cfg_id,
            ws.iter().map(|(w, c)| format!("{w}:{c}")).collect::<Vec<_>>().join(",")
        );
        let case = format!("M {}", fields.join("|"));
        if case.len() <= 200_000 {
            rep.case(case.trim_end(), line.trim_end());
        }
        if lints > 0 {
            rep.count("summary:with_lints");
        }
        if !words.is_empty() {
            rep.count("summary:with_misspelt_words");
        }
    }
}

fn bucket(n: usize) -> &'static str {
    match n {
        0 => "0",
        1 => "1",
        2..=3 => "2-3",
        4..=7 => "4-7",
        8..=15 => "8-15",
        _ => "16+",
    }
}

// ------------------------------------------------------------------------------------------------
// generators
// ------------------------------------------------------------------------------------------------
const NASTY: &[&str] = &[
    "\n", "\r", "\r\n", "\n\r", "\t", "\u{8}", "\u{c}", "\u{0}", "\u{1f}", "\u{7f}", "\u{80}", "\u{85}", "\u{9f}", "\"", "\\", "\\n", "\\\"", "\\u0000",
    "\\u000a", "\u{2028}", "\u{2029}", "\u{feff}", "\u{fffe}", "\u{ffff}", "\u{10ffff}", "\u{10000}", "\u{d7ff}", "\u{e000}", "😀", "é", "ß", "中", "/", "</script>",
    "{\"kind\":", "}\n{", "null", "\u{1b}[0m", "\u{b}", "\u{e}", "a\rb", "line1\nline2", "tab\there", "\"quoted\"", "C:\\path\\n",
];

fn gen_string(r: &mut Rng) -> String {
    let mut s = String::new();
    let n = match r.below(10) {
        0 => 0,
        1..=5 => r.range(1, 4),
        6..=8 => r.range(3, 12),
        _ => r.range(10, 40),
    };
    for _ in 0..n {
        match r.below(12) {
            0..=3 => s.push_str(r.s(NASTY)),
            4 => s.push(char::from_u32(r.below(0x20) as u32).unwrap()),
            5 => s.push_str(r.s(gen::COMMON)),
            6 => s.push_str(r.s(gen::NONASCII)),
            7 => s.push(' '),
            8 => {
                let c = match r.below(4) {
                    0 => 0x80 + r.below(0x780),
                    1 => 0x800 + r.below(0xD000),
                    2 => 0xE000 + r.below(0x2000),
                    _ => 0x10000 + r.below(0x100000),
                } as u32;
                if let Some(ch) = char::from_u32(c) {
                    s.push(ch);
                }
            }
            9 => s.push_str(r.s(gen::QUOTES)),
            10 => s.push((0x20 + r.below(0x5f) as u8) as char),
            _ => s.push_str(r.s(gen::MISSPELT)),
        }
    }
    s
}

const FLOATS: &[f64] = &[
    0.0, -0.0, 1.0, 21.0, 1990.0, 0.1, 0.3, 1e21, 1e22, 1e23, 1.7976931348623157e308, 5e-324, 2.2250738585072014e-308, 2.225073858507201e-308,
    9007199254740993.0, 0.30000000000000004, 123456789.123456789, 1e-7, 6.02214076e23, 4.35, 2.675, 1e300, 8.41e21, 2.3e-308, 5.764607523034235e39,
    9.5367431640625e-7, 1.0e-10, 3.141592653589793, 2.638344616030823e-256, 1.448997445238699,
];

fn gen_number(r: &mut Rng, allow_nonfinite: bool) -> Number {
    let v = match r.below(10) {
        0..=2 => *r.pick(FLOATS),
        3..=4 => r.below(3000) as f64,
        5 => (r.below(100000) as f64) / 100.0,
        6..=7 => {
            // a finite float with random bits
            let mut x = f64::from_bits(r.next());
            if !x.is_finite() {
                x = 1.5;
            }
            x
        }
        8 => {
            // what lex_number produces: the f64 nearest to a decimal string
            let s = format!("{}.{}e{}", r.below(1000), r.below(100000000), r.below(60) as i64 - 30);
            s.parse::<f64>().unwrap_or(1.0)
        }
        _ => {
            if allow_nonfinite {
                *r.pick(&[f64::INFINITY, f64::NEG_INFINITY, f64::NAN])
            } else {
                7.0
            }
        }
    };
    Number {
        value: v.into(),
        suffix: *r.pick(&[None, None, Some(NumberSuffix::Th), Some(NumberSuffix::St), Some(NumberSuffix::Nd), Some(NumberSuffix::Rd)]),
        radix: *r.pick(&[10u32, 10, 16]),
        precision: r.below(4),
    }
}

fn gen_token(r: &mut Rng, dict: &FstDictionary, nonfinite: bool) -> FatStringToken {
    let kind = match r.below(14) {
        0..=2 => TokenKind::Word(None),
        3..=4 => {
            let w = r.s(gen::COMMON);
            TokenKind::Word(dict.get_word_metadata_str(w).cloned())
        }
        5 => { let tl = r.below(50); TokenKind::Punctuation(*r.pick(&[
            Punctuation::Period,
            Punctuation::Comma,
            Punctuation::Quote(harper_core::Quote { twin_loc: Some(tl) }),
            Punctuation::Quote(harper_core::Quote { twin_loc: None }),
            Punctuation::Backslash,
            Punctuation::Hyphen,
            Punctuation::Ellipsis,
            Punctuation::Currency(harper_core::Currency::Dollar),
        ])) }
        6..=7 => TokenKind::Number(gen_number(r, nonfinite)),
        8 => TokenKind::Space(r.range(1, 5)),
        9 => TokenKind::Newline(r.range(1, 3)),
        10 => [TokenKind::Decade, TokenKind::EmailAddress, TokenKind::Url, TokenKind::Hostname][r.below(4)].clone(),
        11 => TokenKind::Unlintable,
        12 => TokenKind::ParagraphBreak,
        _ => TokenKind::Regexish,
    };
    let content = match &kind {
        TokenKind::Space(n) => " ".repeat(*n),
        TokenKind::Newline(n) => "\n".repeat(*n),
        TokenKind::ParagraphBreak => r.s(&["\n\n", "\r\n\r\n", "\n \n"]).to_string(),
        TokenKind::Unlintable => gen_string(r),
        TokenKind::Word(None) => {
            if r.chance(1, 2) {
                r.s(gen::MISSPELT).to_string()
            } else {
                gen_string(r)
            }
        }
        _ => {
            if r.chance(1, 3) {
                gen_string(r)
            } else {
                r.s(gen::COMMON).to_string()
            }
        }
    };
    FatStringToken { content, kind }
}

fn gen_config(r: &mut Rng) -> LintGroupConfig {
    let mut c = LintGroupConfig::default();
    for _ in 0..r.below(5) {
        let key = match r.below(4) {
            0 => gen_string(r),
            _ => r.s(&["SpellCheck", "SentenceCapitalization", "LongSentences", "RepeatedWords", "Spaces", "AnA"]).to_string(),
        };
        if r.chance(1, 5) {
            // an entry explicitly unset: only reachable through deserialisation
            let mut v = serde_json::to_value(&c).unwrap();
            v[key.as_str()] = Value::Null;
            c = serde_json::from_value(v).unwrap_or(c);
        } else {
            c.set_rule_enabled(key, r.chance(1, 2));
        }
    }
    c
}

fn gen_record(r: &mut Rng, dict: &FstDictionary, nonfinite: bool) -> Record {
    let when = match r.below(6) {
        0 => *r.pick(&[0i64, -1, i64::MAX, i64::MIN, 1 << 53, 1_700_000_000]),
        _ => 1_600_000_000 + r.below(200_000_000) as i64,
    };
    let uuid = ((r.next() as u128) << 64) | r.next() as u128;
    let kind = if r.chance(1, 5) {
        RecordKind::LintConfigUpdate(gen_config(r))
    } else {
        let n = match r.below(8) {
            0 => 0,
            1..=5 => r.range(1, 4),
            _ => r.range(4, 9),
        };
        RecordKind::Lint { kind: *r.pick(&LINT_KINDS), context: (0..n).map(|_| gen_token(r, dict, nonfinite)).collect() }
    };
    mk_record(kind, when, uuid)
}

fn gen_sessions(r: &mut Rng, dict: &FstDictionary, nonfinite: bool) -> Vec<Vec<Record>> {
    let ns = match r.below(8) {
        0 => 1,
        1..=4 => 2,
        5..=6 => 3,
        _ => r.range(4, 6),
    };
    (0..ns)
        .map(|_| {
            let n = match r.below(8) {
                0 => 0,
                1..=5 => r.range(1, 3),
                _ => r.range(3, 8),
            };
            (0..n).map(|_| gen_record(r, dict, nonfinite)).collect()
        })
        .collect()
}

fn flags(ss: &[Vec<Record>], v: bool) -> Vec<Vec<bool>> {
    ss.iter().map(|s| vec![v; s.len()]).collect()
}

fn gen_how(r: &mut Rng, n: usize) -> Vec<u8> {
    (0..n).map(|_| *r.pick(&[0u8, 0, 0, 0, 1, 2])).collect()
}

fn gen_json_literal(r: &mut Rng) -> Vec<u8> {
    // mostly well-formed JSON string literals, then damaged
    let mut b: Vec<u8> = vec![];
    if r.chance(1, 8) {
        b.extend(r.s(&[" ", "\n", "\t ", "\r\n"]).as_bytes());
    }
    b.push(b'"');
    for _ in 0..r.below(7) {
        match r.below(12) {
            0 => b.extend(r.s(&["\\n", "\\r", "\\t", "\\b", "\\f", "\\\"", "\\\\", "\\/"]).as_bytes()),
            1 => b.extend(format!("\\u{:04x}", r.below(0x10000)).as_bytes()),
            2 => b.extend(format!("\\u{:04X}", r.below(0x20)).as_bytes()),
            3 => b.extend(format!("\\u{:04x}\\u{:04x}", 0xD800 + r.below(0x400), 0xDC00 + r.below(0x400)).as_bytes()),
            4 => b.extend(format!("\\u{:04x}", 0xD800 + r.below(0x800)).as_bytes()),
            5 => b.extend(r.s(&["\\x", "\\u12", "\\u12g4", "\\", "\\ud800\\n", "\\ud800\\u0041", "\\udc00\\ud800", "\\U0041", "\\u 041"]).as_bytes()),
            6 => b.push(r.below(0x20) as u8),
            7 => b.extend(r.s(&["é", "😀", "\u{2028}", "中"]).as_bytes()),
            8 => b.push(*r.pick(&[0x80u8, 0xC0, 0xFF, 0xED, 0xA0, 0xF4, 0x90, 0xC3, 0xE2])),
            _ => b.push(0x20 + r.below(0x5f) as u8),
        }
    }
    match r.below(10) {
        0 => {}
        1 => b.extend(b"\"x"),
        2 => b.extend(b"\" \n"),
        _ => b.push(b'"'),
    }
    b
}

fn gen_line_bytes(r: &mut Rng) -> Vec<u8> {
    let mut b = vec![];
    for _ in 0..r.below(14) {
        match r.below(10) {
            0..=1 => b.push(b'\n'),
            2 => b.push(b'\r'),
            3 => b.extend(b"\r\n"),
            4 => b.extend(r.s(&["é", "😀", "\u{2028}", "\u{85}", "\u{7ff}", "\u{800}", "\u{ffff}", "\u{10000}", "\u{10ffff}", "\u{d7ff}", "\u{e000}"]).as_bytes()),
            5 => b.push(*r.pick(&[0x80u8, 0xBF, 0xC0, 0xC1, 0xC2, 0xDF, 0xE0, 0xED, 0xEF, 0xF0, 0xF4, 0xF5, 0xF8, 0xFF, 0xA0, 0x9F, 0x90, 0x8F])),
            6 => b.push(r.below(256) as u8),
            _ => b.push(b'a' + r.below(3) as u8),
        }
    }
    b
}

// ------------------------------------------------------------------------------------------------
// the real front ends: harper-ls (code action -> HarperRecordLint -> shutdown/save_stats, session after
// session on one statsPath) and harper-wasm (apply_suggestion -> generate_stats_file / import_stats_file)
// ------------------------------------------------------------------------------------------------
fn kinds_of(recs: &[Record]) -> Vec<RecordKind> {
    recs.iter().map(|r| r.kind.clone()).collect()
}
fn kind_has_nonfinite(k: &RecordKind) -> bool {
    match k {
        RecordKind::Lint { context, .. } => context.iter().any(|t| matches!(&t.kind, TokenKind::Number(n) if !n.value.0.is_finite())),
        _ => false,
    }
}

/// texts: one list of single-line texts per editor session; in each, the first lint found under a few
/// cursor positions is "applied" (its code action's command is executed), then the server is shut down.
fn check_ls_sessions(rep: &mut Report, texts: &[Vec<String>], picks: &[usize], dir: &str, origin: &str) {
    use lsclient::*;
    use lsx::tower_lsp::LanguageServer;
    rep.eval();
    let inp = json!({"kind": "ls", "texts": texts, "picks": picks, "origin": origin});
    let root = format!("{dir}/ls");
    let _ = std::fs::remove_dir_all(&root);
    let _ = std::fs::create_dir_all(&root);
    let stats_path = format!("{root}/nested/dir/stats.txt");
    let st = settings(&format!("{root}/dict.txt"), &format!("{root}/fd"), &stats_path, json!({}));
    let rt = runtime();
    let _g = rt.enter();
    let mut applied: Vec<RecordKind> = vec![]; // every lint the user applied, in order
    let mut accepted: Vec<RecordKind> = vec![]; // those whose command argument the server could parse
    let mut dropped = 0;
    for (si, sess_texts) in texts.iter().enumerate() {
        let mut s = Session::new(st.clone());
        for (ti, text) in sess_texts.iter().enumerate() {
            let uri = format!("file:///c19/s{si}t{ti}.txt");
            if !s.did_open(&uri, "plaintext", text) {
                rep.fail("ls_stuck", "didOpen did not complete".into(), inp.clone());
                return;
            }
            let n16 = text.encode_utf16().count();
            for p in picks.iter() {
                let col = if n16 == 0 { 0 } else { p % n16 } as u32;
                let params: lsx::tower_lsp::lsp_types::CodeActionParams = match serde_json::from_value(json!({
                    "textDocument": {"uri": uri}, "range": {"start": {"line": 0, "character": col}, "end": {"line": 0, "character": col}},
                    "context": {"diagnostics": []}})) {
                    Ok(p) => p,
                    Err(_) => continue,
                };
                let acts = guarded(|| rt.block_on(s.backend().code_action(params)));
                let Ok(Ok(Some(acts))) = acts else { continue };
                let v = serde_json::to_value(&acts).unwrap_or(Value::Null);
                let arg = v.as_array().and_then(|a| {
                    a.iter().find_map(|x| if x["command"]["command"] == "HarperRecordLint" { x["command"]["arguments"][0].as_str().map(|s| s.to_string()) } else { None })
                });
                let Some(arg) = arg else { continue };
                // what the user applied: the lint under the cursor; its kind as harper-ls itself describes it
                if !s.command("HarperRecordLint", vec![json!(arg)]) {
                    rep.fail("ls_stuck", "executeCommand did not complete".into(), inp.clone());
                    return;
                }
                match serde_json::from_str::<RecordKind>(&arg) {
                    Ok(k) => {
                        applied.push(k.clone());
                        accepted.push(k);
                    }
                    Err(_) => {
                        dropped += 1;
                        // re-derive what was applied from the document itself is not possible here; count only
                    }
                }
            }
        }
        // `shutdown` takes no parameters: tower-lsp answers "invalid params" (and never calls the handler) when
        // a params member — even null — is present, so the request is built here rather than by Session::request
        {
            use lsx::tower::Service;
            let req = lsx::tower_lsp::jsonrpc::Request::build("shutdown").id(1_000_000 + si as i64).finish();
            let fut = s.service.call(req);
            if !s.drive(Box::pin(async move { fut.await.ok().flatten() })) {
                rep.fail("ls_stuck", "shutdown did not complete".into(), inp.clone());
                return;
            }
        }
        drop(s);
        // append after append: after every session the file holds everything applied so far
        let bytes = std::fs::read(&stats_path).unwrap_or_default();
        match Stats::read(&mut &bytes[..]) {
            Ok(stt) => {
                let got = kinds_of(&stt.records);
                if got != accepted {
                    rep.fail("ls_log", format!("after session {si} the log holds {} records, {} lints were applied and accepted; first difference at {}", got.len(), accepted.len(),
                        got.iter().zip(&accepted).position(|(a, b)| a != b).unwrap_or(got.len().min(accepted.len()))), inp.clone());
                    return;
                }
                let uu: HashSet<String> = stt.records.iter().map(|r| serde_json::to_string(&r.uuid).unwrap_or_default()).collect();
                if uu.len() != stt.records.len() {
                    rep.fail("ls_log", "two records of the log share a uuid (a record was written twice)".into(), inp.clone());
                    return;
                }
                let sum = stt.summarize();
                if sum.total_applied as usize != accepted.iter().filter(|k| matches!(k, RecordKind::Lint { .. })).count() {
                    rep.fail("ls_log", "summarize of the log does not count each applied lint once".into(), inp.clone());
                    return;
                }
                if !bytes.is_empty() && bytes.last() != Some(&b'\n') {
                    rep.fail("ls_log", "the log does not end in LF after a session".into(), inp.clone());
                    return;
                }
            }
            Err(e) => {
                let cause = if accepted.iter().any(kind_has_nonfinite) { "non-finite Number" } else { "unexplained" };
                rep.fail("ls_log", format!("the log written by harper-ls does not read back after session {si}: {e}; cause: {cause}"), inp.clone());
                return;
            }
        }
    }
    if dropped > 0 {
        rep.fail("ls_record_dropped", format!("{dropped} applied lint(s) were not recorded: harper-ls could not parse the RecordKind JSON it had put into its own code action (null where an f64 is expected: non-finite Number in the lint's context)"), inp.clone());
    }
    rep.count(&format!("ls:sessions={}", texts.len()));
    rep.count_n("ls:lints_applied", applied.len() as u64 + dropped as u64);
    if applied.len() >= 2 && texts.len() >= 2 {
        rep.nontrivial(&format!("{:?}", inp));
    }
    let _ = std::fs::remove_dir_all(&root);
}

/// harper-wasm natively: two linters apply suggestions and export their stats; a third imports both files
fn check_wasm(rep: &mut Report, texts: &[Vec<String>], origin: &str) {
    use harper_wasm::{Dialect as WDialect, Language, Linter as WLinter};
    rep.eval();
    let inp = json!({"kind": "wasm", "texts": texts, "origin": origin});
    let mut files: Vec<String> = vec![];
    let mut kinds: Vec<String> = vec![];
    for sess in texts {
        let r = guarded(|| {
            let mut l = WLinter::new(WDialect::American);
            let mut ks = vec![];
            for text in sess {
                let lints = l.lint(text.clone(), Language::Plain);
                for lint in lints.iter().take(3) {
                    if let Some(sug) = lint.suggestions().first() {
                        if l.apply_suggestion(text.clone(), lint, sug).is_ok() {
                            ks.push(lint.lint_kind());
                        }
                    }
                }
            }
            (l.generate_stats_file(), ks)
        });
        match r {
            Ok((f, ks)) => {
                files.push(f);
                kinds.extend(ks);
            }
            Err(p) => {
                rep.fail("wasm_panic", format!("harper-wasm panicked while linting / applying / exporting: {p}"), inp.clone());
                return;
            }
        }
    }
    let merged = guarded(|| {
        let mut l = WLinter::new(WDialect::American);
        for f in &files {
            l.import_stats_file(f.clone())?;
        }
        Ok::<String, String>(l.generate_stats_file())
    });
    let expected: String = files.concat();
    match merged {
        Ok(Ok(m)) => {
            if m != expected {
                rep.fail("wasm_log", "importing the exported files one after the other and exporting again is not their concatenation".into(), inp.clone());
                return;
            }
            match Stats::read(&mut m.as_bytes()) {
                Ok(st) => {
                    let got: Vec<String> = st.records.iter().map(|r| match &r.kind { RecordKind::Lint { kind, .. } => kind.to_string(), _ => "cfg".into() }).collect();
                    let want: Vec<String> = kinds.iter().map(|k| LintKind::new_from_str(k).map(|k| k.to_string()).unwrap_or(k.clone())).collect();
                    if got.len() != kinds.len() || st.summarize().total_applied as usize != kinds.len() {
                        rep.fail("wasm_log", format!("{} suggestions applied, {} records in the merged log", kinds.len(), got.len()), inp.clone());
                    } else if got != want && kinds.iter().all(|k| LintKind::new_from_str(k).is_some()) {
                        rep.fail("wasm_log", "the kinds of the merged log are not the kinds of the applied lints in order".into(), inp.clone());
                    }
                }
                Err(e) => rep.fail("wasm_log", format!("merged log does not read back: {e}"), inp.clone()),
            }
        }
        Ok(Err(e)) => {
            let cause = if e.contains("invalid type: null, expected f64") && files.iter().any(|f| f.contains("\"value\":{\"value\":null")) {
                "a lint whose context holds a non-finite Number was exported with null"
            } else {
                "unexplained"
            };
            rep.fail("wasm_import_fails", format!("import_stats_file rejects a file produced by generate_stats_file: {e}; cause: {cause}"), inp.clone());
        }
        Err(p) => rep.fail("wasm_panic", format!("harper-wasm panicked while importing: {p}"), inp.clone()),
    }
    rep.count(&format!("wasm:files={}", files.len()));
    rep.count_n("wasm:suggestions_applied", kinds.len() as u64);
}


// ------------------------------------------------------------------------------------------------
// Numbers: the two contracts the record round trip now rests on
//   (lexer)  a Number made from text is finite      — lex_number (is_finite filter, b5c1992), lex_hex_number (u64)
//   (float)  serde_json re-reads every finite f64 it prints, bit for bit — float_roundtrip (abf6ba7)
// ------------------------------------------------------------------------------------------------
/// the contract `float_rt` of C19_record_* / C19_text_log_*: the text serde_json prints for a finite f64 is non-empty,
/// consists of the characters of a JSON number ([0-9+-.eE], what the model's reader hands to the float parser as one
/// token) and is read back as the same f64, bit for bit
fn float_rereads_exactly(x: f64) -> bool {
    let Ok(t) = serde_json::to_string(&x) else { return false };
    if t.is_empty() || !t.bytes().all(|b| b.is_ascii_digit() || matches!(b, b'+' | b'-' | b'.' | b'e' | b'E')) {
        return false;
    }
    match serde_json::from_str::<f64>(&t) {
        Ok(y) => y.to_bits() == x.to_bits(),
        Err(_) => false,
    }
}

/// texts holding number literals at the edges of f64, mostly with an upper-case ordinal suffix (which makes
/// a lint touch the number, so that the Number lands in a record's context)
fn gen_number_text(r: &mut Rng) -> String {
    const EDGE: &[&str] = &[
        "1e999", "1e309", "1e308", "2e308", "1.8e308", "1.7976931348623157e308", "1.7976931348623158e308", "1.7976931348623159e308",
        "17976931348623157e292", "17976931348623159e292", "179769313486231580793728971405303415079934132710037826936173778980444968292764750946649017977587207096330286416692887910946555547851940402630657488671505820681908902000708383676273854845817711531764475730270069855571366959622842914819860834936475292719074168444365510704342711559699508093042880177904174497792",
        "179769313486231570814527423731704356798070567525844996598917476803157260780028538760589558632766878171540458953514382464234321326889464182768467546703537516986049910576551282076245490090389328944075868508455133942304583236903222948165808559332123348274797826204144723168738177180919299881250404026184124858368",
        "1e-400", "4.9e-324", "2.2250738585072014e-308", "1.5632780128606819e192", "9007199254740993", "0.30000000000000004", "5e-324", "1e23", "8.41e21",
        "1E999", "1e+999", "1.e999", "9e999e9", "1e99999999999", "0xFFFFFFFFFFFFFFFF", "0xFFFFFFFFFFFFF800", "0x1e999", "1e999.5", "123456789012345678901234567890",
    ];
    let num = match r.below(10) {
        0..=3 => r.s(EDGE).to_string(),
        4..=5 => {
            // mantissa [. fraction] e exponent, exponents up to 400
            let mut t = format!("{}", 1 + r.below(999));
            if r.chance(1, 2) {
                t.push('.');
                for _ in 0..r.below(18) {
                    t.push((b'0' + r.below(10) as u8) as char);
                }
            }
            t.push(*r.pick(&['e', 'E']));
            if r.chance(1, 4) {
                t.push(*r.pick(&['+', '-']));
            }
            t.push_str(&format!("{}", match r.below(4) { 0 => r.below(30), 1 => 290 + r.below(30), 2 => r.below(400), _ => 300 + r.below(700) }));
            t
        }
        6 => {
            // a long run of digits (up to beyond 2^1024)
            let n = match r.below(3) { 0 => r.range(15, 25), 1 => r.range(300, 312), _ => r.range(305, 330) };
            let mut t = String::new();
            t.push((b'1' + r.below(9) as u8) as char);
            for _ in 1..n {
                t.push((b'0' + r.below(10) as u8) as char);
            }
            t
        }
        7 => {
            // the shortest decimal form of a random finite f64: every finite f64 is reachable from text
            let mut x = f64::from_bits(r.next() & 0x7FFF_FFFF_FFFF_FFFF);
            if !x.is_finite() {
                x = f64::MAX;
            }
            format!("{:e}", x)
        }
        8 => format!("0x{:X}", r.next() >> r.below(64)),
        _ => format!("{}", r.below(3000)),
    };
    let suffix = match r.below(10) {
        0..=5 => *r.pick(&["TH", "ST", "ND", "RD", "Th", "tH"]),
        6..=7 => *r.pick(&["th", "st", "nd", "rd"]),
        _ => "",
    };
    match r.below(4) {
        0 => format!("{num}{suffix}"),
        1 => format!("This is the {num}{suffix} time I tell you."),
        2 => format!("{num}{suffix} and {}TH", r.s(EDGE)),
        _ => format!("It happened on the {num}{suffix}, {}.", gen::clean_sentence(r)),
    }
}

/// a text with number literals: (lexer) on every Number token of the Document, (float) on its value, then the
/// records of its lints through a log
fn check_number_text(rep: &mut Report, lc: &mut LogChecker, cx: &mut Ctx, text: &str, origin: &str, dir: &str) {
    let inp = json!({"kind": "numtext", "text": text, "origin": origin});
    let dict = cx.dict.clone();
    let nums: Vec<f64> = guarded(|| {
        let doc = Document::new_plain_english(text, &dict);
        doc.get_tokens().iter().filter_map(|t| if let TokenKind::Number(n) = &t.kind { Some(n.value.0) } else { None }).collect::<Vec<f64>>()
    })
    .unwrap_or_default();
    for x in &nums {
        if x.is_finite() {
            rep.monitor("lexer: a Number token lexed from text is finite", 1);
            if float_rereads_exactly(*x) {
                rep.monitor("float: serde_json re-reads the finite f64 it printed bit for bit", 1);
            } else {
                rep.monitor("float_violated: a finite f64 is not re-read exactly", 1);
            }
        } else {
            rep.monitor("lexer_violated: a Number token lexed from text is not finite", 1);
            rep.fail("nonfinite_from_text", format!("the lexer made a Number whose value is {x} from this text: JSON (the statistics log, the code action of harper-ls) cannot carry it"), inp.clone());
        }
    }
    check_doc_numbers(rep, cx, text, origin);
    rep.count(if nums.is_empty() { "numtext:no_number" } else if nums.iter().any(|x| *x > 1e300) { "numtext:number_above_1e300" } else { "numtext:number" });
    let d = json!({"t": "doc", "text": text, "when": 1_700_000_000, "uuid": uuid_string(0x1900), "take": 12});
    let recs = cx.records_from_json(&d);
    if recs.iter().any(|r| !numbers_of(r).is_empty()) {
        rep.count("numtext:lint_context_holds_a_number");
    }
    let cfg = mk_record(RecordKind::LintConfigUpdate(LintGroupConfig::default()), 7, 3);
    let ss = vec![recs, vec![cfg]];
    let sj = json!([[d], [{"t": "cfg", "entries": {}, "when": 7, "uuid": uuid_string(3)}]]);
    lc.check_log(rep, &ss, &flags(&ss, true), Some(sj), &[0, 0], origin, dir);
}

/// (float) on one value; a violation is turned into a concrete failing log (a lint record whose context holds
/// a Number with that value — every finite f64 is what lex_number makes of its shortest decimal form)
fn check_float(rep: &mut Report, lc: &mut LogChecker, x: f64, shown: &mut usize, dir: &str) {
    if !x.is_finite() {
        return;
    }
    if float_rereads_exactly(x) {
        rep.monitor("float: serde_json re-reads the finite f64 it printed bit for bit", 1);
        return;
    }
    rep.monitor("float_violated: a finite f64 is not re-read exactly", 1);
    if *shown < 3 {
        *shown += 1;
        let tok = FatStringToken { content: format!("{:e}", x), kind: TokenKind::Number(Number { value: x.into(), suffix: None, radix: 10, precision: 0 }) };
        let ss = vec![vec![mk_record(RecordKind::Lint { kind: LintKind::Miscellaneous, context: vec![tok] }, 6, 2)]];
        lc.check_log(rep, &ss, &flags(&ss, false), None, &[0], "float_contract", dir);
    }
}

/// import: no JSON text denotes a non-finite Number, so a record read from a log / an editor never holds one
fn check_json_nonfinite(rep: &mut Report) {
    let tok = FatStringToken { content: "7".into(), kind: TokenKind::Number(Number { value: 1.5.into(), suffix: None, radix: 10, precision: 0 }) };
    let r = mk_record(RecordKind::Lint { kind: LintKind::Miscellaneous, context: vec![tok] }, 6, 2);
    let line = serde_json::to_string(&r).unwrap_or_default();
    for lit in ["1e999", "-1e999", "1e309", "1.7976931348623159e308", "NaN", "Infinity", "-Infinity", "inf", "null", "\"inf\"", "1e99999999999999999999"] {
        let l = line.replace("\"value\":1.5", &format!("\"value\":{lit}"));
        if l == line {
            rep.fail("json_nonfinite", "the probe line has no \"value\":1.5 member any more (harness out of date)".into(), json!({"kind": "none"}));
            return;
        }
        match serde_json::from_str::<Record>(&l) {
            Ok(rec) if has_nonfinite(&rec) => {
                rep.monitor("import_violated: a JSON line was read as a record with a non-finite Number", 1);
                rep.fail("json_nonfinite", format!("serde_json reads the line with \"value\":{lit} as a record holding a non-finite Number"), json!({"kind": "none", "line": l}));
            }
            _ => rep.monitor("import: a JSON line never reads as a record with a non-finite Number", 1),
        }
    }
}

fn gen_line_text(r: &mut Rng) -> String {
    let t = match r.below(4) {
        0 => gen::sentence(r),
        1 => {
            let c = gen::any_construct(r);
            gen::placed(r, c)
        }
        2 => format!("{} {}", gen::sentence(r), gen::sentence(r)),
        _ => gen::clean_sentence(r),
    };
    t.replace(['\n', '\r'], " ")
}


// ------------------------------------------------------------------------------------------------
// phase 4 (a): the Numbers of the document are the lexer's (C19_document_number_values, on the implementation)
// ------------------------------------------------------------------------------------------------
fn check_doc_numbers(rep: &mut Report, cx: &Ctx, text: &str, origin: &str) {
    use harper_core::parsers::{Parser, PlainEnglish};
    let inp = json!({"kind": "docnum", "text": text, "origin": origin});
    let dict = cx.dict.clone();
    let res = guarded(|| {
        let cs: Vec<char> = text.chars().collect();
        let lexed: Vec<(u64, u32, usize)> = PlainEnglish.parse(&cs).iter().filter_map(|t| if let TokenKind::Number(n) = &t.kind { Some((n.value.0.to_bits(), n.radix, n.precision)) } else { None }).collect();
        let doc = Document::new_plain_english(text, &dict);
        let docn: Vec<(u64, u32, usize, bool)> = doc.get_tokens().iter().filter_map(|t| if let TokenKind::Number(n) = &t.kind { Some((n.value.0.to_bits(), n.radix, n.precision, n.suffix.is_some())) } else { None }).collect();
        (lexed, docn)
    });
    let Ok((lexed, docn)) = res else { return };
    for d in &docn {
        if lexed.contains(&(d.0, d.1, d.2)) {
            rep.monitor("doc_numbers: a Number token of the document has the value, radix and precision of a Number token of the lexer", 1);
            if d.3 {
                rep.count("docnum:number_with_suffix");
            }
        } else {
            rep.monitor("doc_numbers_violated: a pass of Document::parse built or changed a Number", 1);
            rep.fail("doc_number_not_lexed", format!("the document holds a Number (value {:?}, radix {}, precision {}) that PlainEnglish::parse did not make from this text (lexer Numbers: {:?}): a pass of Document::parse built or changed a Number value", f64::from_bits(d.0), d.1, d.2, lexed.iter().map(|l| f64::from_bits(l.0)).collect::<Vec<_>>()), inp.clone());
        }
    }
    rep.count(if docn.is_empty() { "docnum:no_number" } else if docn.len() == lexed.len() { "docnum:numbers" } else { "docnum:numbers_fewer_than_lexed" });
}

// ------------------------------------------------------------------------------------------------
// phase 4 (b): two save_stats sessions at the same time (BufWriter chunks, O_APPEND)
// ------------------------------------------------------------------------------------------------
/// sits between Stats::write and the BufWriter: the fragments the serializer hands over
struct FragLog<W: Write> {
    inner: W,
    lens: Vec<usize>,
}
impl<W: Write> Write for FragLog<W> {
    fn write(&mut self, b: &[u8]) -> std::io::Result<usize> {
        let n = self.inner.write(b)?;
        self.lens.push(n);
        Ok(n)
    }
    fn write_all(&mut self, b: &[u8]) -> std::io::Result<()> {
        self.lens.push(b.len());
        self.inner.write_all(b)
    }
    fn flush(&mut self) -> std::io::Result<()> {
        self.inner.flush()
    }
}
/// sits below the BufWriter: one entry per write call = one write(2) on the descriptor
struct ChunkSink {
    chunks: Vec<Vec<u8>>,
}
impl Write for ChunkSink {
    fn write(&mut self, b: &[u8]) -> std::io::Result<usize> {
        self.chunks.push(b.to_vec());
        Ok(b.len())
    }
    fn flush(&mut self) -> std::io::Result<()> {
        Ok(())
    }
}
/// Stats::write through the real std BufWriter (cap = None: BufWriter::new as in save_stats): fragment lengths, chunks
fn session_chunks(records: &[Record], cap: Option<usize>) -> Option<(Vec<usize>, Vec<Vec<u8>>)> {
    let st = Stats { records: records.to_vec() };
    guarded(|| {
        let sink = ChunkSink { chunks: vec![] };
        let bw = match cap {
            None => BufWriter::new(sink),
            Some(c) => BufWriter::with_capacity(c, sink),
        };
        let mut fl = FragLog { inner: bw, lens: vec![] };
        st.write(&mut fl).ok()?;
        fl.flush().ok()?;
        let lens = fl.lens;
        let sink = fl.inner.into_inner().ok()?;
        Some((lens, sink.chunks))
    })
    .ok()
    .flatten()
}
fn open_like_save_stats(path: &str) -> std::io::Result<std::fs::File> {
    std::fs::OpenOptions::new().read(true).append(true).create(true).open(path)
}
/// the order of the write(2) calls: the same rule as C19Concurrent.interleave_by
fn interleave_by<T: Clone>(sched: &[bool], a: &[T], b: &[T]) -> Vec<(bool, T)> {
    let (mut i, mut j, mut k) = (0, 0, 0);
    let mut out = vec![];
    loop {
        if i == a.len() {
            out.extend(b[j..].iter().cloned().map(|x| (false, x)));
            return out;
        }
        if j == b.len() {
            out.extend(a[i..].iter().cloned().map(|x| (true, x)));
            return out;
        }
        if k == sched.len() {
            out.extend(a[i..].iter().cloned().map(|x| (true, x)));
            out.extend(b[j..].iter().cloned().map(|x| (false, x)));
            return out;
        }
        if sched[k] {
            out.push((true, a[i].clone()));
            i += 1;
        } else {
            out.push((false, b[j].clone()));
            j += 1;
        }
        k += 1;
    }
}
const BUFWRITER_CAP: usize = 8192;
/// Two processes run save_stats on the same statsPath at the same time.  Each session goes through the real Stats::write
/// and the real std BufWriter (which decide the write(2) calls); the calls are then issued on two real descriptors opened
/// exactly as save_stats opens them, in the order the schedule says.  cap == 8192 is save_stats itself (judged by the
/// oracle); other capacities exercise the BufWriter model only (correspondence B / C).
fn check_concurrent(rep: &mut Report, old: &[Record], a: &[Record], b: &[Record], sched: &[bool], cap: usize, origin: &str, dir: &str) {
    rep.eval();
    let inp = json!({"kind": "concurrent", "origin": origin, "cap": cap,
        "old": old.iter().map(record_to_json).collect::<Vec<_>>(), "a": a.iter().map(record_to_json).collect::<Vec<_>>(),
        "b": b.iter().map(record_to_json).collect::<Vec<_>>(), "sched": sched.iter().map(|x| *x as u8).collect::<Vec<_>>()});
    let bw_cap = if cap == BUFWRITER_CAP { None } else { Some(cap) };
    let (Some((fa, ca)), Some((fb, cb))) = (session_chunks(a, bw_cap), session_chunks(b, bw_cap)) else {
        rep.fail("write_error", "Stats::write through a BufWriter failed".into(), inp);
        return;
    };
    // B: the model's BufWriter makes the same write(2) calls out of the same fragments
    for (f, c) in [(&fa, &ca), (&fb, &cb)] {
        if !f.is_empty() {
            rep.case(&format!("B {}|{}", cap, ints(&f.iter().map(|x| *x as u64).collect::<Vec<_>>())), &ints(&c.iter().map(|x| x.len() as u64).collect::<Vec<_>>()));
        }
    }
    rep.count(&format!("concurrent:cap={}:write_calls A {} B {}", if cap == BUFWRITER_CAP { "8192" } else { "small" }, bucket(ca.len()), bucket(cb.len())));
    let path = format!("{dir}/conc.jsonl");
    let _ = std::fs::remove_file(&path);
    let res: Result<(), String> = (|| {
        if !old.is_empty() {
            let mut w = BufWriter::new(open_like_save_stats(&path).map_err(|e| e.to_string())?);
            Stats { records: old.to_vec() }.write(&mut w).map_err(|e| e.to_string())?;
            w.flush().map_err(|e| e.to_string())?;
        }
        let mut ha = open_like_save_stats(&path).map_err(|e| e.to_string())?;
        let mut hb = open_like_save_stats(&path).map_err(|e| e.to_string())?;
        for (is_a, chunk) in interleave_by(sched, &ca, &cb) {
            (if is_a { &mut ha } else { &mut hb }).write_all(&chunk).map_err(|e| e.to_string())?;
        }
        Ok(())
    })();
    if let Err(e) = res {
        rep.fail("write_error", format!("concurrent sessions: {e}"), inp);
        return;
    }
    let file = std::fs::read(&path).unwrap_or_default();
    let _ = std::fs::remove_file(&path);
    let got = guarded(|| Stats::read(&mut &file[..]).ok().map(|s| s.records)).ok().flatten();
    let ab: Vec<Record> = old.iter().chain(a).chain(b).cloned().collect();
    let ba: Vec<Record> = old.iter().chain(b).chain(a).cloned().collect();
    let which = got.as_ref().map(|g| if *g == ab { 1 } else if *g == ba { 2 } else { 0 });
    // C: the model (BufWriter, interleaving, O_APPEND, read over the modelled Record) predicts the file and the verdict
    let line = |r: &Record| ints(&serde_json::to_vec(r).unwrap_or_default());
    let mut case = format!("C {}|o {}", cap, ints(&old.iter().flat_map(|r| { let mut l = serde_json::to_vec(r).unwrap_or_default(); l.push(b'\n'); l }).collect::<Vec<u8>>()));
    for r in a {
        case.push_str(&format!("|a {}", line(r)));
    }
    for r in b {
        case.push_str(&format!("|b {}", line(r)));
    }
    case.push_str(&format!("|f {}|g {}|s {}", ints(&fa.iter().map(|x| *x as u64).collect::<Vec<_>>()), ints(&fb.iter().map(|x| *x as u64).collect::<Vec<_>>()), ints(&sched.iter().map(|x| *x as u64).collect::<Vec<_>>())));
    let verdict = match (&got, which) {
        (Some(g), Some(w)) => format!("{} {}", g.len(), w),
        _ => "N".to_string(),
    };
    rep.case(&case, &format!("{}|{}", digest(&file), verdict));
    let sa: usize = ca.iter().map(|c| c.len()).sum();
    let sb: usize = cb.iter().map(|c| c.len()).sum();
    if cap != BUFWRITER_CAP {
        rep.count(match which { Some(1) | Some(2) => "concurrent:small_cap:intact", Some(_) => "concurrent:small_cap:reordered", None => "concurrent:small_cap:torn" });
        return;
    }
    rep.nontrivial(&(digest(&file), sched.to_vec()));
    let fits = sa <= BUFWRITER_CAP && sb <= BUFWRITER_CAP;
    match which {
        Some(1) | Some(2) => {
            rep.monitor("concurrent: two overlapping save_stats sessions read back as one batch after the other", 1);
            rep.count(if fits { "concurrent:both_fit_the_buffer:intact" } else { "concurrent:above_8192:intact (write calls did not interleave inside a line)" });
        }
        _ => {
            rep.count(if fits { "concurrent:both_fit_the_buffer:TORN" } else { "concurrent:above_8192:torn" });
            // BEYOND THE PROPERTY (lead decision): C19 speaks of a second batch AFTER a first; two writers at the same
            // time are outside its quantifier.  Observation only: counted here and in evidence.extra, never a failure.
            // (a tear with both batches inside the buffer would contradict C19_concurrent_small_batches: it shows as a
            // B / C correspondence disagreement as well)
            let _ = &inp;
            rep.monitor(if fits { "concurrent_observed: sessions that both fit 8192 bytes tore a line (model says impossible)" } else { "concurrent_observed: overlapping sessions above 8192 bytes left a log Stats::read does not read back as one batch after the other" }, 1);
            let e = rep.extra.entry("concurrent_appends_beyond_the_property".into()).or_insert_with(|| json!({"note": "two save_stats sessions issued at the same time on two O_APPEND descriptors (the write(2) calls the real Stats::write + std BufWriter make, in a scheduled order); outside C19's quantifier (a second batch AFTER a first): observation for maintainers, see fixes/FC19a-save-stats-single-write.diff", "torn_logs_above_8192_bytes": 0, "torn_logs_within_8192_bytes": 0, "rejected_whole_log": 0}));
            let key = if fits { "torn_logs_within_8192_bytes" } else { "torn_logs_above_8192_bytes" };
            e[key] = json!(e[key].as_u64().unwrap_or(0) + 1);
            if got.is_none() {
                e["rejected_whole_log"] = json!(e["rejected_whole_log"].as_u64().unwrap_or(0) + 1);
            }
        }
    }
}
/// records for one process: grown until the serialised batch has at least `min_bytes`
fn gen_batch(r: &mut Rng, dict: &FstDictionary, min_bytes: (usize, usize), max_records: (usize, usize)) -> Vec<Record> {
    let min_bytes = r.range(min_bytes.0, min_bytes.1);
    let max_records = r.range(max_records.0, max_records.1);
    let mut out = vec![];
    let mut n = 0usize;
    while out.len() < max_records && (n < min_bytes || out.is_empty()) {
        let rec = gen_record(r, dict, false);
        n += serde_json::to_vec(&rec).map(|v| v.len() + 1).unwrap_or(0);
        out.push(rec);
    }
    out
}
/// two REAL threads, each with its own BufWriter<File> exactly as save_stats: not deterministic, reported as a number only
fn real_thread_overlap(dir: &str, a: &[Record], b: &[Record], rounds: usize, single_write: bool) -> (usize, usize) {
    let path = format!("{dir}/conc-threads.jsonl");
    let mut torn = 0;
    for _ in 0..rounds {
        let _ = std::fs::remove_file(&path);
        let barrier = Arc::new(std::sync::Barrier::new(2));
        let hs: Vec<_> = [a.to_vec(), b.to_vec()].into_iter().map(|recs| {
            let (p, bar) = (path.clone(), barrier.clone());
            std::thread::spawn(move || {
                let Ok(mut f) = open_like_save_stats(&p) else { return };
                if single_write {
                    // fixes/FC19a: the whole batch in one write(2)
                    let mut batch = vec![];
                    let _ = Stats { records: recs }.write(&mut batch);
                    bar.wait();
                    let _ = f.write_all(&batch);
                    return;
                }
                let mut w = BufWriter::new(f);
                bar.wait();
                let _ = Stats { records: recs }.write(&mut w);
                let _ = w.flush();
            })
        }).collect();
        for h in hs {
            let _ = h.join();
        }
        let file = std::fs::read(&path).unwrap_or_default();
        let ok = Stats::read(&mut &file[..]).map(|s| s.records.len() == a.len() + b.len()).unwrap_or(false);
        if !ok {
            torn += 1;
        }
    }
    let _ = std::fs::remove_file(&path);
    (rounds, torn)
}


// ------------------------------------------------------------------------------------------------
// harper-ls SESSION HISTORIES through the in-process Backend: which handler writes what, when (Model/C19Session.v)
// ------------------------------------------------------------------------------------------------
/// the handlers of the session model, by index (= C19Session.handler_names)
const LS_HANDLERS: [&str; 6] = ["did_open", "did_change", "did_save", "did_close", "did_change_configuration", "shutdown"];
/// One history = several server processes, one after the other, on the same statsPath.  A session is a list of ops
/// {"op":"open"|"change"|"save"|"close"|"config"|"record", "doc":i, "text":.., "pick":n, "extra":{..}}; every session ends
/// with the `shutdown` request.  Oracle (the property, through the front end): after every shutdown Stats::read(log) = the
/// lints applied so far, in order, each exactly ONCE, and summarize counts them once.
fn check_ls_history(rep: &mut Report, sessions: &[Vec<Value>], dir: &str, origin: &str) {
    use lsclient::*;
    use lsx::tower_lsp::LanguageServer;
    rep.eval();
    let inp = json!({"kind": "ls_history", "sessions": sessions, "origin": origin});
    let root = format!("{dir}/lsh");
    let _ = std::fs::remove_dir_all(&root);
    let _ = std::fs::create_dir_all(format!("{root}/docs"));
    let stats_path = format!("{root}/data/stats.txt");
    let st = settings(&format!("{root}/dict.txt"), &format!("{root}/fd"), &stats_path, json!({}));
    let rt = runtime();
    let _g = rt.enter();
    let mut accepted: Vec<RecordKind> = vec![]; // every lint applied (HarperRecordLint accepted), in order, over all sessions
    let mut case = String::from("H");
    let mut saves_with_records = 0;
    for (si, ops) in sessions.iter().enumerate() {
        let mut s = Session::new(st.clone());
        let mut texts: BTreeMap<u64, String> = BTreeMap::new();
        let mut in_session = 0;
        case.push_str(if si == 0 { " " } else { "|n|" });
        let mut evs: Vec<String> = vec![];
        for op in ops {
            let di = op["doc"].as_u64().unwrap_or(0) % 3;
            let path = format!("{root}/docs/s{si}d{di}.txt");
            let uri = format!("file://{path}");
            let ok = match op["op"].as_str().unwrap_or("") {
                "open" => {
                    let text = op["text"].as_str().unwrap_or("").to_string();
                    let _ = std::fs::write(&path, &text);
                    texts.insert(di, text.clone());
                    evs.push("h0".into());
                    s.did_open(&uri, "plaintext", &text)
                }
                "change" if texts.contains_key(&di) => {
                    let text = op["text"].as_str().unwrap_or("").to_string();
                    texts.insert(di, text.clone());
                    evs.push("h1".into());
                    s.did_change(&uri, &text)
                }
                "save" if texts.contains_key(&di) => {
                    let _ = std::fs::write(&path, &texts[&di]);
                    evs.push("h2".into());
                    if in_session > 0 {
                        saves_with_records += 1;
                    }
                    s.did_save(&uri)
                }
                "close" if texts.contains_key(&di) => {
                    texts.remove(&di);
                    evs.push("h3".into());
                    s.did_close(&uri)
                }
                "config" => {
                    let stx = settings(&format!("{root}/dict.txt"), &format!("{root}/fd"), &stats_path, op["extra"].clone());
                    evs.push("h4".into());
                    s.notify("workspace/didChangeConfiguration", json!({"settings": stx}))
                }
                "record" if texts.contains_key(&di) => {
                    let text = texts[&di].clone();
                    let n16 = text.encode_utf16().count();
                    let p = op["pick"].as_u64().unwrap_or(0) as usize;
                    // the first position at or after the pick (cyclically) that offers a HarperRecordLint action
                    let mut arg: Option<String> = None;
                    for off in 0..n16.min(40) {
                        let col = ((p + off * 3) % n16.max(1)) as u32;
                        let Ok(params) = serde_json::from_value::<lsx::tower_lsp::lsp_types::CodeActionParams>(json!({
                            "textDocument": {"uri": uri}, "range": {"start": {"line": 0, "character": col}, "end": {"line": 0, "character": col}},
                            "context": {"diagnostics": []}})) else { continue };
                        let Ok(Ok(Some(acts))) = guarded(|| rt.block_on(s.backend().code_action(params))) else { continue };
                        let v = serde_json::to_value(&acts).unwrap_or(Value::Null);
                        arg = v.as_array().and_then(|a| a.iter().find_map(|x| if x["command"]["command"] == "HarperRecordLint" { x["command"]["arguments"][0].as_str().map(|s| s.to_string()) } else { None }));
                        if arg.is_some() {
                            break;
                        }
                    }
                    match arg.as_ref().and_then(|a| serde_json::from_str::<RecordKind>(a).ok().map(|k| (a.clone(), k))) {
                        Some((a, k)) => {
                            evs.push(format!("r{}", accepted.len()));
                            accepted.push(k);
                            in_session += 1;
                            s.command("HarperRecordLint", vec![json!(a)])
                        }
                        None => true,
                    }
                }
                _ => true,
            };
            if !ok {
                rep.fail("ls_stuck", format!("a handler did not complete in session {si}: {op}"), inp.clone());
                return;
            }
        }
        case.push_str(&evs.join(" "));
        {
            use lsx::tower::Service;
            let req = lsx::tower_lsp::jsonrpc::Request::build("shutdown").id(2_000_000 + si as i64).finish();
            let fut = s.service.call(req);
            if !s.drive(Box::pin(async move { fut.await.ok().flatten() })) {
                rep.fail("ls_stuck", "shutdown did not complete".into(), inp.clone());
                return;
            }
        }
        drop(s);
        let bytes = std::fs::read(&stats_path).unwrap_or_default();
        let Ok(stt) = Stats::read(&mut &bytes[..]) else {
            rep.fail("ls_history", format!("the log written by harper-ls does not read back after session {si}"), inp.clone());
            return;
        };
        let got = kinds_of(&stt.records);
        let mut seen: BTreeMap<String, usize> = BTreeMap::new();
        for r in &stt.records {
            *seen.entry(serde_json::to_string(&r.uuid).unwrap_or_default()).or_insert(0) += 1;
        }
        let repeated = seen.values().filter(|c| **c > 1).count();
        let lints = accepted.iter().filter(|k| matches!(k, RecordKind::Lint { .. })).count();
        let total = stt.summarize().total_applied as usize;
        if got != accepted || repeated > 0 || total != lints {
            rep.fail("ls_history", format!("after the shutdown of session {si} the log holds {} records for {} applied lints ({} of them written more than once); summarize counts {} applied lints: the log of a session history is not the list of the lints applied, each once", got.len(), accepted.len(), repeated, total), inp.clone());
            return;
        }
    }
    // H: the session model (which handler appends the in-memory records) predicts which record is written how often
    let bytes = std::fs::read(&stats_path).unwrap_or_default();
    let impl_line = match Stats::read(&mut &bytes[..]) {
        Ok(stt) => {
            let mut ids: BTreeMap<String, usize> = BTreeMap::new();
            stt.records.iter().map(|r| { let n = ids.len(); ids.entry(serde_json::to_string(&r.uuid).unwrap_or_default()).or_insert(n).to_string() }).collect::<Vec<_>>().join(" ")
        }
        Err(_) => "ERR".into(),
    };
    rep.case(case.trim_end(), impl_line.trim_end());
    rep.monitor("ls_history: after the last shutdown the log is the list of applied lints, each once", 1);
    rep.count(&format!("ls_history:sessions={} records={} saves_after_a_record={}", sessions.len(), bucket(accepted.len()), bucket(saves_with_records)));
    if accepted.len() >= 2 {
        rep.nontrivial(&format!("{:?}", inp));
    }
    let _ = std::fs::remove_dir_all(&root);
}
fn gen_ls_history(r: &mut Rng) -> Vec<Vec<Value>> {
    let ns = r.range(1, 3);
    (0..ns).map(|_| {
        let mut ops = vec![json!({"op": "open", "doc": 0, "text": gen_line_text(r)})];
        if r.chance(1, 3) {
            ops.push(json!({"op": "open", "doc": 1, "text": gen_line_text(r)}));
        }
        for _ in 0..r.range(2, 9) {
            let doc = r.below(2);
            ops.push(match r.below(10) {
                0..=3 => json!({"op": "record", "doc": doc, "pick": r.below(200)}),
                4 | 5 => json!({"op": "save", "doc": doc}),
                6 => json!({"op": "change", "doc": doc, "text": gen_line_text(r)}),
                7 => json!({"op": "close", "doc": doc}),
                8 => json!({"op": "open", "doc": doc, "text": gen_line_text(r)}),
                _ => json!({"op": "config", "extra": if r.chance(1, 2) { json!({"diagnosticSeverity": "warning"}) } else { json!({"linters": {"SpellCheck": r.chance(1, 2)}}) }}),
            });
        }
        ops
    }).collect()
}

fn replay_input(rep: &mut Report, lc: &mut LogChecker, cx: &mut Ctx, v: &Value, dir: &str) {
    match v["kind"].as_str().unwrap_or("") {
        "str" => {
            let s: String = v["cps"].as_array().map(|a| a.iter().filter_map(|c| char::from_u32(c.as_u64().unwrap_or(0) as u32)).collect()).unwrap_or_default();
            check_string(rep, &s, "replay");
        }
        "text" => check_string(rep, v["text"].as_str().unwrap_or(""), "replay"),
        "json_str" => {
            let b: Vec<u8> = v["bytes"].as_array().map(|a| a.iter().map(|c| c.as_u64().unwrap_or(0) as u8).collect()).unwrap_or_default();
            check_json_literal(rep, &b, "replay");
        }
        "lines" => {
            let b: Vec<u8> = v["bytes"].as_array().map(|a| a.iter().map(|c| c.as_u64().unwrap_or(0) as u8).collect()).unwrap_or_default();
            check_lines(rep, &b);
        }
        "log" => {
            let mut sessions: Vec<Vec<Record>> = vec![];
            let mut from_text: Vec<Vec<bool>> = vec![];
            for s in v["sessions"].as_array().map(|a| a.as_slice()).unwrap_or(&[]) {
                let (mut rs, mut ft) = (vec![], vec![]);
                for r in s.as_array().map(|a| a.as_slice()).unwrap_or(&[]) {
                    let recs = cx.records_from_json(r);
                    // "doc" = the records RecordKind::from_lint makes for the lints of that text
                    ft.extend(std::iter::repeat(r["t"] == "doc").take(recs.len()));
                    rs.extend(recs);
                }
                sessions.push(rs);
                from_text.push(ft);
            }
            let how: Vec<u8> = v["how"].as_array().map(|a| a.iter().map(|c| c.as_u64().unwrap_or(0) as u8).collect()).unwrap_or_default();
            lc.check_log(rep, &sessions, &from_text, Some(v["sessions"].clone()), &how, "replay", dir);
        }
        "numtext" => check_number_text(rep, lc, cx, v["text"].as_str().unwrap_or(""), "replay", dir),
        "docnum" => check_doc_numbers(rep, cx, v["text"].as_str().unwrap_or(""), "replay"),
        "concurrent" => {
            let mut recs = |key: &str| -> Vec<Record> { v[key].as_array().map(|a| a.iter().flat_map(|r| cx.records_from_json(r)).collect()).unwrap_or_default() };
            let (old, a, b) = (recs("old"), recs("a"), recs("b"));
            let sched: Vec<bool> = v["sched"].as_array().map(|a| a.iter().map(|c| c.as_u64().unwrap_or(0) != 0).collect()).unwrap_or_default();
            let cap = v["cap"].as_u64().unwrap_or(BUFWRITER_CAP as u64) as usize;
            check_concurrent(rep, &old, &a, &b, &sched, cap.max(1), "replay", dir);
        }
        "ls" => {
            let texts: Vec<Vec<String>> = serde_json::from_value(v["texts"].clone()).unwrap_or_default();
            let picks: Vec<usize> = serde_json::from_value(v["picks"].clone()).unwrap_or_default();
            check_ls_sessions(rep, &texts, &picks, dir, "replay");
        }
        "ls_history" => {
            let sessions: Vec<Vec<Value>> = serde_json::from_value(v["sessions"].clone()).unwrap_or_default();
            check_ls_history(rep, &sessions, dir, "replay");
        }
        "wasm" => {
            let texts: Vec<Vec<String>> = serde_json::from_value(v["texts"].clone()).unwrap_or_default();
            check_wasm(rep, &texts, "replay");
        }
        _ => {}
    }
}

fn run(a: &Args, corpus: &[Value]) {
    let mut rep = Report::new(&a.out);
    rep.rule = "strings: hand list of nasty fragments (all C0 controls, quotes, backslashes, DEL, C1, U+2028/2029, BOM, noncharacters, astral) mixed with words, random scalars of every UTF-8 length; JSON literals: well-formed + damaged (bad escapes, lone/unpaired surrogates, raw controls, invalid UTF-8); byte strings for BufRead::lines heavy in LF/CR/CRLF and UTF-8 boundary bytes; logs: 1-6 append sessions of 0-8 records (lint records with 0-9 context tokens of every TokenKind, dictionary metadata, numbers incl. huge/denormal/decimal-derived, config updates with arbitrary keys), written through a real file opened like harper-ls's save_stats (also unbuffered append and harper-wasm style import+generate), plus records of all lints of generated documents; texts with number literals at the edges of f64 (1e999, 1e309, 309-digit integers, hex, random mantissa/exponent, mostly with an upper-case ordinal suffix so that a lint records the Number) through the real lexer and linters; finite f64 bit patterns through serde_json's printer/parser; a separate correspondence-only stream of hand-assembled records with non-finite Numbers (not constructible from text: outside the property, not judged). every distinct record line also goes through the extracted reader/writer of the concrete Record (J) and every log through the extracted read + summarize over the modelled records (Q). thorough: every Unicode scalar value as a one-character string. non-trivial = distinct string needing an escape, or distinct multi-session log of >= 2 records".into();
    let mut lc = LogChecker::new();
    let mut cx = Ctx::new();
    let dir = a.out.clone();
    for c in corpus {
        replay_input(&mut rep, &mut lc, &mut cx, c, &dir);
    }
    if a.replay.is_some() {
        rep.finish();
        return;
    }
    let mut r = Rng::new(a.seed);
    // ---- strings
    for f in NASTY {
        check_string(&mut rep, f, "nasty");
    }
    for c in 0u32..0x100 {
        check_string(&mut rep, &char::from_u32(c).unwrap().to_string(), "latin1");
    }
    for _ in 0..a.scale(3000, 40000) {
        let s = gen_string(&mut r);
        check_string(&mut rep, &s, "random");
    }
    if a.thorough() {
        let mut n = 0u64;
        for c in 0u32..=0x10FFFF {
            if let Some(ch) = char::from_u32(c) {
                let mut s = String::new();
                s.push(ch);
                check_string(&mut rep, &s, "every_scalar");
                n += 1;
            }
        }
        rep.extra.insert("exhaustive_scalar_values".into(), json!(n));
    }
    // ---- JSON literals against serde_json's parser
    for _ in 0..a.scale(3000, 60000) {
        let b = gen_json_literal(&mut r);
        check_json_literal(&mut rep, &b, "random");
    }
    if a.thorough() {
        // every \uXXXX escape, and every pair of a leading surrogate with a sample of followers
        for n in 0u32..0x10000 {
            check_json_literal(&mut rep, format!("\"\\u{:04x}\"", n).as_bytes(), "every_u_escape");
        }
        for hi in (0xD800u32..0xDC00).step_by(7) {
            for lo in [0xDBFFu32, 0xDC00, 0xDC01, 0xDFFF, 0xE000, 0x0041] {
                check_json_literal(&mut rep, format!("\"\\u{:04x}\\u{:04X}\"", hi, lo).as_bytes(), "surrogate_pairs");
            }
        }
    }
    // ---- BufRead::lines
    for _ in 0..a.scale(3000, 60000) {
        let b = gen_line_bytes(&mut r);
        check_lines(&mut rep, &b);
    }
    if a.thorough() {
        // every sequence of <= 3 bytes over an alphabet of boundary bytes, and every 2-byte sequence
        let alpha: [u8; 14] = [b'\n', b'\r', b'a', 0x7F, 0x80, 0xBF, 0xC1, 0xC2, 0xE0, 0xED, 0xA0, 0xF0, 0xF4, 0x90];
        for x in alpha {
            for y in alpha {
                for z in alpha {
                    check_lines(&mut rep, &[x, y, z]);
                    check_lines(&mut rep, &[x, y, z, 0x80]);
                }
            }
        }
        for x in 0u8..=255 {
            for y in 0u8..=255 {
                check_lines(&mut rep, &[x, y]);
            }
        }
    }
    // ---- logs
    let dict = cx.dict.clone();
    for _ in 0..a.scale(1200, 6000) {
        let ss = gen_sessions(&mut r, &dict, false);
        let how = gen_how(&mut r, ss.len());
        lc.check_log(&mut rep, &ss, &flags(&ss, false), None, &how, "random", &dir);
    }
    // records the JS API would log for the lints of generated documents
    for _ in 0..a.scale(120, 800) {
        let ns = r.range(1, 3);
        let mut ss = vec![];
        let mut sj = vec![];
        for _ in 0..ns {
            let text = gen::any_text(&mut r);
            let d = json!({"t": "doc", "text": text, "when": 1_700_000_000, "uuid": uuid_string(r.next() as u128), "take": 12});
            ss.push(cx.records_from_json(&d));
            sj.push(json!([d]));
        }
        let how = gen_how(&mut r, ss.len());
        lc.check_log(&mut rep, &ss, &flags(&ss, true), Some(json!(sj)), &how, "documents", &dir);
    }
    // synthetic records with non-finite Numbers: NOT constructible from text (lex_number / lex_hex_number,
    // JSON import), hence outside the property — kept as a correspondence-only stream (R: the model predicts
    // that the implementation rejects the whole log; M)
    for _ in 0..a.scale(150, 800) {
        let ss = gen_sessions(&mut r, &dict, true);
        let how: Vec<u8> = gen_how(&mut r, ss.len()).into_iter().map(|m| m.min(1)).collect();
        lc.check_log(&mut rep, &ss, &flags(&ss, false), None, &how, "nonfinite_stream", &dir);
    }
    // ---- Numbers: texts with number literals at the edges of f64 through the real lexer + linters; the float
    // contract on many values; no JSON text denotes a non-finite Number
    check_json_nonfinite(&mut rep);
    for _ in 0..a.scale(400, 6000) {
        let t = gen_number_text(&mut r);
        check_number_text(&mut rep, &mut lc, &mut cx, &t, "number_texts", &dir);
    }
    let mut shown = 0;
    for x in FLOATS {
        check_float(&mut rep, &mut lc, *x, &mut shown, &dir);
    }
    for i in 0..a.scale(200_000, 8_000_000) {
        let x = match i % 4 {
            0 | 1 => f64::from_bits(r.next()),
            2 => {
                // decimal-derived: what lex_number makes of a literal
                let s = format!("{}.{}e{}", r.below(1000), r.below(100000000), r.below(640) as i64 - 320);
                s.parse::<f64>().unwrap_or(1.0)
            }
            _ => {
                // around powers of two and ten, subnormals
                let e = r.below(2046) + 1;
                f64::from_bits(((e as u64) << 52).wrapping_add((r.below(5) as u64).wrapping_sub(2)))
            }
        };
        check_float(&mut rep, &mut lc, x, &mut shown, &dir);
    }
    // ---- phase 4: the Numbers of generated documents are the lexer's
    for _ in 0..a.scale(300, 4000) {
        let t = if r.chance(1, 2) { gen::any_text(&mut r) } else { format!("{} {}", gen_number_text(&mut r), gen_line_text(&mut r)) };
        check_doc_numbers(&mut rep, &cx, &t, "documents");
    }
    // ---- phase 4: two save_stats sessions at the same time
    {
        // both batches fit the buffer: every order of the write(2) calls must read back (C19_concurrent_small_batches)
        for _ in 0..a.scale(40, 500) {
            let old = if r.chance(1, 2) { gen_batch(&mut r, &dict, (0, 0), (1, 3)) } else { vec![] };
            let (x, y) = (gen_batch(&mut r, &dict, (0, 0), (1, 4)), gen_batch(&mut r, &dict, (0, 0), (1, 4)));
            let sched: Vec<bool> = (0..r.range(0, 3)).map(|_| r.chance(1, 2)).collect();
            check_concurrent(&mut rep, &old, &x, &y, &sched, BUFWRITER_CAP, "small_batches", &dir);
        }
        // at least one batch above 8192 bytes: several write(2) calls per session
        // (the extracted model counts in unary: a session of n fragments costs n * 8192 steps — volume is in the thorough tier)
        for i in 0..a.scale(10, 90) {
            let old = if r.chance(1, 2) { gen_batch(&mut r, &dict, (0, 0), (2, 2)) } else { vec![] };
            let hi = if a.thorough() && i % 3 == 0 { 30000 } else { 10500 };
            let x = gen_batch(&mut r, &dict, (8200, hi), (400, 400));
            let y = if r.chance(1, 3) { gen_batch(&mut r, &dict, (8200, hi), (400, 400)) } else { gen_batch(&mut r, &dict, (0, 0), (1, 3)) };
            let sched: Vec<bool> = (0..r.range(0, 8)).map(|_| r.chance(1, 2)).collect();
            check_concurrent(&mut rep, &old, &x, &y, &sched, BUFWRITER_CAP, "large_batches", &dir);
        }
        // the BufWriter model at other capacities (correspondence only): many chunk boundaries with few records
        for _ in 0..a.scale(150, 2500) {
            let cap = *r.pick(&[1usize, 2, 7, 16, 33, 64, 100, 256, 1000, 4096]);
            let (x, y) = (gen_batch(&mut r, &dict, (0, 0), (1, 4)), gen_batch(&mut r, &dict, (0, 0), (1, 3)));
            let sched: Vec<bool> = (0..r.range(0, 12)).map(|_| r.chance(1, 2)).collect();
            check_concurrent(&mut rep, &[], &x, &y, &sched, cap, "small_capacity", &dir);
        }
        // two real threads (not deterministic: a number in the evidence, not a verdict)
        let (x, y) = (gen_batch(&mut r, &dict, (200_000, 200_000), (4000, 4000)), gen_batch(&mut r, &dict, (200_000, 200_000), (4000, 4000)));
        let (rounds, torn) = real_thread_overlap(&dir, &x, &y, a.scale(10, 40), false);
        let (_, torn_fixed) = real_thread_overlap(&dir, &x, &y, a.scale(10, 40), true);
        rep.extra.insert("real_thread_overlap".into(), json!({"rounds": rounds, "logs_unreadable_afterwards": torn, "logs_unreadable_with_one_write_per_session (fixes/FC19a)": torn_fixed, "bytes_per_session": 200_000, "note": "two threads, each BufWriter::new(File opened like save_stats) + Stats::write + flush, started together; scheduling decides, so this is an observation, not a verdict"}));
    }
    // ---- the real front ends
    for _ in 0..a.scale(25, 200) {
        let ns = r.range(1, 3);
        let texts: Vec<Vec<String>> = (0..ns).map(|_| (0..r.range(1, 2)).map(|_| gen_line_text(&mut r)).collect()).collect();
        let picks: Vec<usize> = (0..r.range(2, 5)).map(|_| r.below(200)).collect();
        check_ls_sessions(&mut rep, &texts, &picks, &dir, "random");
    }
    // session histories: record / didSave / didChange / didClose / configuration / shutdown / restart on the same statsPath
    for _ in 0..a.scale(40, 300) {
        let h = gen_ls_history(&mut r);
        check_ls_history(&mut rep, &h, &dir, "random");
    }
    for _ in 0..a.scale(8, 60) {
        let texts: Vec<Vec<String>> = (0..r.range(2, 3)).map(|_| (0..r.range(1, 2)).map(|_| gen_line_text(&mut r)).collect()).collect();
        check_wasm(&mut rep, &texts, "random");
    }
    for i in 0..4 {
        let _ = std::fs::remove_file(format!("{dir}/log-{i}.jsonl"));
    }
    rep.finish();
}

fn main() {
    let (args, corpus) = hv::cli();
    run(&args, &corpus);
}
