//! C06 — a word is reported misspelt exactly when the dictionary does not contain it.
//!
//! Correspondence (model = coq/Model/SpellDecision.v, extracted; driver ocaml/c06_main.ml):
//!   U cp flags | lc | uc                       Unicode case data of every code point that has any (preamble; the
//!                                              model's lc/uc/is_lower/is_upper are Rust's own tables)
//!   L d | src | word spans | entries | fuzzy   one document: the implementation's Word-token spans, the slice of the
//!                                              dictionary the decision can touch (or a whole mini dictionary), the raw
//!                                              results of suggest_correct_spelling; answer = the lints (span + suggestions)
//!   F m d exact exact_lower                    the facts SpellCheck::lint reads for one word token; answer = accepted?
//!   W                                          the Coq witness of F24 replayed on a MutableDictionary with the same entries
//!   R name lo-hi ..                            range table of a Unicode predicate of the lexer model (ws num alpha ling)
//!   T src                                      the text alone: the model (C02's Lexer.v + Condense.v through C06Words.doc_words)
//!                                              must compute the implementation's Word-token spans
//!   O w                                        C06Words.one_word: is `w`, alone, exactly one Word token covering it?
//!   A cp                                       the flags Tables_f24.f24_alphabet gives a character of the generated table
//! Search (the property text, ground truth = Dictionary::words_iter of the curated dictionary): every listed word
//! alone / capitalised / upper-cased / inside generated sentences x 4 dialects is not reported (except the committed
//! F24 list of multi-token entries, which must be matched exactly); letter strings the dictionary does not contain are
//! reported with exactly their span; every suggestion is a dictionary word of the dialect (up to its first letter).
use harper_core::linting::{Lint, LintGroup, LintKind, Linter, SpellCheck, Suggestion};
use harper_core::spell::suggest_correct_spelling;
use harper_core::parsers::{Parser, PlainEnglish};
use harper_core::{
    CharStringExt, Dialect, Dictionary, Document, FstDictionary, MutableDictionary, Punctuation, TokenKind, TokenStringExt,
    WordId, WordMetadata,
};
use hv::common::*;
use serde_json::{json, Value};
use std::collections::{BTreeMap, BTreeSet, HashMap, HashSet};
use std::sync::Arc;

const DIALECTS: [Dialect; 4] = [Dialect::American, Dialect::Canadian, Dialect::Australian, Dialect::British];
const F24_LIST: &str = concat!(env!("CARGO_MANIFEST_DIR"), "/../corpus/C06/f24_list.json");
/// the curated entries that are NOT one Word token when written alone: source of coq/Model/Tables_f24.v
/// (tools/tables/f24.py) — theorem C06_f24_entries_not_one_word; must equal what the implementation does, exactly
const MULTI_LIST: &str = concat!(env!("CARGO_MANIFEST_DIR"), "/../corpus/C06/multi_token_entries.json");

fn dname(d: Dialect) -> &'static str {
    match d {
        Dialect::American => "American",
        Dialect::Canadian => "Canadian",
        Dialect::Australian => "Australian",
        Dialect::British => "British",
    }
}
fn dcode(d: Option<Dialect>) -> u8 {
    match d {
        None => 0,
        Some(Dialect::American) => 1,
        Some(Dialect::Canadian) => 2,
        Some(Dialect::Australian) => 3,
        Some(Dialect::British) => 4,
    }
}
fn dialect_of(s: &str) -> Option<Dialect> {
    DIALECTS.iter().copied().find(|d| dname(*d) == s)
}
fn s_of(c: &[char]) -> String {
    c.iter().collect()
}

// ---------- independent re-statement of the id recipe (ground truth side; never calls WordId) ----------
fn norm_char(c: char) -> char {
    match c {
        '\u{2019}' | '\u{2018}' | '\u{FF07}' => '\'',
        _ => c,
    }
}
/// lower-cased, normalised key of a word, computed with Rust's char tables only
fn key_of(w: &[char]) -> String {
    w.iter().map(|c| norm_char(*c)).flat_map(|c| c.to_lowercase()).collect()
}
fn cap1(w: &[char]) -> Vec<char> {
    // first letter upper-cased (whole mapping), the rest unchanged — "a capitalised form"
    let mut out: Vec<char> = vec![];
    if let Some(f) = w.first() {
        out.extend(f.to_uppercase());
        out.extend(&w[1..]);
    }
    out
}
fn upper(w: &[char]) -> Vec<char> {
    w.iter().flat_map(|c| c.to_uppercase()).collect()
}
fn is_lower_entry(w: &[char]) -> bool {
    w.iter().flat_map(|c| c.to_lowercase()).collect::<Vec<char>>() == w
}

// ---------- one run of the implementation on one text ----------
struct Run {
    src: Vec<char>,
    words: Vec<(usize, usize)>,
    metas: Vec<Option<Option<Dialect>>>,
    lints: Vec<Lint>,
}

fn run_text<D: Dictionary>(dict: &D, sc: &mut SpellCheck<D>, text: &str) -> Result<Run, String> {
    guarded(|| {
        let doc = Document::new_plain_english(text, dict);
        let mut words = vec![];
        let mut metas = vec![];
        for t in doc.iter_words() {
            words.push((t.span.start, t.span.end));
            metas.push(match &t.kind {
                TokenKind::Word(Some(m)) => Some(m.dialect),
                _ => None,
            });
        }
        let lints = sc.lint(&doc);
        Run { src: doc.get_source().to_vec(), words, metas, lints }
    })
}

fn lint_str(l: &Lint) -> String {
    let sugs: Vec<String> = l
        .suggestions
        .iter()
        .map(|s| match s {
            Suggestion::ReplaceWith(v) => cps(v),
            Suggestion::InsertAfter(v) => format!("IA {}", cps(v)),
            Suggestion::Remove => "RM".to_string(),
        })
        .collect();
    format!("{} {} : {}", l.span.start, l.span.end, sugs.join(" , ")).trim_end().to_string()
}
fn lints_line(ls: &[Lint]) -> String {
    if ls.is_empty() {
        "-".into()
    } else {
        ls.iter().map(lint_str).collect::<Vec<_>>().join(" ; ")
    }
}

/// raw results of the back-off loop's calls, as far as the loop can need them: distance 2, then 3 / 4 only while
/// everything before came back empty
fn fuzzy_tables<D: Dictionary>(dict: &D, w: &[char]) -> Vec<(u8, Vec<Vec<char>>)> {
    let mut out = vec![];
    for dist in 2u8..5 {
        let r: Vec<Vec<char>> = suggest_correct_spelling(w, 100, dist, dict).into_iter().map(|s| s.to_vec()).collect();
        let empty = r.is_empty();
        out.push((dist, r));
        if !empty {
            break;
        }
    }
    out
}

fn entry_of<D: Dictionary>(dict: &D, key: &[char]) -> Option<(Vec<char>, u8)> {
    let canon = dict.get_correct_capitalization_of(key)?.to_vec();
    let dl = dict.get_word_metadata(key)?.dialect;
    Some((canon, dcode(dl)))
}

struct Ctx {
    dict: Arc<FstDictionary>,
    checkers: Vec<SpellCheck<Arc<FstDictionary>>>,
    words: Vec<Vec<char>>,                       // words_iter, sorted
    listed: HashMap<String, Option<Dialect>>,    // exact spelling -> dialect
    keys: HashSet<String>,                       // key_of of every listed word
    single: HashMap<String, bool>,               // entry -> lexes + condenses to exactly one Word token
    f24: HashMap<(String, u8), String>,          // committed list: (entry, dialect code) -> contexts in which it is reported
    f24_seen: HashMap<(String, u8), String>,
    multi_committed: BTreeSet<String>,           // corpus/C06/multi_token_entries.json
    t_seen: HashSet<Vec<char>>,                  // texts already sent as a T case
    ids: HashMap<WordId, String>,                // WordId -> key (collision monitor)
    id_collisions: u64,
    fz: HashMap<Vec<char>, Vec<(u8, Vec<Vec<char>>)>>,
    fuzzy_not_listed: u64,
    alphabet: BTreeSet<char>,
    t_impl: f64,
    t_emit: f64,
}

impl Ctx {
    fn new() -> Ctx {
        let dict = FstDictionary::curated();
        let mut words: Vec<Vec<char>> = dict.words_iter().map(|w| w.to_vec()).collect();
        words.sort();
        let mut listed = HashMap::new();
        let mut keys = HashSet::new();
        let mut alphabet = BTreeSet::new();
        for w in &words {
            listed.insert(s_of(w), dict.get_word_metadata(w).and_then(|m| m.dialect));
            keys.insert(key_of(w));
            alphabet.extend(w.iter().copied());
        }
        let checkers = DIALECTS.iter().map(|d| SpellCheck::new(dict.clone(), *d)).collect();
        let mut f24 = HashMap::new();
        for v in hv::load_inputs(F24_LIST) {
            if v["kind"] == "f24" {
                if let Some(d) = v["dialect"].as_str().and_then(dialect_of) {
                    for (w, c) in v["entries"].as_object().cloned().unwrap_or_default() {
                        f24.insert((w, dcode(Some(d))), c.as_str().unwrap_or("").to_string());
                    }
                }
            }
        }
        let mut multi_committed = BTreeSet::new();
        for v in hv::load_inputs(MULTI_LIST) {
            if v["kind"] == "multi_token_entries" {
                for e in v["entries"].as_array().cloned().unwrap_or_default() {
                    multi_committed.insert(e.as_str().unwrap_or("").to_string());
                }
            }
        }
        Ctx {
            dict,
            checkers,
            multi_committed,
            t_seen: HashSet::new(),
            words,
            listed,
            keys,
            single: HashMap::new(),
            f24,
            f24_seen: HashMap::new(),
            ids: HashMap::new(),
            id_collisions: 0,
            fz: HashMap::new(),
            fuzzy_not_listed: 0,
            alphabet,
            t_impl: 0.0,
            t_emit: 0.0,
        }
    }

    fn is_single(&mut self, entry: &str) -> bool {
        if let Some(b) = self.single.get(entry) {
            return *b;
        }
        let n = entry.chars().count();
        let b = guarded(|| {
            let doc = Document::new_plain_english(entry, &self.dict);
            let t = doc.get_tokens();
            t.len() == 1 && matches!(t[0].kind, TokenKind::Word(_)) && t[0].span.start == 0 && t[0].span.end == n
        })
        .unwrap_or(false);
        self.single.insert(entry.to_string(), b);
        b
    }

    /// correspondence for the tokenisation: the model lexer must find the same Word tokens in `src` (once per text)
    fn emit_words(&mut self, rep: &mut Report, src: &[char], words: &[(usize, usize)]) {
        if self.t_seen.len() < 4_000_000 && self.t_seen.insert(src.to_vec()) {
            let sp = spans_str(words);
            rep.case(&format!("T {}", cps(src)), if sp.is_empty() { "-" } else { &sp });
        }
    }

    fn emit_one_word(&mut self, rep: &mut Report, entry: &str) {
        let b = self.is_single(entry);
        rep.case(&format!("O {}", cps(&chars(entry))), if b { "1" } else { "0" });
    }

    fn compat(&self, entry: &str, d: Dialect) -> Option<bool> {
        self.listed.get(entry).map(|dl| dl.map(|x| x == d).unwrap_or(true))
    }

    /// WordId collision monitor: two different keys must never share an id, one key never has two ids
    fn see_id(&mut self, rep: &mut Report, w: &[char]) {
        let id = WordId::from_word_chars(w);
        let k = key_of(w);
        match self.ids.get(&id) {
            Some(old) if *old != k => {
                self.id_collisions += 1;
                rep.fail("monitor_wordid_collision", format!("WordId of {:?} equals WordId of {:?}", k, old), json!({"kind":"text","text": s_of(w), "dialect": "American"}));
            }
            Some(_) => {}
            None => {
                self.ids.insert(id, k);
            }
        }
    }

    fn fuzzy(&mut self, rep: &mut Report, w: &[char]) -> Vec<(u8, Vec<Vec<char>>)> {
        if let Some(t) = self.fz.get(w) {
            return t.clone();
        }
        let t = guarded(|| fuzzy_tables(&self.dict, w)).unwrap_or_default();
        for (_, rs) in &t {
            for r in rs {
                rep.monitor("fuzzy_results_checked_listed", 1);
                if !self.listed.contains_key(&s_of(r)) {
                    self.fuzzy_not_listed += 1;
                    rep.fail("monitor_fuzzy_not_listed", format!("suggest_correct_spelling({:?}) returned {:?}, which words_iter does not list", s_of(w), s_of(r)), json!({"kind":"text","text": s_of(w), "dialect":"American"}));
                }
            }
        }
        if self.fz.len() < 200_000 {
            self.fz.insert(w.to_vec(), t.clone());
        }
        t
    }
}

// ---------- correspondence lines ----------
fn entries_str(es: &[(Vec<char>, u8)]) -> String {
    es.iter().map(|(c, d)| format!("{} {}", d, cps(c))).collect::<Vec<_>>().join(" ; ")
}
fn fuzzy_str(fz: &[(Vec<char>, Vec<(u8, Vec<Vec<char>>)>)]) -> String {
    let mut parts = vec![];
    for (w, t) in fz {
        for (dist, rs) in t {
            let mut p = vec![dist.to_string(), cps(w)];
            p.extend(rs.iter().map(|r| cps(r)));
            parts.push(p.join(" , "));
        }
    }
    parts.join(" ; ")
}
fn spans_str(ws: &[(usize, usize)]) -> String {
    ws.iter().map(|(a, b)| format!("{a} {b}")).collect::<Vec<_>>().join(" ")
}

/// One L case (+ one F case per word token) for a run on the curated dictionary.
fn emit_case(cx: &mut Ctx, rep: &mut Report, r: &mut Rng, d: Dialect, run: &Run) {
    let t0 = std::time::Instant::now();
    let reported: HashSet<(usize, usize)> = run.lints.iter().map(|l| (l.span.start, l.span.end)).collect();
    let mut entries: Vec<(Vec<char>, u8)> = vec![];
    let mut fz = vec![];
    let mut seen_fz: HashSet<Vec<char>> = HashSet::new();
    let push = |entries: &mut Vec<(Vec<char>, u8)>, e: Option<(Vec<char>, u8)>| {
        if let Some(e) = e {
            if !entries.iter().any(|x| x.0 == e.0) {
                entries.push(e);
            }
        }
    };
    for (i, (a, b)) in run.words.iter().enumerate() {
        let w = &run.src[*a..*b];
        cx.see_id(rep, w);
        push(&mut entries, entry_of(&cx.dict, w));
        push(&mut entries, entry_of(&cx.dict, &w.to_lower()));
        // distractors: near neighbours with other ids
        if w.len() > 1 {
            push(&mut entries, entry_of(&cx.dict, &w[..w.len() - 1]));
            push(&mut entries, entry_of(&cx.dict, &w[1..]));
        }
        let mut ws = w.to_vec();
        ws.push('s');
        push(&mut entries, entry_of(&cx.dict, &ws));
        if reported.contains(&(*a, *b)) && seen_fz.insert(w.to_vec()) {
            let t = cx.fuzzy(rep, w);
            for (_, rs) in &t {
                for x in rs {
                    push(&mut entries, entry_of(&cx.dict, x));
                }
            }
            fz.push((w.to_vec(), t));
        }
        // the facts the decision reads, and the verdict
        let m = match run.metas[i] {
            None => 0,
            Some(dl) => 1 + dcode(dl),
        };
        let ex = cx.dict.contains_exact_word(w) as u8;
        let exl = cx.dict.contains_exact_word(&w.to_lower()) as u8;
        let acc = !reported.contains(&(*a, *b));
        rep.case(&format!("F {} {} {} {}", m, dcode(Some(d)), ex, exl), if acc { "1" } else { "0" });
    }
    // shuffle: the model must not depend on the order of the entries
    for i in (1..entries.len()).rev() {
        let j = r.below(i + 1);
        entries.swap(i, j);
    }
    let line = format!("L {} | {} | {} | {} | {}", dcode(Some(d)), cps(&run.src), spans_str(&run.words), entries_str(&entries), fuzzy_str(&fz));
    rep.case(&line, &lints_line(&run.lints));
    cx.emit_words(rep, &run.src, &run.words);
    cx.t_emit += t0.elapsed().as_secs_f64();
}

// ---------- the search oracle ----------
/// `words`: (start, len, expectation) with expectation 1 = must not be reported, 0 = must be reported with exactly
/// this span, 2 = no expectation.  `entry`: the dictionary entry the focus word is a form of (for the F24 class).
struct Placed {
    text: String,
    words: Vec<(usize, usize, u8)>,
    entry: String,
    form: &'static str,
    focus: usize,
}

fn placed_json(p: &Placed, d: Dialect) -> Value {
    json!({"kind":"sentence","text":p.text,"dialect":dname(d),"words":p.words.iter().map(|(a,b,c)| vec![*a,*b,*c as usize]).collect::<Vec<_>>(),"entry":p.entry,"form":p.form})
}

fn check_suggestions(cx: &Ctx, rep: &mut Report, d: Dialect, text: &str, l: &Lint) {
    if l.lint_kind != LintKind::Spelling {
        rep.fail("lint_kind", format!("SpellCheck produced a lint of kind {:?}", l.lint_kind), json!({"kind":"text","text":text,"dialect":dname(d)}));
    }
    if l.suggestions.len() > 3 {
        rep.fail("too_many_suggestions", format!("{} suggestions", l.suggestions.len()), json!({"kind":"text","text":text,"dialect":dname(d)}));
    }
    for s in &l.suggestions {
        rep.monitor("suggestions_checked", 1);
        let Suggestion::ReplaceWith(v) = s else {
            rep.fail("suggestion_not_listed", format!("suggestion {:?} is not a replacement", s.to_string()), json!({"kind":"text","text":text,"dialect":dname(d)}));
            continue;
        };
        let ok_exact = cx.compat(&s_of(v), d) == Some(true);
        // up to capitalising the first letter: some listed c of the dialect with c[1..] = v[1..] and upper(c[0]) starting with v[0]
        let ok_cap = !ok_exact
            && !v.is_empty()
            && cx.alphabet.iter().any(|a| {
                a.to_uppercase().next() == Some(v[0]) && {
                    let mut c = vec![*a];
                    c.extend(&v[1..]);
                    cx.compat(&s_of(&c), d) == Some(true)
                }
            });
        if !(ok_exact || ok_cap) {
            rep.fail(
                "suggestion_not_listed",
                format!("suggestion {:?} for {:?} is not a word of the {} dictionary, even after lower-casing its first letter", s_of(v), text.chars().skip(l.span.start).take(l.span.end.saturating_sub(l.span.start)).collect::<String>(), dname(d)),
                // `warm`: the dialects whose checkers (other SpellCheck instances, same thread) saw this text before this
                // one in the sweeps' fixed dialect order — a replay repeats that history (state shared between checkers)
                json!({"kind":"text","text":text,"dialect":dname(d),"warm":DIALECTS.iter().take_while(|x| **x != d).map(|x| dname(*x)).collect::<Vec<_>>()}),
            );
        }
    }
}

/// Evaluate the expectations of a placed text for one dialect.  Returns true when the implementation met them.
fn check_placed(cx: &mut Ctx, rep: &mut Report, d: Dialect, di: usize, p: &Placed, run: &Result<Run, String>) -> bool {
    rep.eval();
    let run = match run {
        Ok(r) => r,
        Err(m) => {
            rep.fail("panic", format!("Document::new_plain_english / SpellCheck::lint panicked: {m}"), placed_json(p, d));
            return false;
        }
    };
    if !run.lints.is_empty() {
        rep.nontrivial(&(p.text.clone(), di));
    }
    let mut ok = true;
    for l in &run.lints {
        check_suggestions(cx, rep, d, &p.text, l);
        let touches = p.words.iter().any(|(a, n, _)| l.span.start < a + n && *a < l.span.end);
        if !touches {
            ok = false;
            rep.fail("lint_outside_words", format!("spelling lint {}..{} touches none of the words of the text", l.span.start, l.span.end), placed_json(p, d));
        }
    }
    for (a, n, exp) in &p.words {
        let over: Vec<&Lint> = run.lints.iter().filter(|l| l.span.start < a + n && *a < l.span.end).collect();
        let w: String = run.src[*a..a + n].iter().collect();
        match exp {
            1 => {
                if !over.is_empty() {
                    ok = false;
                    rep.fail(
                        "listed_reported",
                        format!("{:?} ({} form of the listed {} entry {:?}) is reported as misspelt at {}..{}", w, p.form, dname(d), p.entry, over[0].span.start, over[0].span.end),
                        placed_json(p, d),
                    );
                }
            }
            3 => {
                let exact = over.len() == 1 && over[0].span.start == *a && over[0].span.end == a + n;
                if !exact {
                    ok = false;
                    rep.fail(
                        if over.is_empty() { "other_dialect_not_reported" } else { "other_dialect_wrong_span" },
                        format!("{:?} ({} form of {:?}, which the dictionary lists for another dialect only) {} in {} text", w, p.form, p.entry, if over.is_empty() { "is not reported".to_string() } else { format!("is reported with span(s) {:?} instead of {}..{}", over.iter().map(|l| (l.span.start, l.span.end)).collect::<Vec<_>>(), a, a + n) }, dname(d)),
                        placed_json(p, d),
                    );
                }
            }
            0 => {
                let exact = over.len() == 1 && over[0].span.start == *a && over[0].span.end == a + n;
                if !exact {
                    ok = false;
                    // FC06a (fixed by 7202fd4; the class names its return): lex_plural_digit cut `<ascii alnum>s` off a
                    // word whose next character is a non-ASCII letter
                    let wc: Vec<char> = w.chars().collect();
                    let plural_split = wc.len() > 2
                        && wc[0].is_ascii_alphanumeric()
                        && wc[1] == 's'
                        && !wc[2].is_ascii_alphanumeric()
                        && over.iter().any(|l| l.span.start == a + 2 && l.span.end == a + n)
                        && over.iter().all(|l| (l.span.start == a + 2 && l.span.end == a + n) || (l.span.start == *a && l.span.end == a + 2));
                    let class = if over.is_empty() {
                        "unlisted_not_reported"
                    } else if plural_split {
                        "unlisted_split_after_plural_s"
                    } else {
                        "unlisted_wrong_span"
                    };
                    rep.fail(
                        class,
                        format!("{:?} ({}) is not a word of the {} dictionary but {}", w, p.form, dname(d), if over.is_empty() { "is not reported".to_string() } else { format!("the lint(s) cover {:?} instead of {}..{}", over.iter().map(|l| (l.span.start, l.span.end)).collect::<Vec<_>>(), a, a + n) }),
                        placed_json(p, d),
                    );
                }
            }
            _ => {}
        }
    }
    ok
}

/// run a placed text in the given dialects (parse + lint per dialect); optionally emit correspondence cases
fn do_placed(cx: &mut Ctx, rep: &mut Report, r: &mut Rng, p: &dyn Fn(Dialect) -> Option<Placed>, dialects: &[usize], corr: [bool; 4]) {
    for &di in dialects {
        let d = DIALECTS[di];
        let Some(pl) = p(d) else { continue };
        let dict = cx.dict.clone();
        let t0 = std::time::Instant::now();
        let run = run_text(&dict, &mut cx.checkers[di], &pl.text);
        cx.t_impl += t0.elapsed().as_secs_f64();
        if corr[di] {
            match &run {
                Ok(rn) => emit_case(cx, rep, r, d, rn),
                Err(_) => rep.case(&format!("L {} | {} | | |", dcode(Some(d)), cps(&chars(&pl.text))), "P"),
            }
        }
        check_placed(cx, rep, d, di, &pl, &run);
    }
}

// ---------- generators ----------
const LATIN_EXTRA: &[char] = &['é', 'è', 'ê', 'ë', 'á', 'à', 'â', 'ä', 'å', 'æ', 'ç', 'í', 'ï', 'ñ', 'ó', 'ö', 'ø', 'ú', 'ü', 'ß', 'ž', 'ă', 'ğ', 'ș', 'œ', 'ł'];

fn mutate(r: &mut Rng, w: &[char]) -> Vec<char> {
    let mut v = w.to_vec();
    let letter = |r: &mut Rng| -> char {
        if r.chance(1, 12) {
            *r.pick(LATIN_EXTRA)
        } else {
            (b'a' + r.below(26) as u8) as char
        }
    };
    let n = 1 + r.below(2);
    for _ in 0..n {
        match r.below(4) {
            0 if !v.is_empty() => {
                let i = r.below(v.len());
                let c = letter(r);
                v[i] = if v[i].is_uppercase() { c.to_uppercase().next().unwrap() } else { c };
            }
            1 => {
                let i = r.below(v.len() + 1);
                let c = letter(r);
                v.insert(i, c);
            }
            2 if v.len() > 2 => {
                let i = r.below(v.len());
                v.remove(i);
            }
            _ if v.len() > 1 => {
                let i = r.below(v.len() - 1);
                v.swap(i, i + 1);
            }
            _ => {
                let c = letter(r);
                v.push(c);
            }
        }
    }
    v
}

fn random_letters(r: &mut Rng) -> Vec<char> {
    let long = r.chance(1, 6);
    let n = 1 + r.below(if long { 20 } else { 10 });
    let mut v: Vec<char> = (0..n).map(|_| if r.chance(1, 15) { *r.pick(LATIN_EXTRA) } else { (b'a' + r.below(26) as u8) as char }).collect();
    match r.below(5) {
        0 => v = cap1(&v),
        1 => v = upper(&v),
        2 => {
            for c in v.iter_mut() {
                if r.chance(1, 2) {
                    *c = c.to_uppercase().next().unwrap();
                }
            }
        }
        _ => {}
    }
    v
}

/// `<ASCII letter>s<non-ASCII Latin letter><letters>`: the shape lex_plural_digit (`a's`, `0s`, `Bs`) looks at — one
/// word, not `<letter>s` + the rest (FC06a, fixed by 7202fd4)
fn plural_prefix_word(r: &mut Rng) -> Vec<char> {
    let first = (if r.chance(1, 3) { b'A' } else { b'a' } + r.below(26) as u8) as char;
    let mut v = vec![first, 's', *r.pick(LATIN_EXTRA)];
    for _ in 0..r.below(9) {
        v.push(if r.chance(1, 6) { *r.pick(LATIN_EXTRA) } else { (b'a' + r.below(26) as u8) as char });
    }
    if r.chance(1, 8) {
        v = upper(&v);
        v[1] = 's';
    }
    v
}

/// a letter of the Latin alphabet: ASCII, Latin-1 Supplement, Latin Extended-A/B, Latin Extended Additional
/// (modifier letters such as U+02BB, which the dictionary's alphabet has, are alphabetic but not Latin script)
fn is_latin_letter(c: char) -> bool {
    c.is_ascii_alphabetic() || (c.is_alphabetic() && (('\u{C0}'..='\u{24F}').contains(&c) || ('\u{1E00}'..='\u{1EFF}').contains(&c)))
}

/// a letter string the dictionary does not contain under any capitalisation (ground truth: words_iter keys)
fn is_unlisted_word(cx: &Ctx, w: &[char]) -> bool {
    if w.is_empty() || !w.iter().all(|c| is_latin_letter(*c)) {
        return false;
    }
    let k = key_of(w);
    // `w.` is looked up as a whole when w is followed by a period and is one of etc / vs / an initialism: out of domain
    let mut kp = k.clone();
    kp.push('.');
    !cx.keys.contains(&k) && !cx.keys.contains(&kp)
}

struct SentenceParts {
    fillers: Vec<String>,
}

/// builds `[before ]<pre>focus<post>[ after]<term>[ second sentence]` and records where every word is
fn sentence(r: &mut Rng, sp: &SentenceParts, focus: &[char], focus_exp: u8, pos: usize, entry: &str, form: &'static str, allow_quote_marks: bool) -> Placed {
    let mut text = String::new();
    let mut words = vec![];
    let mut n = 0usize; // chars so far
    let push_word = |text: &mut String, n: &mut usize, words: &mut Vec<(usize, usize, u8)>, w: &str, exp: u8| {
        let len = w.chars().count();
        words.push((*n, len, exp));
        text.push_str(w);
        *n += len;
    };
    let push_str = |text: &mut String, n: &mut usize, s: &str| {
        text.push_str(s);
        *n += s.chars().count();
    };
    let before = if pos == 0 { 0 } else { 1 + r.below(4) };
    let after = if pos == 2 { 0 } else { 1 + r.below(4) };
    for i in 0..before {
        let f = r.pick(&sp.fillers).clone();
        let f = if i == 0 { s_of(&cap1(&chars(&f))) } else { f };
        push_word(&mut text, &mut n, &mut words, &f, 1);
        push_str(&mut text, &mut n, if r.chance(1, 10) { ", " } else { " " });
    }
    let (pre, post) = match r.below(if allow_quote_marks { 12 } else { 7 }) {
        0 => ("(", ")"),
        1 => ("", ","),
        2 => ("", ";"),
        3 => ("", ":"),
        7 => ("\"", "\""),
        8 => ("“", "”"),
        9 => ("'", "'"),
        10 => ("‘", "’"),
        _ => ("", ""),
    };
    push_str(&mut text, &mut n, pre);
    let focus_idx = words.len();
    push_word(&mut text, &mut n, &mut words, &s_of(focus), focus_exp);
    push_str(&mut text, &mut n, post);
    for _ in 0..after {
        push_str(&mut text, &mut n, " ");
        let f = r.pick(&sp.fillers).clone();
        push_word(&mut text, &mut n, &mut words, &f, 1);
    }
    let term = *r.pick(&[".", ".", ".", "!", "?", "", "...", "…", ".\n", ".\n\n"]);
    // English typography: an abbreviation's own period absorbs the full stop (`... et al.`, never `et al..`, which the lexer reads
    // as `et al` + an ellipsis of two periods — corpus/C06/edge.json keeps that text as a correspondence case)
    let term = if text.ends_with('.') && term.starts_with('.') && !term.starts_with("...") { &term[1..] } else { term };
    push_str(&mut text, &mut n, term);
    if r.chance(1, 3) {
        if !term.ends_with('\n') {
            push_str(&mut text, &mut n, " ");
        }
        let k = 2 + r.below(4);
        for i in 0..k {
            let f = r.pick(&sp.fillers).clone();
            let f = if i == 0 { s_of(&cap1(&chars(&f))) } else { f };
            push_word(&mut text, &mut n, &mut words, &f, 1);
            push_str(&mut text, &mut n, if i + 1 < k { " " } else { "." });
        }
    }
    Placed { text, words, entry: entry.to_string(), form, focus: focus_idx }
}

// ---------- mini dictionaries: the whole dictionary goes to the model ----------
fn mini_case(rep: &mut Report, entries_in: &[(String, Option<Dialect>)], d: Dialect, text: &str, origin: &str) {
    rep.eval();
    let inp = json!({"kind":"mini","dict": entries_in.iter().map(|(w, dl)| json!([w, dl.map(dname)])).collect::<Vec<_>>(), "dialect": dname(d), "text": text, "origin": origin});
    let mut md = MutableDictionary::new();
    for (w, dl) in entries_in {
        md.append_word_str(w, WordMetadata { dialect: *dl, ..Default::default() });
    }
    let md = Arc::new(md);
    // the dictionary after it was built: what words_iter lists (a later insertion under the same id replaced the earlier)
    let mut entries: Vec<(Vec<char>, u8)> = md.words_iter().map(|w| (w.to_vec(), dcode(md.get_word_metadata(w).and_then(|m| m.dialect)))).collect();
    entries.sort();
    let mut sc = SpellCheck::new(md.clone(), d);
    let run = run_text(&md, &mut sc, text);
    match run {
        Err(m) => {
            rep.case(&format!("L {} | {} | | {} |", dcode(Some(d)), cps(&chars(text)), entries_str(&entries)), "P");
            rep.fail("panic", format!("mini dictionary run panicked: {m}"), inp);
        }
        Ok(run) => {
            let reported: HashSet<(usize, usize)> = run.lints.iter().map(|l| (l.span.start, l.span.end)).collect();
            let mut fz = vec![];
            let mut seen: HashSet<Vec<char>> = HashSet::new();
            for (a, b) in &run.words {
                let w = &run.src[*a..*b];
                if reported.contains(&(*a, *b)) && seen.insert(w.to_vec()) {
                    fz.push((w.to_vec(), fuzzy_tables(&md, w)));
                }
            }
            let line = format!("L {} | {} | {} | {} | {}", dcode(Some(d)), cps(&run.src), spans_str(&run.words), entries_str(&entries), fuzzy_str(&fz));
            rep.case(&line, &lints_line(&run.lints));
            rep.count(&format!("mini:{}", if run.lints.is_empty() { "no_lint" } else { "lints" }));
            // the property on the mini dictionary, token by token (ground truth: the entries words_iter lists, own key
            // recipe): a token spelt like an entry of the dialect (up to the apostrophe style) is not reported; a token
            // whose key no entry has, or only an entry of another dialect, is reported with exactly its span
            let dc = dcode(Some(d));
            let norm = |w: &[char]| -> Vec<char> { w.iter().map(|c| norm_char(*c)).collect() };
            for (a, b) in &run.words {
                let w = &run.src[*a..*b];
                let k = key_of(w);
                let same_key: Vec<&(Vec<char>, u8)> = entries.iter().filter(|(c, _)| key_of(c) == k).collect();
                let is_rep = reported.contains(&(*a, *b));
                if same_key.iter().any(|(c, dl)| norm(c) == norm(w) && (*dl == 0 || *dl == dc)) {
                    rep.count("mini:token_spelt_like_an_entry");
                    if w.iter().any(|c| norm_char(*c) != *c) || same_key.iter().any(|(c, _)| c.iter().any(|x| norm_char(*x) != *x)) {
                        rep.count("mini:token_or_entry_with_typographic_apostrophe");
                    }
                    if is_rep {
                        rep.fail("mini_listed_reported", format!("mini dictionary: the word token {:?} at {}..{} is spelt like an entry of the {} dictionary and is reported", s_of(w), a, b, dname(d)), inp.clone());
                    }
                } else if same_key.is_empty() {
                    rep.count("mini:token_unlisted");
                    if !is_rep {
                        rep.fail("mini_unlisted_not_reported", format!("mini dictionary: no entry has the key of the word token {:?} at {}..{} and there is no lint with that span", s_of(w), a, b), inp.clone());
                    }
                } else if same_key.iter().all(|(_, dl)| *dl != 0 && *dl != dc) {
                    rep.count("mini:token_other_dialect");
                    if !is_rep {
                        rep.fail("mini_other_dialect_not_reported", format!("mini dictionary: the word token {:?} at {}..{} is listed for another dialect only and is not reported in {} text", s_of(w), a, b, dname(d)), inp.clone());
                    }
                }
            }
            for l in &run.lints {
                if !run.words.contains(&(l.span.start, l.span.end)) {
                    rep.fail("lint_outside_words", format!("mini dictionary: the spelling lint {}..{} is not the span of a word token", l.span.start, l.span.end), inp.clone());
                }
            }
            // the property on the mini dictionary: suggestions are entries of the dialect (up to the first letter)
            for l in &run.lints {
                for s in &l.suggestions {
                    let Suggestion::ReplaceWith(v) = s else { continue };
                    let ok = entries.iter().any(|(c, dl)| (*dl == 0 || *dl == dcode(Some(d))) && !c.is_empty() && !v.is_empty() && c[1..] == v[1..] && (c[0] == v[0] || c[0].to_uppercase().next() == Some(v[0])));
                    if !ok {
                        rep.fail("suggestion_not_listed", format!("mini dictionary: suggestion {:?} is not an entry of the dialect", s_of(v)), inp.clone());
                    }
                }
            }
            if !run.lints.is_empty() {
                rep.nontrivial(&(text.to_string(), entries.clone(), dcode(Some(d))));
            }
        }
    }
}

fn random_mini(r: &mut Rng) -> (Vec<(String, Option<Dialect>)>, Dialect, String) {
    const STEMS: &[&str] = &["ab", "abc", "ba", "bab", "cab", "a", "b", "abba", "don't", "ab's", "o'b", "Ab", "aB", "AB", "Bab", "é", "éa", "Éa", "aß", "İb", "ab-ba", "a b", "ǅa", "ﬁb", "ſa", "don’t", "ab’s", "o’b", "Ab’s"];
    let n = 1 + r.below(6);
    let mut entries = vec![];
    for _ in 0..n {
        let mut w = r.s(STEMS).to_string();
        if r.chance(1, 4) {
            w.push_str(r.s(&["s", "a", "b", "'s", "c"]));
        }
        let dl = match r.below(7) {
            0 => Some(Dialect::American),
            1 => Some(Dialect::British),
            2 => Some(Dialect::Canadian),
            3 => Some(Dialect::Australian),
            _ => None,
        };
        entries.push((w, dl));
    }
    let d = DIALECTS[r.below(4)];
    let k = 1 + r.below(5);
    let mut text = String::new();
    for i in 0..k {
        if i > 0 {
            text.push_str(r.s(&[" ", " ", ", ", ". ", "-", "\n"]));
        }
        let mut w: String = if r.chance(2, 3) { entries[r.below(entries.len())].0.clone() } else { r.s(STEMS).to_string() };
        match r.below(9) {
            0 => w = w.to_uppercase(),
            1 => w = s_of(&cap1(&chars(&w))),
            2 => w = w.to_lowercase(),
            3 => w = w.replace('\'', "’"),
            4 => w = s_of(&mutate(r, &chars(&w))),
            5 => w = w.replace('’', "'"),
            _ => {}
        }
        text.push_str(&w);
    }
    (entries, d, text)
}

// ---------- corpus / replay ----------
fn replay_input(cx: &mut Ctx, rep: &mut Report, r: &mut Rng, v: &Value) {
    match v["kind"].as_str().unwrap_or("") {
        "f24" | "multi_token_entries" => {} // the committed lists: read at start-up
        "mini" | "witness" => {
            let entries: Vec<(String, Option<Dialect>)> = v["dict"].as_array().cloned().unwrap_or_default().iter().map(|e| (e[0].as_str().unwrap_or("").to_string(), e[1].as_str().and_then(dialect_of))).collect();
            let d = v["dialect"].as_str().and_then(dialect_of).unwrap_or(Dialect::American);
            mini_case(rep, &entries, d, v["text"].as_str().unwrap_or(""), "corpus");
        }
        "sentence" => {
            let words: Vec<(usize, usize, u8)> = v["words"].as_array().cloned().unwrap_or_default().iter().map(|w| (w[0].as_u64().unwrap_or(0) as usize, w[1].as_u64().unwrap_or(0) as usize, w[2].as_u64().unwrap_or(2) as u8)).collect();
            let text = v["text"].as_str().unwrap_or("").to_string();
            let entry = v["entry"].as_str().unwrap_or("").to_string();
            let n = text.chars().count();
            let words: Vec<_> = words.into_iter().filter(|(a, l, _)| a + l <= n).collect();
            let dl: Vec<usize> = match v["dialect"].as_str().and_then(dialect_of) {
                Some(d) => vec![DIALECTS.iter().position(|x| *x == d).unwrap()],
                None => vec![0, 1, 2, 3],
            };
            let f = |_d: Dialect| Some(Placed { text: text.clone(), words: words.clone(), entry: entry.clone(), form: "corpus", focus: 0 });
            do_placed(cx, rep, r, &f, &dl, [true; 4]);
        }
        "expected_listed" => {
            // a sample of the word list of the pinned tree: a dictionary build that loses words (a dropped affix class)
            // changes words_iter itself, so the ground truth for this one oracle is the committed list
            let tag = v["dialect"].as_str().and_then(dialect_of);
            for wv in v["words"].as_array().cloned().unwrap_or_default() {
                let ws = wv.as_str().unwrap_or("").to_string();
                let w = chars(&ws);
                rep.eval();
                rep.count("committed_word_sample:words");
                let inp = json!({"kind":"expected_listed","dialect":tag.map(dname),"words":[ws]});
                match cx.listed.get(&ws) {
                    None => rep.fail("dictionary_lost_word", format!("{:?} was a word of the curated dictionary (committed sample corpus/C06/wordlist_sample.json) and is no longer listed by words_iter", ws), inp),
                    Some(dl) if *dl != tag => rep.fail("dictionary_lost_word", format!("{:?}: dialect tag changed from {:?} to {:?}", ws, tag.map(dname), dl.map(dname)), inp),
                    Some(_) => {
                        // still listed: it is decided like every listed word (and the sweep below covers it again)
                        let di = match tag {
                            Some(d) => DIALECTS.iter().position(|x| *x == d).unwrap(),
                            None => r.below(4),
                        };
                        let n = w.len();
                        let single = cx.is_single(&ws);
                        if single {
                            let f = |_d: Dialect| Some(Placed { text: ws.clone(), words: vec![(0, n, 1)], entry: ws.clone(), form: "committed sample", focus: 0 });
                            do_placed(cx, rep, r, &f, &[di], [false; 4]);
                        }
                    }
                }
            }
        }
        "alnum" => {
            let w = chars(v["word"].as_str().unwrap_or(""));
            alnum_case(cx, rep, &w, "corpus");
        }
        "sent_items" => {
            let its = items_of_json(&v["items"]);
            sentence_items_case(cx, rep, r, &its, "corpus", true);
        }
        "sent_text" => {
            let its = items_of_text(&chars(v["text"].as_str().unwrap_or("")));
            sentence_items_case(cx, rep, r, &its, "corpus", true);
        }
        "listed" => {
            let w = chars(v["word"].as_str().unwrap_or(""));
            if cx.listed.contains_key(&s_of(&w)) {
                listed_entry(cx, rep, r, &w, true, true);
            }
        }
        _ => {
            // "text": correspondence + suggestion oracle, no expectation about which words are reported
            let text = v["text"].as_str().unwrap_or("").to_string();
            // inputs added in later phases carry "own_rng": the shared stream (and with it every generated input that follows
            // the corpus) stays what it was
            let mut lr = Rng::new(fnv1a64(&[chars(&text)]) ^ 0xC06_7E87);
            let r: &mut Rng = if v["own_rng"].as_bool() == Some(true) { &mut lr } else { r };
            let dl: Vec<usize> = match v["dialect"].as_str().and_then(dialect_of) {
                Some(d) => vec![DIALECTS.iter().position(|x| *x == d).unwrap()],
                None => vec![0, 1, 2, 3],
            };
            for wd in v["warm"].as_array().cloned().unwrap_or_default().iter().filter_map(|x| x.as_str().and_then(dialect_of)) {
                // fresh checkers of other dialects lint the text first (history of a multi-step failure)
                let dict = cx.dict.clone();
                let mut sc = SpellCheck::new(dict.clone(), wd);
                let _ = run_text(&dict, &mut sc, &text);
            }
            let f = |_d: Dialect| Some(Placed { text: text.clone(), words: vec![(0, text.chars().count(), 2)], entry: String::new(), form: "text", focus: 0 });
            do_placed(cx, rep, r, &f, &dl, [true; 4]);
        }
    }
}

/// the listed word alone, and (for a lower-case entry) capitalised and upper-cased, in all four dialects
fn listed_forms(cx: &mut Ctx, rep: &mut Report, r: &mut Rng, w: &[char], corr: bool, case_forms: bool) {
    let entry = s_of(w);
    let single = cx.is_single(&entry);
    let mut forms: Vec<(Vec<char>, &'static str)> = vec![(w.to_vec(), "listed")];
    if case_forms && is_lower_entry(w) {
        let c = cap1(w);
        let u = upper(w);
        if c != w {
            forms.push((c, "capitalised"));
        }
        if u != w {
            forms.push((u, "upper-case"));
        }
    }
    if case_forms && w.contains(&'\'') {
        // the same word typed with a typographic apostrophe
        forms.push((w.iter().map(|c| if *c == '\'' { '\u{2019}' } else { *c }).collect(), "curly-apostrophe"));
        if is_lower_entry(w) {
            forms.push((cap1(w).iter().map(|c| if *c == '\'' { '\u{2019}' } else { *c }).collect(), "capitalised curly-apostrophe"));
        }
    }
    // forms that are NOT one Word token although the entry is ("0S" for "0s", "Baha’i’s" for "Baha'i's"): F24 again;
    // the committed list names them per entry and dialect by letter: c capitalised, u upper-case, q / Q curly apostrophe
    let mut odd_forms: Vec<String> = vec![String::new(); 4];
    for (f, form) in forms.iter() {
        let n = f.len();
        let form_single = *form == "listed" || cx.is_single(&s_of(f));
        let letter = match *form {
            "capitalised" => 'c',
            "upper-case" => 'u',
            "curly-apostrophe" => 'q',
            _ => 'Q',
        };
        let mk = |d: Dialect| -> Option<Placed> {
            let exp = match cx.compat(&entry, d) {
                Some(true) => {
                    if form_single {
                        1
                    } else {
                        2
                    }
                }
                Some(false) => {
                    if single && form_single {
                        3
                    } else {
                        2
                    }
                }
                None => 2,
            };
            Some(Placed { text: s_of(f), words: vec![(0, n, exp)], entry: entry.clone(), form, focus: 0 })
        };
        // a word without a dialect is decided alike in all four: correspondence in one (rotating), oracle in all
        let has_dialect = cx.listed.get(&entry).map(|d| d.is_some()).unwrap_or(false);
        let pls: Vec<Option<Placed>> = DIALECTS.iter().map(|d| mk(*d)).collect();
        let rot = r.below(4);
        for di in 0..4 {
            let Some(pl) = &pls[di] else { continue };
            let dict = cx.dict.clone();
            let t0 = std::time::Instant::now();
            let run = run_text(&dict, &mut cx.checkers[di], &pl.text);
            cx.t_impl += t0.elapsed().as_secs_f64();
            if corr && (has_dialect || di == rot) {
                match &run {
                    Ok(rn) => emit_case(cx, rep, r, DIALECTS[di], rn),
                    Err(_) => rep.case(&format!("L {} | {} | | |", di + 1, cps(&chars(&pl.text))), "P"),
                }
            }
            check_placed(cx, rep, DIALECTS[di], di, pl, &run);
            if !form_single && cx.compat(&entry, DIALECTS[di]) == Some(true) {
                if let Ok(rn) = &run {
                    if !rn.lints.is_empty() {
                        odd_forms[di].push(letter);
                    }
                }
            }
        }
    }
    for di in 0..4 {
        if odd_forms[di].is_empty() {
            continue;
        }
        let d = DIALECTS[di];
        let code = dcode(Some(d));
        let committed = cx.f24.get(&(entry.clone(), code)).cloned().unwrap_or_default();
        let known: String = odd_forms[di].chars().filter(|c| committed.contains(*c)).collect();
        let new: String = odd_forms[di].chars().filter(|c| !committed.contains(*c)).collect();
        let inp = json!({"kind":"listed","word":entry,"dialect":dname(d)});
        if !known.is_empty() {
            rep.fail("f24_multi_token_entry_reported", format!("dictionary entry {:?} ({}): its written form is not one Word token and is reported as misspelt in contexts {} (committed F24 list)", entry, dname(d), known), inp.clone());
        }
        if !new.is_empty() {
            rep.fail("listed_reported", format!("dictionary entry {:?} ({}): its forms {} (c capitalised, u upper-case, q/Q curly apostrophe) are not one Word token and are reported as misspelt; the committed F24 list does not have them", entry, dname(d), new), inp);
        }
        cx.f24_seen.insert((entry.clone(), code), odd_forms[di].clone());
    }
}

/// The contexts in which an entry that is NOT one Word token is tried: (text before, text after, form: 0 as listed,
/// 1 capitalised, 2 upper-case).  The committed F24 list names, per dialect and entry, the contexts (by index) in
/// which the entry is reported; the match must be exact.
const CONTEXTS: [(&str, &str, u8); 9] = [
    ("", "", 0),
    ("", "", 1),
    ("", "", 2),
    ("It was ", "", 0),
    ("It was ", ".", 0),
    ("", " was it.", 0),
    ("It was ", ", was it?", 0),
    ("It was (", ") again.", 0),
    ("It was “", "” again.", 0),
];

fn multi_token_entry(cx: &mut Ctx, rep: &mut Report, r: &mut Rng, w: &[char]) {
    let entry = s_of(w);
    rep.count("entry:not_one_word_token");
    let rot = r.below(4);
    for di in 0..4 {
        let d = DIALECTS[di];
        let code = dcode(Some(d));
        let compat = cx.compat(&entry, d) == Some(true);
        let mut reported = String::new();
        for (ci, (pre, post, form)) in CONTEXTS.iter().enumerate() {
            let f = match form {
                0 => w.to_vec(),
                _ => {
                    let c = if *form == 1 { cap1(w) } else { upper(w) };
                    if !is_lower_entry(w) || c == w {
                        continue;
                    }
                    c
                }
            };
            if !compat && ci > 0 {
                break; // an entry of another dialect: correspondence on the entry alone, no expectation
            }
            let text = format!("{pre}{}{post}", s_of(&f));
            let (a, n) = (pre.chars().count(), f.len());
            let dict = cx.dict.clone();
            let run = run_text(&dict, &mut cx.checkers[di], &text);
            rep.eval();
            let inp = json!({"kind":"listed","word":entry,"dialect":dname(d),"context":ci,"text":text});
            match run {
                Err(m) => rep.fail("panic", format!("Document::new_plain_english / SpellCheck::lint panicked: {m}"), inp),
                Ok(run) => {
                    if ci == 0 || di == rot {
                        emit_case(cx, rep, r, d, &run);
                    }
                    if !compat {
                        continue;
                    }
                    let mut hit = false;
                    for l in &run.lints {
                        check_suggestions(cx, rep, d, &text, l);
                        if l.span.start < a + n && a < l.span.end {
                            hit = true;
                        } else {
                            rep.fail("listed_reported", format!("a word of the frame around {:?} is reported at {}..{}", entry, l.span.start, l.span.end), inp.clone());
                        }
                    }
                    if hit {
                        reported.push(char::from_digit(ci as u32, 10).unwrap());
                        rep.nontrivial(&(text.clone(), di));
                    }
                }
            }
        }
        if !compat {
            continue;
        }
        let committed = cx.f24.get(&(entry.clone(), code)).cloned().unwrap_or_default();
        let known: String = reported.chars().filter(|c| committed.contains(*c)).collect();
        let new: String = reported.chars().filter(|c| !committed.contains(*c)).collect();
        let inp = json!({"kind":"listed","word":entry,"dialect":dname(d)});
        if !known.is_empty() {
            rep.fail("f24_multi_token_entry_reported", format!("dictionary entry {:?} ({}) is not one Word token and is reported as misspelt in contexts {} (committed F24 list)", entry, dname(d), known), inp.clone());
        }
        if !new.is_empty() {
            rep.fail("listed_reported", format!("dictionary entry {:?} ({}; not one Word token) is reported as misspelt in contexts {}, which the committed F24 list does not have for it", entry, dname(d), new), inp);
        }
        if !reported.is_empty() {
            cx.f24_seen.insert((entry.clone(), code), reported);
        }
    }
}

fn listed_entry(cx: &mut Ctx, rep: &mut Report, r: &mut Rng, w: &[char], corr: bool, case_forms: bool) {
    if corr || !cx.is_single(&s_of(w)) {
        cx.emit_one_word(rep, &s_of(w));
    }
    if cx.is_single(&s_of(w)) {
        listed_forms(cx, rep, r, w, corr, case_forms);
    } else {
        multi_token_entry(cx, rep, r, w);
    }
}


// ---------- the Unicode predicates of the lexer model (C02's Lexer.uni) ----------
fn ranges(pred: impl Fn(char) -> bool) -> Vec<(u32, u32)> {
    let mut out: Vec<(u32, u32)> = vec![];
    let mut cur: Option<(u32, u32)> = None;
    for cp in 0..=0x10FFFFu32 {
        let v = char::from_u32(cp).map(|c| pred(c)).unwrap_or(false);
        match (v, cur) {
            (true, Some((a, _))) => cur = Some((a, cp)),
            (true, None) => cur = Some((cp, cp)),
            (false, Some(r)) => {
                out.push(r);
                cur = None
            }
            (false, None) => {}
        }
    }
    if let Some(r) = cur {
        out.push(r);
    }
    out
}

/// CharExt::is_english_lingual is private; on the one-character text [c] the lexer answers Word exactly when
/// lex_word accepts c, i.e. when c is lingual (ASCII digits are taken by lex_number before) — as in c02.rs
fn observed_lingual(c: char) -> bool {
    if !c.is_alphabetic() {
        return false;
    }
    let t = PlainEnglish.parse(&[c]);
    t.len() == 1 && matches!(t[0].kind, TokenKind::Word(_))
}

/// simple_word of C06WordsProofs.v on the implementation's predicates: letters, or letters + one apostrophe + letters
fn is_simple_rs(w: &[char]) -> bool {
    if !w.is_empty() && w.iter().all(|c| observed_lingual(*c)) {
        return true;
    }
    let idx: Vec<usize> = w.iter().enumerate().filter(|(_, c)| matches!(**c, '\'' | '\u{2019}')).map(|(i, _)| i).collect();
    if idx.len() != 1 {
        return false;
    }
    let (a, b) = (&w[..idx[0]], &w[idx[0] + 1..]);
    !a.is_empty() && !b.is_empty() && a.iter().chain(b.iter()).all(|c| observed_lingual(*c))
}
/// word_body of C06AlnumProofs.v: a letter, then letters or ASCII digits
fn is_body_rs(a: &[char]) -> bool {
    !a.is_empty() && observed_lingual(a[0]) && a[1..].iter().all(|c| observed_lingual(*c) || c.is_ascii_digit())
}
/// alnum_word of C06AlnumProofs.v: a body, or body + apostrophe (the FIRST apostrophe character) + body
fn is_alnum_rs(w: &[char]) -> bool {
    if is_body_rs(w) {
        return true;
    }
    match w.iter().position(|c| matches!(*c, '\'' | '\u{2019}')) {
        Some(i) => is_body_rs(&w[..i]) && is_body_rs(&w[i + 1..]),
        None => false,
    }
}
/// the extended one-word characterisation (theorem C06_alnum_word_one_word) on the implementation: B = the model's
/// classification is the harness's, O = the model's one-word verdict is the implementation's, and a word of the class
/// must be exactly one Word token when written alone
fn alnum_case(cx: &mut Ctx, rep: &mut Report, w: &[char], what: &str) -> bool {
    rep.eval();
    let al = is_alnum_rs(w);
    rep.case(&format!("B {}", cps(w)), &format!("{}{}", is_simple_rs(w) as u8, al as u8));
    cx.emit_one_word(rep, &s_of(w));
    rep.count(&format!("alnum_stream:{}:{}", what, if al { "in the class" } else { "outside the class" }));
    if al && !cx.is_single(&s_of(w)) {
        rep.fail("alnum_word_not_one_token", format!("{:?} is a letter followed by letters / ASCII digits (+ one apostrophe + such a word) but is not exactly one Word token when written alone", s_of(w)), json!({"kind":"alnum","word":s_of(w)}));
        return false;
    }
    true
}
/// letter, then letters / digits, biased towards the shapes lex_plural_digit looks at (`Xs..`, `X's..`)
fn random_body(r: &mut Rng) -> Vec<char> {
    let letter = |r: &mut Rng| -> char {
        match r.below(12) {
            0 => *r.pick(LATIN_EXTRA),
            1 | 2 => (b'A' + r.below(26) as u8) as char,
            3 => 's',
            _ => (b'a' + r.below(26) as u8) as char,
        }
    };
    let mut v = vec![letter(r)];
    if r.chance(1, 4) {
        v.push('s');
    }
    for _ in 0..r.below(7) {
        let c = if r.chance(1, 3) { (b'0' + r.below(10) as u8) as char } else { letter(r) };
        v.push(c);
    }
    v
}
fn random_alnum(r: &mut Rng) -> Vec<char> {
    let mut v = random_body(r);
    match r.below(10) {
        0..=2 => {
            v.push(if r.chance(1, 2) { '\'' } else { '\u{2019}' });
            if r.chance(1, 3) { v.push('s') } else { v.extend(random_body(r)) }
        }
        3 => {
            // near misses: outside the class (the model must classify them like the harness and cut them like the lexer)
            match r.below(5) {
                0 => v.insert(0, (b'0' + r.below(10) as u8) as char),
                1 => { v.push('\''); v.extend(random_body(r)); v.push('\''); v.push('s') }
                2 => { v.push('-'); v.extend(random_body(r)) }
                3 => { v.push('.'); }
                _ => { v.push('\''); v.push((b'0' + r.below(10) as u8) as char); v.push('s') }
            }
        }
        _ => {}
    }
    v
}

// ---------- phase 5: sentences of the class of Model/C06Sentence.v (theorems C06_sentence_*) ----------
#[derive(Clone, Debug)]
enum SItem {
    W(Vec<char>),
    S(usize),
    P(char),
}
/// sep_punct of C06Sentence.v on the implementation: a character Punctuation::from_char knows, except . : @ [ the
/// apostrophes and the quote characters
fn sep_punct_rs(c: char) -> bool {
    if matches!(c, '.' | ':' | '@' | '[' | '"' | '\u{201C}' | '\u{201D}') {
        return false;
    }
    !matches!(Punctuation::from_char(c), Some(Punctuation::Period) | Some(Punctuation::Apostrophe) | Some(Punctuation::Quote(_)) | None)
}
/// sent_ok on the implementation's predicates
fn items_ok_rs(its: &[SItem]) -> bool {
    // phase 6 (C06SentenceDot.v: sentp_ok): ONE final period after a sentence of the class whose last item, when it is a word,
    // is none of the words condense_latin looks for in front of a period (etc, vs, al — any ASCII capitalisation)
    if let Some((SItem::P('.'), front)) = its.split_last() {
        // phase 7 (C06SentenceContrDot.v: sentcp_ok): contractions in front of the final period — the front is grouped and collapsed
        // like a sentence with contractions, the etc / vs / al condition is evaluated on the last COLLAPSED item
        if front.iter().any(|it| matches!(it, SItem::P('\'') | SItem::P('\u{2019}'))) {
            return match contr_collapse(front) {
                Some(col) => match col.last() {
                    Some(SItem::W(w)) => {
                        let ws: String = w.iter().collect();
                        !(w.len() == ws.len() && ["etc", "vs", "al"].iter().any(|x| ws.eq_ignore_ascii_case(x)))
                    }
                    _ => true,
                },
                None => false,
            };
        }
        if let Some(SItem::W(w)) = front.last() {
            let ws: String = w.iter().collect();
            if w.len() == ws.len() && ["etc", "vs", "al"].iter().any(|x| ws.eq_ignore_ascii_case(x)) {
                return false;
            }
        }
        return items_ok_front(front);
    }
    // phase 6, step 2 (C06SentenceContr.v: sentc_ok): an item list with an apostrophe item is a sentence with contractions
    if its.iter().any(|it| matches!(it, SItem::P('\'') | SItem::P('\u{2019}'))) {
        return contr_collapse(its).is_some();
    }
    items_ok_front(its)
}
/// sentc_ok + collapse (C06SentenceContr.v) on the implementation's predicates: W q W triples (q an apostrophe) are grouped
/// greedily from the left, exactly like the driver; Some(collapsed items) iff the grouped list is of the class
fn contr_collapse(its: &[SItem]) -> Option<Vec<SItem>> {
    let is_apos = |it: &SItem| matches!(it, SItem::P('\'') | SItem::P('\u{2019}'));
    let mut out: Vec<(SItem, bool)> = vec![]; // (collapsed item, word-like)
    let mut i = 0;
    while i < its.len() {
        match (&its[i], its.get(i + 1), its.get(i + 2)) {
            (SItem::W(w1), Some(q), Some(SItem::W(w2))) if is_apos(q) => {
                let qc = if let SItem::P(c) = q { *c } else { unreachable!() };
                if !is_body_rs(w1) || !is_body_rs(w2) || (w1.len() == 1 && qc == '\'' && w2.len() == 1 && w2[0] == 's') {
                    return None;
                }
                let mut w = w1.clone();
                w.push(qc);
                w.extend(w2);
                out.push((SItem::W(w), true));
                i += 3;
            }
            (SItem::W(w), _, _) => {
                if !is_body_rs(w) {
                    return None;
                }
                out.push((SItem::W(w.clone()), true));
                i += 1;
            }
            (SItem::S(n), _, _) => {
                if *n == 0 {
                    return None;
                }
                out.push((SItem::S(*n), false));
                i += 1;
            }
            (SItem::P(c), _, _) => {
                if !sep_punct_rs(*c) {
                    return None;
                }
                out.push((SItem::P(*c), false));
                i += 1;
            }
        }
    }
    for k in 0..out.len().saturating_sub(1) {
        if (out[k].1 && out[k + 1].1) || matches!((&out[k].0, &out[k + 1].0), (SItem::S(_), SItem::S(_))) {
            return None;
        }
    }
    Some(out.into_iter().map(|x| x.0).collect())
}
/// sent_ok (phase 5) on the implementation's predicates
fn items_ok_front(its: &[SItem]) -> bool {
    for (i, it) in its.iter().enumerate() {
        let ok = match it {
            SItem::W(w) => is_body_rs(w),
            SItem::S(n) => *n > 0,
            SItem::P(c) => sep_punct_rs(*c),
        };
        if !ok {
            return false;
        }
        if let Some(nx) = its.get(i + 1) {
            if matches!((it, nx), (SItem::W(_), SItem::W(_)) | (SItem::S(_), SItem::S(_))) {
                return false;
            }
        }
    }
    true
}
fn items_line(its: &[SItem]) -> String {
    its.iter()
        .map(|it| match it {
            SItem::W(w) => format!("w {}", cps(w)).trim().to_string(),
            SItem::S(n) => format!("s {n}"),
            SItem::P(c) => format!("p {}", *c as u32),
        })
        .collect::<Vec<_>>()
        .join(";")
}
fn items_json(its: &[SItem]) -> Value {
    Value::Array(
        its.iter()
            .map(|it| match it {
                SItem::W(w) => json!(["w", s_of(w)]),
                SItem::S(n) => json!(["s", n]),
                SItem::P(c) => json!(["p", c.to_string()]),
            })
            .collect(),
    )
}
fn items_of_json(v: &Value) -> Vec<SItem> {
    v.as_array()
        .cloned()
        .unwrap_or_default()
        .iter()
        .filter_map(|it| match it[0].as_str().unwrap_or("") {
            "w" => Some(SItem::W(chars(it[1].as_str().unwrap_or("")))),
            "s" => Some(SItem::S(it[1].as_u64().unwrap_or(0) as usize)),
            "p" => it[1].as_str().and_then(|x| x.chars().next()).map(SItem::P),
            _ => None,
        })
        .collect()
}
/// a text cut into maximal runs of (lingual | ASCII digit), runs of blanks, and single other characters
fn items_of_text(t: &[char]) -> Vec<SItem> {
    let mut out = vec![];
    let mut i = 0;
    while i < t.len() {
        let wc = |c: char| observed_lingual(c) || c.is_ascii_digit();
        if wc(t[i]) {
            let j = (i..t.len()).find(|k| !wc(t[*k])).unwrap_or(t.len());
            out.push(SItem::W(t[i..j].to_vec()));
            i = j;
        } else if t[i] == ' ' {
            let j = (i..t.len()).find(|k| t[*k] != ' ').unwrap_or(t.len());
            out.push(SItem::S(j - i));
            i = j;
        } else {
            out.push(SItem::P(t[i]));
            i += 1;
        }
    }
    out
}
/// sent_text, sent_tokens' spans, sent_words
fn items_text(its: &[SItem]) -> (Vec<char>, Vec<(usize, usize)>, Vec<(usize, usize)>) {
    let (mut text, mut all, mut ws) = (vec![], vec![], vec![]);
    for it in its {
        let a = text.len();
        match it {
            SItem::W(w) => text.extend(w),
            SItem::S(n) => text.extend(std::iter::repeat(' ').take(*n)),
            SItem::P(c) => text.push(*c),
        }
        all.push((a, text.len()));
        if matches!(it, SItem::W(_)) {
            ws.push((a, text.len()));
        }
    }
    (text, all, ws)
}
/// S case (the extracted sent_ok / sent_text / sent_words against the harness's classification and the implementation's
/// token vector and Word tokens), the theorem C06_sentence_tokens on the implementation (the Word tokens are the word
/// items: oracle sentence_tokens_differ; one token per item: the S case), and C06 itself on the sentence: an unlisted word item is reported with exactly its span, a listed one is not
fn sentence_items_case(cx: &mut Ctx, rep: &mut Report, _shared: &mut Rng, its: &[SItem], what: &str, lint: bool) -> bool {
    // randomness local to the case (seeded by the text): the shared stream of the older generators is not advanced, so their
    // inputs are the ones of the earlier phases for the same seed
    let mut lr = Rng::new(fnv1a64(&[items_text(its).0]) ^ 0xC06_5E17);
    let r = &mut lr;
    rep.eval();
    let ok = items_ok_rs(its);
    let (text, _, _) = items_text(its);
    // expected tokens: one per item — after condense_contractions, i.e. per item of the collapsed list (phase 6, step 2)
    let has_apos = its.iter().any(|it| matches!(it, SItem::P('\'') | SItem::P('\u{2019}')));
    let collapsed: Vec<SItem> = if ok && has_apos {
        if let Some((SItem::P('.'), front)) = its.split_last() {
            // phase 7: contractions + final period — the collapsed front, then the Period token
            let mut c = contr_collapse(front).unwrap_or_else(|| front.to_vec());
            c.push(SItem::P('.'));
            c
        } else {
            contr_collapse(its).unwrap_or_else(|| its.to_vec())
        }
    } else {
        its.to_vec()
    };
    let (_, spans, wspans) = items_text(&collapsed);
    let line = format!("S {}", items_line(its));
    rep.count(&format!("sentence_items:{}:{}", what, if ok { "in the class" } else { "outside the class" }));
    if !ok {
        rep.case(&line, "N");
        return true;
    }
    let inp = json!({"kind":"sent_items","items":items_json(its)});
    let s = s_of(&text);
    let dict = cx.dict.clone();
    let toks = guarded(|| {
        let doc = Document::new_plain_english(&s, &dict);
        doc.get_tokens().iter().map(|t| (t.span.start, t.span.end, matches!(t.kind, TokenKind::Word(_)))).collect::<Vec<_>>()
    });
    let toks = match toks {
        Ok(t) => t,
        Err(m) => {
            rep.case(&line, "P");
            rep.fail("panic", format!("Document::new_plain_english panicked on a sentence of the class: {m}"), inp);
            return false;
        }
    };
    let iw: Vec<(usize, usize)> = toks.iter().filter(|t| t.2).map(|t| (t.0, t.1)).collect();
    let all: Vec<(usize, usize)> = toks.iter().map(|t| (t.0, t.1)).collect();
    rep.case(&line, &format!("{} | {} | {}", cps(&text), if all.is_empty() { "-".to_string() } else { spans_str(&all) }, if iw.is_empty() { "-".to_string() } else { spans_str(&iw) }));
    rep.count(&format!("sentence_items:items:{}", match its.len() { 0..=2 => "1-2", 3..=6 => "3-6", 7..=12 => "7-12", _ => "13+" }));
    // the whole token vector (one token per item) is compared by the S case above (a correspondence matter: Space / punctuation
    // tokens are outside the property); the property-relevant half of C06_sentence_tokens is an oracle: the Word tokens of the
    // sentence are exactly its word items
    if iw != wspans {
        rep.fail(
            "sentence_tokens_differ",
            format!("{:?} is a sentence of the class (words = letter + letters/digits, blanks, separator punctuation, optionally contractions w'w and / or one final period): one token per (collapsed) item {:?} with Word tokens {:?} expected, the implementation yields tokens {:?} with Word tokens {:?}", s, spans, wspans, all, iw),
            inp,
        );
        return false;
    }
    if lint && !wspans.is_empty() {
        let di = r.below(4);
        let d = DIALECTS[di];
        let words: Vec<(usize, usize, u8)> = collapsed
            .iter()
            .filter_map(|it| if let SItem::W(w) = it { Some(w) } else { None })
            .zip(wspans.iter())
            .map(|(w, (a, b))| {
                let ws = s_of(w);
                let lw: Vec<char> = w.iter().flat_map(|c| c.to_lowercase()).collect();
                let exp = if !cx.keys.contains(&key_of(w)) {
                    0
                } else if cx.compat(&ws, d) == Some(true) {
                    1
                } else if cx.compat(&s_of(&lw), d) == Some(true) && (cap1(&lw) == *w || upper(&lw) == *w) {
                    1
                } else {
                    2
                };
                (*a, b - a, exp)
            })
            .collect();
        let mk = |_d: Dialect| -> Option<Placed> {
            Some(Placed { text: s.clone(), words: words.clone(), entry: String::new(), form: "word item of a sentence of the class", focus: 0 })
        };
        do_placed(cx, rep, r, &mk, &[di], [true; 4]);
    }
    true
}
/// a word item: listed entries of the class, their case forms, edits of them (mostly unlisted), random letter/digit bodies
fn random_word_item(cx: &Ctx, r: &mut Rng) -> Vec<char> {
    let n = cx.words.len();
    if r.chance(1, 12) {
        // the words condense_latin / condense_number_suffixes / lex_plural_digit look for, here never before a period / after a number
        return chars(*r.pick(&["etc", "vs", "et", "al", "Etc", "VS", "st", "nd", "th", "as", "is", "s", "a"]));
    }
    for _ in 0..20 {
        let base = cx.words[r.below(n)].clone();
        if !is_body_rs(&base) {
            continue;
        }
        return match r.below(8) {
            0 => cap1(&base),
            1 => upper(&base),
            2 | 3 => {
                let m = mutate(r, &base);
                if is_body_rs(&m) { m } else { base }
            }
            _ => base,
        };
    }
    random_body(r)
}
fn random_items(cx: &Ctx, r: &mut Rng) -> Vec<SItem> {
    const SEPS: &[char] = &[',', ';', '!', '?', '(', ')', '-', '-', '/', '#', '&', '%', '*', '+', '_', '{', '}', ']', '<', '>', '=', '~', '^', '|', '\\', '\u{2013}', '\u{2014}', '\u{2026}', '\u{3001}', '\u{FF0C}', '$', '\u{20AC}', '\u{A3}'];
    let mut its = vec![];
    if r.chance(1, 5) {
        its.push(SItem::P(*r.pick(SEPS)));
    }
    let k = 1 + r.below(7);
    for i in 0..k {
        its.push(SItem::W(if r.chance(1, 6) { random_body(r) } else { random_word_item(cx, r) }));
        if i + 1 == k && r.chance(1, 2) {
            break;
        }
        // one to three separators, never two blank runs in a row
        let m = 1 + r.below(3);
        let mut last_space = false;
        for j in 0..m {
            if !last_space && (r.chance(2, 3) || (j == 0 && m == 1 && r.chance(1, 2))) {
                its.push(SItem::S(1 + r.below(3)));
                last_space = true;
            } else {
                its.push(SItem::P(*r.pick(SEPS)));
                last_space = false;
            }
        }
    }
    if r.chance(1, 10) {
        // near misses: outside the class — the model must classify them like the harness
        let at = r.below(its.len() + 1);
        let bad = match r.below(8) {
            0 => SItem::P('.'),
            1 => SItem::P('\''),
            2 => SItem::P(':'),
            3 => SItem::P('"'),
            4 => SItem::S(0),
            5 => SItem::W(vec![]),
            6 => SItem::W(vec!['7', 'a']),
            _ => SItem::P('['),
        };
        its.insert(at, bad);
    }
    its
}

fn fnv1a64(words: &[Vec<char>]) -> u64 {
    let mut h: u64 = 0xCBF29CE484222325;
    for w in words {
        let s: String = w.iter().collect();
        for b in s.bytes().chain(std::iter::once(b'\n')) {
            h = (h ^ b as u64).wrapping_mul(0x100000001B3);
        }
    }
    h
}

/// R lines (the model lexer runs on Rust's own tables) + the hypothesis `letter_laws` of the one-word
/// characterisation (C06WordsProofs), over every scalar value
fn lexer_unicode(rep: &mut Report) {
    let ling = ranges(observed_lingual);
    let tabs: Vec<(&str, Vec<(u32, u32)>)> =
        vec![("ws", ranges(|c| c.is_whitespace())), ("num", ranges(|c| c.is_numeric())), ("alpha", ranges(|c| c.is_alphabetic())), ("ling", ling.clone())];
    for (name, rs) in &tabs {
        let line = format!("R {name} {}", rs.iter().map(|(a, b)| format!("{a}-{b}")).collect::<Vec<_>>().join(" "));
        rep.case(line.trim(), &format!("R {name} {}", rs.len()));
    }
    let is_ling = |cp: u32| ling.binary_search_by(|(a, b)| if cp < *a { std::cmp::Ordering::Greater } else if cp > *b { std::cmp::Ordering::Less } else { std::cmp::Ordering::Equal }).is_ok();
    let mut bad: Vec<(&str, u32)> = vec![];
    let mut n_ling = 0u64;
    for cp in 0..=0x10FFFFu32 {
        let Some(c) = char::from_u32(cp) else { continue };
        let l = is_ling(cp);
        if l {
            n_ling += 1;
            if !c.is_alphabetic() {
                bad.push(("lingual_is_alphabetic", cp));
            }
            if c.is_numeric() {
                bad.push(("lingual_not_numeric", cp));
            }
            if Punctuation::from_char(c).is_some() {
                bad.push(("lingual_not_punctuation", cp));
            }
            if matches!(c, '"' | '\u{201C}' | '\u{201D}') {
                bad.push(("lingual_not_quote", cp));
            }
            if matches!(cp, 9 | 10 | 32) {
                bad.push(("lingual_not_blank", cp));
            }
        }
        if l && c.is_ascii_digit() {
            bad.push(("lingual_not_ascii_digit", cp));
        }
        if matches!(c, '\'' | '\u{2019}') && (c.is_alphanumeric() || l || Punctuation::from_char(c) != Some(Punctuation::Apostrophe)) {
            bad.push(("apostrophe_not_alphanumeric", cp));
        }
    }
    // digit_law (premise of C06_alnum_word_one_word): an ASCII digit is_numeric
    let mut digit_bad = 0u64;
    for c in '0'..='9' {
        if !c.is_numeric() || !c.is_alphanumeric() {
            digit_bad += 1;
            rep.fail("monitor_digit_law", format!("digit_law (C06AlnumProofs.v) fails at {c:?}: an ASCII digit that is not numeric"), json!({"kind":"text","text":c.to_string()}));
        }
    }
    rep.monitor("digit_law:ascii_digits_checked", 10);
    rep.monitor("digit_law:violations", digit_bad);
    rep.monitor("letter_laws:code_points_checked", 0x110000 - 0x800);
    rep.monitor("letter_laws:lingual_characters", n_ling);
    rep.monitor("letter_laws:violations", bad.len() as u64);
    for (law, cp) in bad.iter().take(20) {
        rep.fail("monitor_letter_laws", format!("law {law} of letter_laws (C06WordsProofs.v) fails at U+{cp:04X}"), json!({"kind":"text","text":char::from_u32(*cp).unwrap().to_string()}));
    }
}

fn main() {
    let (args, corpus) = hv::cli();
    let mut rep = Report::new(&args.out);
    rep.rule = "curated dictionary (Dictionary::words_iter = ground truth): every listed word alone x 4 dialects (both tiers); capitalised / upper-case forms of lower-case entries and placements at the start / middle / end of generated sentences (quick: sample; thorough: every word); unlisted letter strings (edits of listed words, random Latin strings in 4 casings) alone and in sentences must be reported with exactly their span; every suggestion of every lint must be a listed word of the dialect up to its first letter; random mini dictionaries (whole dictionary handed to the model). non-trivial = distinct text with >= 1 spelling lint".into();
    let mut r = Rng::new(args.seed);
    let mut t_sec = std::time::Instant::now();

    // ----- Unicode preamble: the model's case functions are Rust's tables; the laws the theorems assume -----
    let (mut n_u, mut lower_fix_bad, mut uc_empty) = (0u64, 0u64, 0u64);
    for cp in 0..=0x10FFFFu32 {
        let Some(c) = char::from_u32(cp) else { continue };
        let lc: Vec<char> = c.to_lowercase().collect();
        let uc: Vec<char> = c.to_uppercase().collect();
        let flags = (c.is_lowercase() as u8) | ((c.is_uppercase() as u8) << 1);
        if c.is_lowercase() && lc != [c] {
            lower_fix_bad += 1;
            rep.fail("monitor_lower_fix", format!("U+{cp:04X} is_lowercase but to_lowercase() = {:?}", lc), json!({"kind":"text","text":c.to_string()}));
        }
        if uc.is_empty() || lc.is_empty() {
            uc_empty += 1;
            rep.fail("monitor_uc_nonempty", format!("U+{cp:04X} has an empty case mapping"), json!({"kind":"text","text":c.to_string()}));
        }
        if flags != 0 || lc != [c] || uc != [c] {
            rep.case(&format!("U {} {} | {} | {}", cp, flags, cps(&lc), cps(&uc)), "u");
            n_u += 1;
        }
    }
    rep.monitor("lower_fix:code_points_checked", 0x110000 - 0x800);
    rep.monitor("lower_fix:violations", lower_fix_bad);
    rep.monitor("uc_nonempty:violations", uc_empty);
    rep.extra.insert("unicode_table_lines".into(), json!(n_u));
    lexer_unicode(&mut rep);

    let mut cx = Ctx::new();
    let nwords = cx.words.len();
    {
        // the Unicode flags the generated table (Tables_f24.f24_alphabet, written by tools/tables/f24.py) gives the
        // characters of its entries must be Rust's
        let alpha: BTreeSet<char> = cx.multi_committed.iter().flat_map(|e| e.chars()).collect();
        for c in &alpha {
            let fl = format!("{}{}{}{}", c.is_whitespace() as u8, c.is_numeric() as u8, c.is_alphabetic() as u8, observed_lingual(*c) as u8);
            rep.case(&format!("A {}", *c as u32), &fl);
        }
        rep.monitor("f24_table:alphabet_characters_checked", alpha.len() as u64);
    }
    {
        // the dictionary the translator REBUILT from dictionary.dict + affixes.json is the implementation's (case D), and
        // its non-simple part — Tables_f24.dict_nonsimple_entries, the domain of theorems C06_f24_table_from_dictionary /
        // C06_dict_nonsimple_multi_iff — is exactly the non-simple part of words_iter (cases M + NC); both tiers, every run
        rep.case("D", &format!("{} {:016x}", cx.words.len(), fnv1a64(&cx.words)));
        let words = cx.words.clone();
        let nonsimple: Vec<&Vec<char>> = words.iter().filter(|w| !is_simple_rs(w)).collect();
        rep.case("NC", &nonsimple.len().to_string());
        let alpha: BTreeSet<char> = nonsimple.iter().flat_map(|e| e.iter().copied()).chain('0'..='9').collect();
        for c in &alpha {
            let fl = format!("{}{}{}{}", c.is_whitespace() as u8, c.is_numeric() as u8, c.is_alphabetic() as u8, observed_lingual(*c) as u8);
            rep.case(&format!("A {}", *c as u32), &fl);
        }
        let (mut n_alnum, mut alnum_bad) = (0u64, 0u64);
        for w in &nonsimple {
            rep.case(&format!("M {}", cps(w)), "1");
            cx.emit_one_word(&mut rep, &s_of(w));
            let al = is_alnum_rs(w);
            rep.case(&format!("B {}", cps(w)), &format!("0{}", al as u8));
            if al {
                n_alnum += 1;
                // theorem C06_alnum_word_one_word on the implementation
                if !cx.is_single(&s_of(w)) {
                    alnum_bad += 1;
                    rep.fail("alnum_word_not_one_token", format!("dictionary entry {:?} is a letter followed by letters / ASCII digits (+ apostrophe + such a word) but is not exactly one Word token when written alone", s_of(w)), json!({"kind":"listed","word":s_of(w)}));
                }
            }
        }
        rep.monitor("dict_rebuilt:nonsimple_entries", nonsimple.len() as u64);
        rep.monitor("dict_rebuilt:nonsimple_entries_that_are_alnum_words", n_alnum);
        rep.monitor("alnum_word_one_token:violations_on_dictionary_entries", alnum_bad);
    }
    rep.extra.insert("dictionary_words".into(), json!(nwords));
    {
        use std::hash::{Hash, Hasher};
        let mut h = std::collections::hash_map::DefaultHasher::new();
        for w in &cx.words {
            w.hash(&mut h);
        }
        rep.extra.insert("dictionary_digest".into(), json!(format!("{:016x}", h.finish())));
    }

    // ----- monitors over the whole dictionary -----
    {
        // dict_nodup + entries normalised + WordId collisions + the per-character premise of the case theorems
        let mut by_key: HashMap<String, String> = HashMap::new();
        let (mut dup, mut nonnorm) = (0u64, 0u64);
        let words = cx.words.clone();
        for w in &words {
            let k = key_of(w);
            if let Some(o) = by_key.insert(k.clone(), s_of(w)) {
                dup += 1;
                rep.fail("monitor_dict_nodup", format!("entries {:?} and {:?} have the same lower-cased normalised spelling", o, s_of(w)), json!({"kind":"listed","word":s_of(w)}));
            }
            if w.iter().any(|c| norm_char(*c) != *c) {
                nonnorm += 1;
                rep.fail("monitor_entry_normalised", format!("entry {:?} contains a character that normalisation rewrites", s_of(w)), json!({"kind":"listed","word":s_of(w)}));
            }
            cx.see_id(&mut rep, w);
        }
        rep.monitor("dict_nodup:entries_checked", nwords as u64);
        rep.monitor("dict_nodup:violations", dup);
        rep.monitor("entry_normalised:violations", nonnorm);
        let irregular: Vec<char> = cx
            .alphabet
            .iter()
            .copied()
            .filter(|c| {
                let u: Vec<char> = c.to_uppercase().collect();
                let lu: Vec<char> = u.iter().flat_map(|x| x.to_lowercase()).collect();
                let l: Vec<char> = c.to_lowercase().collect();
                lu != l || u.iter().any(|x| norm_char(*x) != *x)
            })
            .collect();
        rep.monitor("case_regular:alphabet_size", cx.alphabet.len() as u64);
        rep.monitor("case_regular:irregular_characters", irregular.len() as u64);
        rep.extra.insert("dictionary_alphabet".into(), json!(cx.alphabet.iter().collect::<String>()));
        rep.extra.insert("case_irregular_characters".into(), json!(irregular.iter().collect::<String>()));
        let outside = words.iter().filter(|w| is_lower_entry(w) && w.iter().any(|c| irregular.contains(c))).count();
        rep.monitor("case_regular:lower_case_entries_outside_premise", outside as u64);
    }

    rep.extra.insert("seconds:setup_and_monitors".into(), json!((t_sec.elapsed().as_secs_f64() * 10.0).round() / 10.0));
    t_sec = std::time::Instant::now();
    // ----- corpus / replay -----
    for c in &corpus {
        replay_input(&mut cx, &mut rep, &mut r, c);
    }
    if args.replay.is_some() {
        finish(cx, rep);
        return;
    }

    rep.extra.insert("seconds:corpus".into(), json!((t_sec.elapsed().as_secs_f64() * 10.0).round() / 10.0));
    t_sec = std::time::Instant::now();
    // ----- the F24 witness of the Coq development, replayed on the implementation -----
    {
        let md_entries = [("socio-political", None), ("political", None)];
        let mut md = MutableDictionary::new();
        for (w, dl) in md_entries {
            md.append_word_str(w, WordMetadata { dialect: dl, ..Default::default() });
        }
        let md = Arc::new(md);
        let mut sc = SpellCheck::new(md.clone(), Dialect::American);
        let line = match run_text(&md, &mut sc, "socio-political") {
            Ok(run) => format!("{} | {} | {} | {}", entries_str(&md_entries.iter().map(|(w, _)| (chars(w), 0u8)).collect::<Vec<_>>()), cps(&run.src), spans_str(&run.words), lints_line(&run.lints)),
            Err(_) => "P".into(),
        };
        rep.case("W", &line);
    }

    rep.extra.insert("seconds:witness".into(), json!((t_sec.elapsed().as_secs_f64() * 10.0).round() / 10.0));
    t_sec = std::time::Instant::now();
    // ----- every listed word alone, all dialects (both tiers) -----
    let sample_n = args.scale(10_000, nwords);
    let stride_pick: HashSet<usize> = if args.thorough() { (0..nwords).collect() } else { (0..sample_n).map(|_| r.below(nwords)).collect() };
    let words = cx.words.clone();
    let mut rep_cut = false;
    for (i, w) in words.iter().enumerate() {
        if i % 64 == 0 && enough(&mut rep) {
            rep_cut = true;
            break;
        }
        let sampled = stride_pick.contains(&i);
        // correspondence for the sample (quick) / everything (thorough); dialect-tagged and multi-token entries always
        let tagged = cx.listed.get(&s_of(w)).map(|d| d.is_some()).unwrap_or(false);
        let corr = sampled || tagged;
        listed_entry(&mut cx, &mut rep, &mut r, w, corr, sampled);
        if sampled {
            rep.count(&format!("listed:len{}", match w.len() { 0..=2 => "1-2", 3..=5 => "3-5", 6..=9 => "6-9", _ => "10+" }));
            if !w.iter().all(|c| c.is_ascii_alphabetic()) {
                rep.count("listed:has_non_letter_or_non_ascii");
            }
            if !is_lower_entry(w) {
                rep.count("listed:not_lower_case");
            }
        }
    }
    // exactness of the table of multi-token entries (source of Tables_f24.v / theorem C06_f24_entries_not_one_word)
    if !rep_cut {
        let multi: BTreeSet<String> = words.iter().map(|w| s_of(w)).filter(|e| cx.single.get(e) == Some(&false)).collect();
        rep.extra.insert("multi_token_entries".into(), json!(multi.len()));
        rep.monitor("f24_table:entries_in_table", cx.multi_committed.len() as u64);
        rep.monitor("f24_table:curated_entries_tokenised", words.iter().filter(|w| cx.single.contains_key(&s_of(w))).count() as u64);
        for e in multi.difference(&cx.multi_committed) {
            rep.fail("f24_table_differs", format!("dictionary entry {:?} is not one Word token when written alone but the committed table corpus/C06/multi_token_entries.json (Tables_f24.v) does not have it", e), json!({"kind":"listed","word":e}));
        }
        for e in cx.multi_committed.difference(&multi) {
            rep.fail("f24_table_differs", format!("the committed table corpus/C06/multi_token_entries.json (Tables_f24.v) has {:?}, which the implementation {}", e, if cx.listed.contains_key(e) { "cuts into exactly one Word token" } else { "does not list any more" }), json!({"kind":"listed","word":e}));
        }
        if let Ok(path) = std::env::var("C06_DUMP_MULTI") {
            std::fs::write(path, serde_json::to_string_pretty(&json!({"inputs":[{"kind":"multi_token_entries","entries":multi}]})).unwrap()).unwrap();
        }
    }
    // exactness of the committed F24 list
    {
        let mut stale: Vec<String> = vec![];
        for ((w, d), ctxs) in &cx.f24 {
            let seen = cx.f24_seen.get(&(w.clone(), *d)).cloned().unwrap_or_default();
            // the letter contexts (forms of one-token entries) are only tried for sampled words in the quick tier
            let gone: String = ctxs.chars().filter(|c| !seen.contains(*c) && (c.is_ascii_digit() || args.thorough())).collect();
            if !gone.is_empty() {
                stale.push(format!("{w}/{d}:{gone}"));
            }
        }
        stale.sort();
        rep.extra.insert("f24_committed_entries".into(), json!(cx.f24.len()));
        rep.extra.insert("f24_reproduced".into(), json!(cx.f24_seen.iter().filter(|(k, _)| cx.f24.contains_key(*k)).count()));
        rep.extra.insert("f24_committed_but_no_longer_reported".into(), json!(stale));
        if let Ok(path) = std::env::var("C06_DUMP_SAMPLE") {
            let mut rr = Rng::new(20261001);
            let mut per: BTreeMap<u8, BTreeSet<String>> = BTreeMap::new();
            for _ in 0..4000 {
                let w = &cx.words[rr.below(nwords)];
                per.entry(dcode(*cx.listed.get(&s_of(w)).unwrap())).or_default().insert(s_of(w));
            }
            // every dialect-tagged word as well (they are few)
            for w in &cx.words {
                if let Some(Some(d)) = cx.listed.get(&s_of(w)) {
                    per.entry(dcode(Some(*d))).or_default().insert(s_of(w));
                }
            }
            let v: Vec<Value> = per.into_iter().map(|(d, ws)| json!({"kind":"expected_listed","dialect": if d == 0 { Value::Null } else { json!(dname(DIALECTS[d as usize - 1])) },"words":ws})).collect();
            std::fs::write(path, serde_json::to_string(&json!({"inputs": v})).unwrap()).unwrap();
        }
        if let Ok(path) = std::env::var("C06_DUMP_F24") {
            // regenerate the committed list (by hand, after reviewing why it changed)
            let mut per: BTreeMap<&str, BTreeMap<String, String>> = BTreeMap::new();
            for ((w, d), ctxs) in &cx.f24_seen {
                per.entry(dname(DIALECTS[*d as usize - 1])).or_default().insert(w.clone(), ctxs.clone());
            }
            let v: Vec<Value> = per.into_iter().map(|(d, ws)| json!({"kind":"f24","dialect":d,"entries":ws})).collect();
            std::fs::write(path, serde_json::to_string_pretty(&json!({"inputs": v})).unwrap()).unwrap();
        }
    }

    rep.extra.insert("seconds:listed_words".into(), json!((t_sec.elapsed().as_secs_f64() * 10.0).round() / 10.0));
    t_sec = std::time::Instant::now();
    // ----- sentences -----
    let fillers: Vec<String> = {
        let cand: Vec<String> = words
            .iter()
            .filter(|w| w.len() >= 2 && w.len() <= 9 && w.iter().all(|c| c.is_ascii_lowercase()))
            .filter(|w| cx.listed.get(&s_of(w)) == Some(&None))
            .map(|w| s_of(w))
            .collect();
        (0..400).map(|_| cand[r.below(cand.len())].clone()).collect()
    };
    let sp = SentenceParts { fillers };
    let per_word = args.scale(1, 2);
    for (i, w) in words.iter().enumerate() {
        if i % 64 == 0 && enough(&mut rep) {
            break;
        }
        if !stride_pick.contains(&i) {
            continue;
        }
        let entry = s_of(w);
        let single = cx.is_single(&entry);
        if !single {
            continue; // entries that are not one Word token: fixed contexts + committed F24 list (multi_token_entry)
        }
        for _ in 0..per_word {
            let pos = r.below(3);
            let focus: Vec<char> = if pos == 0 && is_lower_entry(w) && r.chance(1, 2) { cap1(w) } else { w.to_vec() };
            let mut rr = r.fork();
            let base = sentence(&mut rr, &sp, &focus, 1, pos, &entry, "in a sentence", single);
            rep.count(&format!("sentence:pos{}", pos));
            let compat: Vec<Option<bool>> = DIALECTS.iter().map(|d| cx.compat(&entry, *d)).collect();
            let mk = |d: Dialect| -> Option<Placed> {
                let di = DIALECTS.iter().position(|x| *x == d).unwrap();
                let mut p = Placed { text: base.text.clone(), words: base.words.clone(), entry: base.entry.clone(), form: base.form, focus: base.focus };
                p.words[base.focus].2 = match compat[di] {
                    Some(true) => 1,
                    Some(false) if single => 3,
                    _ => 2,
                };
                Some(p)
            };
            let tagged = cx.listed.get(&entry).map(|d| d.is_some()).unwrap_or(false);
            // quick: one dialect (all four for dialect-tagged entries); thorough: oracle in all four, correspondence in one
            let rot = r.below(4);
            let dl: Vec<usize> = if tagged || args.thorough() { vec![0, 1, 2, 3] } else { vec![rot] };
            let mut corr = [tagged; 4];
            corr[rot] = true;
            do_placed(&mut cx, &mut rep, &mut r, &mk, &dl, corr);
        }
    }

    rep.extra.insert("seconds:sentences".into(), json!((t_sec.elapsed().as_secs_f64() * 10.0).round() / 10.0));
    t_sec = std::time::Instant::now();
    // ----- words the dictionary does not contain -----
    let n_unlisted = args.scale(800, 8_000);
    let mut made = 0;
    let mut guard = 0;
    while made < n_unlisted && guard < n_unlisted * 20 {
        if made % 16 == 0 && enough(&mut rep) {
            break;
        }
        guard += 1;
        let (w, form): (Vec<char>, &'static str) = if r.chance(1, 10) {
            (plural_prefix_word(&mut r), "letter + s before a non-ASCII letter")
        } else if r.chance(2, 3) {
            let base = &words[r.below(nwords)];
            if !base.iter().all(|c| is_latin_letter(*c)) {
                continue;
            }
            let m = mutate(&mut r, base);
            let m = match r.below(6) {
                0 => cap1(&m),
                1 => upper(&m),
                _ => m,
            };
            (m, "edit of a listed word")
        } else {
            (random_letters(&mut r), "random letters")
        };
        if !is_unlisted_word(&cx, &w) {
            continue;
        }
        made += 1;
        rep.count(&format!("unlisted:{}", form));
        rep.count(&format!("unlisted:{}", if w[0].is_uppercase() { "capitalised(first letter upper)" } else { "first letter not upper" }));
        let alone = r.chance(1, 2);
        let pos = r.below(3);
        let mut rr = r.fork();
        let pl = if alone { Placed { text: s_of(&w), words: vec![(0, w.len(), 0)], entry: String::new(), form, focus: 0 } } else { sentence(&mut rr, &sp, &w, 0, pos, "", form, true) };
        let mk = |_d: Dialect| Some(Placed { text: pl.text.clone(), words: pl.words.clone(), entry: String::new(), form, focus: pl.focus });
        let dl: Vec<usize> = if args.thorough() { vec![0, 1, 2, 3] } else { vec![r.below(4)] };
        do_placed(&mut cx, &mut rep, &mut r, &mk, &dl, [true; 4]);
    }

    // ----- the extended word class (letters and ASCII digits after a first letter, + apostrophe part) -----
    for i in 0..args.scale(1500, 40_000) {
        if i % 64 == 0 && enough(&mut rep) {
            break;
        }
        let w = random_alnum(&mut r);
        alnum_case(&mut cx, &mut rep, &w, "generated");
    }
    // ----- sentences of the class of C06Sentence.v: generated items, and every multi-token entry cut into items -----
    let mut rs = Rng::new(args.seed ^ 0x5E17_E1CE_C06);
    for i in 0..args.scale(800, 30_000) {
        if i % 64 == 0 && enough(&mut rep) {
            break;
        }
        let its = random_items(&cx, &mut rs);
        sentence_items_case(&mut cx, &mut rep, &mut rs, &its, "generated", true);
    }
    // ----- phase 6: the same sentences with ONE final period (C06SentenceDot.v; theorems C06_sentence_period_*): 1 in 6 ends with a
    // word condense_latin looks for (outside the class: the model must say N), 1 in 12 with a one-letter word (lone letter + period)
    let mut rp = Rng::new(args.seed ^ 0xD07_F1AA1_C06);
    for i in 0..args.scale(700, 25_000) {
        if i % 64 == 0 && enough(&mut rep) {
            break;
        }
        let mut its = random_items(&cx, &mut rp);
        match rp.below(12) {
            0 | 1 => {
                if !matches!(its.last(), Some(SItem::S(_)) | None) {
                    its.push(SItem::S(1 + rp.below(2)));
                }
                if rp.chance(1, 3) {
                    its.push(SItem::W(chars(*rp.pick(&["et", "Et", "ET"]))));
                    its.push(SItem::S(1 + rp.below(2)));
                    its.push(SItem::W(chars(*rp.pick(&["al", "Al", "AL", "all", "a"]))));
                } else {
                    its.push(SItem::W(chars(*rp.pick(&["etc", "Etc", "ETC", "vs", "VS", "Vs", "al", "aL", "etcs", "et", "v", "als"]))));
                }
            }
            2 => {
                if !matches!(its.last(), Some(SItem::S(_)) | None) {
                    its.push(SItem::S(1));
                }
                its.push(SItem::W(vec![*rp.pick(&['a', 'I', 'x', 's', 'A'])]));
            }
            _ => {}
        }
        its.push(SItem::P('.'));
        if rp.chance(1, 25) {
            its.push(SItem::P('.'));
        }
        sentence_items_case(&mut cx, &mut rep, &mut rp, &its, "generated, final period", true);
    }
    // ----- phase 6, step 2: sentences with CONTRACTIONS (C06SentenceContr.v; theorems C06_sentence_contraction_*): word items are
    // replaced by  w1 q w2  taken from listed contractions (don't, it's, MP3's: listed; one letter changed: mostly unlisted), random
    // bodies, both apostrophe characters; near misses: a's (glued by the lexer), x'y'z, a digit-first part, a dangling apostrophe
    let contractions: Vec<Vec<char>> = cx
        .words
        .iter()
        .filter(|w| w.iter().filter(|c| **c == '\'').count() == 1 && is_alnum_rs(w) && !is_body_rs(w))
        .cloned()
        .collect();
    let mut rc = Rng::new(args.seed ^ 0xC0_17AC_7105);
    for i in 0..args.scale(700, 25_000) {
        if i % 64 == 0 && enough(&mut rep) {
            break;
        }
        let base = random_items(&cx, &mut rc);
        let mut its: Vec<SItem> = vec![];
        let mut any = false;
        for it in base {
            match it {
                SItem::W(w) if rc.chance(1, 2) || !any => {
                    any = true;
                    let q = if rc.chance(1, 3) { '\u{2019}' } else { '\'' };
                    let (w1, w2): (Vec<char>, Vec<char>) = match rc.below(10) {
                        0..=5 if !contractions.is_empty() => {
                            let c = rc.pick(&contractions).clone();
                            let c = match rc.below(6) { 0 => cap1(&c), 1 => upper(&c), 2 => mutate(&mut rc, &c), _ => c };
                            match c.iter().position(|x| *x == '\'') {
                                Some(k) => (c[..k].to_vec(), c[k + 1..].to_vec()),
                                None => (c.clone(), vec!['s']),
                            }
                        }
                        6 => (w.clone(), vec!['s']),
                        7 => (random_body(&mut rc), random_body(&mut rc)),
                        8 => (vec![*rc.pick(&['a', 'I', 'x', 'o', 'A'])], chars(*rc.pick(&["s", "s", "so", "clock", "m", "S"]))),
                        _ => (w.clone(), chars(*rc.pick(&["t", "ll", "re", "ve", "d", "s5", "5s", ""]))),
                    };
                    its.push(SItem::W(w1));
                    its.push(SItem::P(q));
                    its.push(SItem::W(w2));
                    if rc.chance(1, 30) {
                        its.push(SItem::P('\''));
                        its.push(SItem::W(vec!['s']));
                    }
                }
                other => its.push(other),
            }
        }
        if rc.chance(1, 40) {
            its.push(SItem::P('\''));
        }
        sentence_items_case(&mut cx, &mut rep, &mut rc, &its, "generated, contractions", true);
    }
    // ----- phase 7, step 1: CONTRACTIONS AND A FINAL PERIOD (C06SentenceContrDot.v; theorems C06_sentence_contraction_period_*): the
    // contraction sentences above (own generator) followed by `.`; 1 in 8 ends with etc / vs / al / et al (outside), 1 in 8 with a
    // contraction right in front of the period (don't. / MP3's. / a's.), 1 in 25 with two periods
    let mut rd = Rng::new(args.seed ^ 0xC0_17AC_D07);
    for i in 0..args.scale(500, 10_000) {
        if i % 64 == 0 && enough(&mut rep) {
            break;
        }
        let base = random_items(&cx, &mut rd);
        let mut its: Vec<SItem> = vec![];
        let mut any = false;
        for it in base {
            match it {
                SItem::W(w) if rd.chance(1, 2) || !any => {
                    any = true;
                    let q = if rd.chance(1, 3) { '\u{2019}' } else { '\'' };
                    let (w1, w2): (Vec<char>, Vec<char>) = match rd.below(10) {
                        0..=5 if !contractions.is_empty() => {
                            let c = rd.pick(&contractions).clone();
                            let c = match rd.below(6) { 0 => cap1(&c), 1 => upper(&c), 2 => mutate(&mut rd, &c), _ => c };
                            match c.iter().position(|x| *x == '\'') {
                                Some(k) => (c[..k].to_vec(), c[k + 1..].to_vec()),
                                None => (c.clone(), vec!['s']),
                            }
                        }
                        6 => (w.clone(), vec!['s']),
                        7 => (random_body(&mut rd), random_body(&mut rd)),
                        8 => (vec![*rd.pick(&['a', 'I', 'x', 'o', 'A'])], chars(*rd.pick(&["s", "s", "so", "clock", "m", "S"]))),
                        _ => (w.clone(), chars(*rd.pick(&["t", "ll", "re", "ve", "d", "s5", "5s", ""]))),
                    };
                    its.push(SItem::W(w1));
                    its.push(SItem::P(q));
                    its.push(SItem::W(w2));
                }
                other => its.push(other),
            }
        }
        match rd.below(8) {
            0 => {
                if !matches!(its.last(), Some(SItem::S(_)) | None) {
                    its.push(SItem::S(1 + rd.below(2)));
                }
                if rd.chance(1, 3) {
                    its.push(SItem::W(chars(*rd.pick(&["et", "Et"]))));
                    its.push(SItem::S(1));
                    its.push(SItem::W(chars(*rd.pick(&["al", "Al", "all"]))));
                } else {
                    its.push(SItem::W(chars(*rd.pick(&["etc", "Etc", "ETC", "vs", "VS", "al", "etcs", "et"]))));
                }
            }
            1 => {
                if !matches!(its.last(), Some(SItem::S(_)) | None) {
                    its.push(SItem::S(1));
                }
                let (w1, w2) = match rd.below(5) {
                    // x'vs. / x'etc.: condense_latin runs AFTER condense_contractions and sees the merged word (in the class)
                    4 => (chars(*rd.pick(&["I", "we", "x", "MP3"])), chars(*rd.pick(&["vs", "etc", "VS", "Etc", "al"]))),
                    0 => (chars("a"), chars("s")),
                    1 => (random_body(&mut rd), chars("s")),
                    2 => (chars(*rd.pick(&["et", "v", "e"])), chars(*rd.pick(&["c", "s", "al"]))),
                    _ => (chars("don"), chars("t")),
                };
                its.push(SItem::W(w1));
                its.push(SItem::P(if rd.chance(1, 3) { '\u{2019}' } else { '\'' }));
                its.push(SItem::W(w2));
            }
            _ => {}
        }
        its.push(SItem::P('.'));
        if rd.chance(1, 25) {
            its.push(SItem::P('.'));
        }
        sentence_items_case(&mut cx, &mut rep, &mut rd, &its, "generated, contractions + final period", true);
    }
    {
        let multi: Vec<String> = cx.multi_committed.iter().cloned().collect();
        for e in multi {
            let its = items_of_text(&chars(&e));
            sentence_items_case(&mut cx, &mut rep, &mut r, &its, "multi-token entry", false);
        }
    }
    rep.extra.insert("seconds:unlisted".into(), json!((t_sec.elapsed().as_secs_f64() * 10.0).round() / 10.0));
    t_sec = std::time::Instant::now();
    // ----- LintGroup with only SpellCheck enabled = SpellCheck::lint -----
    {
        let mut groups: Vec<LintGroup> = DIALECTS
            .iter()
            .map(|d| {
                let mut g = LintGroup::new_curated(cx.dict.clone(), *d);
                g.set_all_rules_to(Some(false));
                g.config.set_rule_enabled("SpellCheck", true);
                g
            })
            .collect();
        for _ in 0..args.scale(300, 3000) {
            let text = if r.chance(1, 2) { hv::gen::any_text(&mut r) } else { hv::gen::clean_sentence(&mut r) };
            let di = r.below(4);
            let dict = cx.dict.clone();
            let a = run_text(&dict, &mut cx.checkers[di], &text);
            let b = guarded(|| {
                let doc = Document::new_plain_english(&text, &dict);
                groups[di].lint(&doc)
            });
            rep.eval();
            match (&a, &b) {
                (Ok(a), Ok(b)) => {
                    if lints_line(&a.lints) != lints_line(b) {
                        rep.fail("lintgroup_differs", format!("LintGroup(only SpellCheck) reports {} but SpellCheck::lint {}", lints_line(b), lints_line(&a.lints)), json!({"kind":"text","text":text,"dialect":dname(DIALECTS[di])}));
                    }
                    emit_case(&mut cx, &mut rep, &mut r, DIALECTS[di], a);
                    for l in &a.lints {
                        check_suggestions(&cx, &mut rep, DIALECTS[di], &text, l);
                    }
                    if !a.lints.is_empty() {
                        rep.nontrivial(&(text.clone(), di));
                    }
                    rep.count("free_text:documents");
                }
                _ => rep.count("free_text:panicked(C01's business)"),
            }
        }
    }

    rep.extra.insert("seconds:free_text_lintgroup".into(), json!((t_sec.elapsed().as_secs_f64() * 10.0).round() / 10.0));
    t_sec = std::time::Instant::now();
    // ----- mini dictionaries -----
    for _ in 0..args.scale(1500, 30_000) {
        let (entries, d, text) = random_mini(&mut r);
        mini_case(&mut rep, &entries, d, &text, "random");
    }

    rep.extra.insert("seconds:mini".into(), json!((t_sec.elapsed().as_secs_f64() * 10.0).round() / 10.0));
    finish(cx, rep);
}

/// a broken build produces failures by the thousand, each costing a fuzzy search: a few hundred are evidence enough
fn enough(rep: &mut Report) -> bool {
    let n: u64 = rep.dist.iter().filter(|(k, _)| k.starts_with("fail:") && *k != "fail:f24_multi_token_entry_reported").map(|(_, v)| *v).sum();
    if n > 400 {
        rep.extra.insert("stopped_early".into(), json!("more than 400 new oracle failures: the remaining sweeps were cut short"));
        true
    } else {
        false
    }
}

fn finish(cx: Ctx, mut rep: Report) {
    rep.extra.insert("seconds:implementation_runs(parse+lint)".into(), json!((cx.t_impl * 10.0).round() / 10.0));
    rep.extra.insert("seconds:building_correspondence_cases(incl. fuzzy tables)".into(), json!((cx.t_emit * 10.0).round() / 10.0));
    rep.monitor("wordid:distinct_ids_seen", cx.ids.len() as u64);
    rep.monitor("wordid:collisions", cx.id_collisions);
    rep.monitor("fuzzy_listed:violations", cx.fuzzy_not_listed);
    rep.finish();
}
