// scratch probe (deleted afterwards)
use harper_core::linting::{Lint, LintGroup, Linter};
use harper_core::{Dialect, Document, FstDictionary, IgnoredLints};

fn lints(g: &mut LintGroup, text: &str) -> (Document, Vec<Lint>) {
    let d = Document::new_plain_english_curated(text);
    let l = g.lint(&d);
    (d, l)
}
fn show(text: &str, ls: &[Lint]) {
    let cs: Vec<char> = text.chars().collect();
    for l in ls {
        println!("   [{},{}) {:?} {:?} {:?}", l.span.start, l.span.end, cs[l.span.start..l.span.end].iter().collect::<String>(), l.lint_kind, l.message);
    }
}
fn scenario(g: &mut LintGroup, before: &str, pick: &str, after: &str) {
    println!("--- {before:?} -> {after:?} (ignore lint on {pick:?})");
    let (d, ls) = lints(g, before);
    show(before, &ls);
    let cs: Vec<char> = before.chars().collect();
    let mut ig = IgnoredLints::new();
    let mut n = 0;
    for l in &ls {
        if cs[l.span.start..l.span.end].iter().collect::<String>() == pick && n == 0 {
            ig.ignore_lint(l, &d);
            n += 1;
        }
    }
    println!("  ignored {n}; json={}", serde_json::to_string(&ig).unwrap());
    let mut same = ls.clone();
    ig.remove_ignored(&mut same, &d);
    println!("  same text: {} -> {}", ls.len(), same.len());
    show(before, &same);
    let (d2, mut ls2) = lints(g, after);
    let n0 = ls2.len();
    ig.remove_ignored(&mut ls2, &d2);
    println!("  after edit: {} -> {}", n0, ls2.len());
    show(after, &ls2);
}

fn main() {
    let dict = FstDictionary::curated();
    let mut g = LintGroup::new_curated(dict.clone(), Dialect::American);
    // F12
    scenario(&mut g, "He said \"an problem\" loudly.", "an", "Hello there. He said \"an problem\" loudly.");
    // F13 a: 1-char lint; token at e+2 edited
    scenario(&mut g, "Then i (we) left.", "i", "Then i (he) left.");
    scenario(&mut g, "It is a apple.", "a", "It is a apple.");
    scenario(&mut g, "Well, i  think so.", "i", "Well, i  thank so.");
    // F13 b: long lints differing only in the following token
    scenario(&mut g, "we recieve it and we recieve. Done", "recieve", "we recieve it and we recieve. Done");
    // prepend at document start (s=0)
    scenario(&mut g, "teh cat sat.", "teh", "Hello there. teh cat sat.");
    scenario(&mut g, "I saw teh cat sat.", "teh", "Hello there. I saw teh cat sat.");
    // wasm F15
    {
        use harper_wasm::{Dialect as WD, Language, Linter as WL};
        let mut l1 = WL::new(WD::American);
        l1.import_words(vec!["zorgle".to_string()]);
        l1.import_words(vec!["Zorgle".to_string()]);
        let r1 = l1.lint("I zorgle.".to_string(), Language::Plain);
        let ex = l1.export_words();
        let mut l2 = WL::new(WD::American);
        l2.import_words(ex.clone());
        let r2 = l2.lint("I zorgle.".to_string(), Language::Plain);
        println!("F15: export={ex:?} l1 lints={} l2 lints={}", r1.len(), r2.len());
        // F11
        let mut l3 = WL::new(WD::American);
        let t = "There is an `problem` here.".to_string();
        let a = l3.lint(t.clone(), Language::Plain);
        let b = l3.lint(t.clone(), Language::Markdown);
        let mut l4 = WL::new(WD::American);
        let c = l4.lint(t.clone(), Language::Markdown);
        println!("F11: plain={} md-after-plain={} md-fresh={}", a.len(), b.len(), c.len());
        for x in &a {
            println!("   {}", x.to_json());
        }
        println!("cfg={}", &l3.get_lint_config_as_json()[..80]);
        println!("ign={}", l3.export_ignored_lints());
    }
}
