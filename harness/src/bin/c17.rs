//! C17 — ordinal suffixes: correspondence with Model/Number.v (extracted) + the property oracle on a real
//! LintGroup in which only `CorrectNumberSuffix` is enabled.
//!
//! Case lines (see ocaml/c17_main.ml):  `T cps | cp:bits ..` raw lexing,  `D cps | cp:bits ..` number tokens of the
//! document + lints of the rule,  `C pre | num | sfx | post | cp:bits ..` the covered-context predicate,
//! `F cps` str::parse::<f64> of a digit string (bits) + NumberSuffix::correct_suffix_for on it,  `G neg m e | nan | inf neg`
//! NumberSuffix::correct_suffix_for on an arbitrary f64 (Proofs/C17Float.v, the Flocq model of the f64 path).
use harper_core::linting::{Lint, LintGroup, Linter, Suggestion};
use harper_core::parsers::{Parser, PlainEnglish};
use harper_core::{Dialect, Document, FstDictionary, NumberSuffix, Punctuation, Token, TokenKind};
use hv::common::*;
use hv::gen;
use serde_json::{json, Value};
use std::collections::HashMap;
use std::sync::Arc;

const RULE_KEY: &str = "CorrectNumberSuffix";
const TWO53: u128 = 1u128 << 53;

// ------------------------------------------------------------------------------------------------
// Unicode classes as Rust sees them (the Section variable `U` of the model)
// ------------------------------------------------------------------------------------------------
/// CharExt::is_english_lingual is private; for a character that is neither punctuation nor white space nor a
/// digit, `lex_token([c])` answers Word exactly when it is lingual (lex_word is the only sub-lexer left).
fn lingual(c: char) -> bool {
    if c.is_ascii_digit() {
        return false; // is_english_lingual demands !is_numeric
    }
    matches!(PlainEnglish.parse(&[c]).first().map(|t| &t.kind), Some(TokenKind::Word(_)))
}
fn class_bits(c: char) -> u32 {
    (c.is_numeric() as u32) | (c.is_alphanumeric() as u32) << 1 | (lingual(c) as u32) << 2 | (c.is_whitespace() as u32) << 3
}
#[derive(Default)]
struct Classes(HashMap<char, u32>);
impl Classes {
    fn bits(&mut self, c: char) -> u32 {
        *self.0.entry(c).or_insert_with(|| class_bits(c))
    }
    fn table(&mut self, text: &[char]) -> String {
        let mut seen: Vec<char> = text.iter().copied().filter(|c| !c.is_ascii()).collect();
        seen.sort();
        seen.dedup();
        seen.iter().map(|c| format!("{}:{}", *c as u32, self.bits(*c))).collect::<Vec<_>>().join(" ")
    }
}

/// the ASCII facts the theorems assume about `U` (hypotheses of Section NumberProofs), checked on Rust's char
fn check_ascii_laws(rep: &mut Report) {
    for i in 0u32..128 {
        let c = char::from_u32(i).unwrap();
        let digit = c.is_ascii_digit();
        let alpha = c.is_ascii_alphabetic();
        let white = (9..=13).contains(&i) || i == 32;
        let want = (digit as u32) | ((digit || alpha) as u32) << 1 | (alpha as u32) << 2 | (white as u32) << 3;
        rep.monitor("ascii_class_laws", 4);
        if class_bits(c) != want {
            rep.fail("unicode_law", format!("ASCII class assumption violated for U+{i:04X}: Rust says {:04b}, the model assumes {:04b} (bits: white,lingual,alnum,numeric)", class_bits(c), want), json!({"kind": "law", "cp": i}));
        }
    }
}

// ------------------------------------------------------------------------------------------------
// independent oracle
// ------------------------------------------------------------------------------------------------
/// English ordinal suffix of a decimal numeral, from its digits (independent of number.rs and of the model)
fn ordinal_of_decimal(digits: &[char]) -> &'static str {
    let n = digits.len();
    if n >= 2 && digits[n - 2] == '1' {
        return "th";
    }
    match digits[n - 1] {
        '1' => "st",
        '2' => "nd",
        '3' => "rd",
        _ => "th",
    }
}

/// the context class for which C17_lint_iff is proved (mirrors Number.ctx_ok; kept in sync by the `C` cases).
/// Since dcfd71f a right context may start with an apostrophe (`2st's`): the class no longer excludes it.
fn ctx_covered(cl: &mut Classes, pre: &[char], num: &[char], sfx: &[char], post: &[char]) -> bool {
    let label = |c: char| c.is_ascii_alphanumeric() || c == '-';
    for &c in pre {
        if cl.bits(c) & 1 != 0 || c == '[' || c == '@' {
            return false;
        }
    }
    for &c in post {
        if cl.bits(c) & 1 != 0 || c == '@' {
            return false;
        }
    }
    if let Some(&c) = pre.last() {
        if cl.bits(c) & 4 != 0 {
            return false;
        }
    }
    if let Some(&c) = post.first() {
        if cl.bits(c) & 4 != 0 || c.is_ascii_digit() {
            return false;
        }
    }
    let text: Vec<char> = [pre, num, sfx, post].concat();
    for w in text.windows(3) {
        if w == [':', '/', '/'] {
            return false;
        }
    }
    for w in text.windows(2) {
        if w[0] == '.' && label(w[1]) {
            return false;
        }
    }
    true
}

/// SEARCH ONLY (no theorem): contexts that contain OTHER numbers, each of them a correct ordinal standing alone
/// between white space (`We finished 1st in May and <n><sfx> in June, 3rd overall.`).  Such a neighbour draws no
/// lint, so the verdict on the instance must be the one of the same context with every neighbour replaced by the
/// word `x`; that masked context must be inside the covered class.
fn ctx_extended(cl: &mut Classes, pre: &[char], num: &[char], sfx: &[char], post: &[char]) -> bool {
    fn mask(cl: &mut Classes, t: &[char], masked: &mut usize) -> Option<Vec<char>> {
        let mut out = Vec::new();
        let mut i = 0;
        while i < t.len() {
            if t[i].is_whitespace() {
                out.push(t[i]);
                i += 1;
                continue;
            }
            let mut j = i;
            while j < t.len() && !t[j].is_whitespace() {
                j += 1;
            }
            let chunk = &t[i..j];
            if chunk.iter().any(|c| cl.bits(*c) & 1 != 0) {
                // a neighbour must stand alone between white space (not glued to the instance)
                let mut core = chunk;
                let mut tail: &[char] = &[];
                if let Some(l) = core.last() {
                    if ".,;:!?".contains(*l) {
                        tail = &core[core.len() - 1..];
                        core = &core[..core.len() - 1];
                    }
                }
                if core.len() < 3 || core.len() > 17 {
                    return None;
                }
                let (d, x) = core.split_at(core.len() - 2);
                if !d.iter().all(|c| c.is_ascii_digit()) {
                    return None;
                }
                let xs: String = x.iter().collect::<String>().to_lowercase();
                if xs != ordinal_of_decimal(d) {
                    return None;
                }
                out.push('x');
                out.extend_from_slice(tail);
                *masked += 1;
            } else {
                out.extend_from_slice(chunk);
            }
            i = j;
        }
        Some(out)
    }
    // the instance itself is separated from its neighbours by white space somewhere in between
    if pre.last().map(|c| cl.bits(*c) & 1 != 0).unwrap_or(false) {
        return false;
    }
    let glued_left = pre.iter().rev().take_while(|c| !c.is_whitespace()).any(|c| cl.bits(*c) & 1 != 0);
    let glued_right = post.iter().take_while(|c| !c.is_whitespace()).any(|c| cl.bits(*c) & 1 != 0);
    if glued_left || glued_right {
        return false;
    }
    let mut masked = 0usize;
    let (Some(mp), Some(mq)) = (mask(cl, pre, &mut masked), mask(cl, post, &mut masked)) else { return false };
    masked > 0 && ctx_covered(cl, &mp, num, sfx, &mq)
}

// ------------------------------------------------------------------------------------------------
// running the implementation
// ------------------------------------------------------------------------------------------------
struct Impl {
    dict: Arc<FstDictionary>,
    group: LintGroup,
    classes: Classes,
}
impl Impl {
    fn new() -> Self {
        let dict = FstDictionary::curated();
        let mut group = LintGroup::new_curated(dict.clone(), Dialect::American);
        group.set_all_rules_to(Some(false));
        group.config.set_rule_enabled(RULE_KEY, true);
        Impl { dict, group, classes: Classes::default() }
    }
    fn lint(&mut self, text: &str) -> Result<(Vec<Token>, Vec<Lint>), String> {
        let dict = self.dict.clone();
        let group = &mut self.group;
        guarded(move || {
            let doc = Document::new_plain_english(text, &dict);
            let lints = group.lint(&doc);
            (doc.get_tokens().to_vec(), lints)
        })
    }
}

fn suffix_code(s: Option<NumberSuffix>) -> u32 {
    match s {
        None => 0,
        Some(NumberSuffix::Th) => 1,
        Some(NumberSuffix::St) => 2,
        Some(NumberSuffix::Nd) => 3,
        Some(NumberSuffix::Rd) => 4,
    }
}
fn kind_code(k: &TokenKind) -> (u32, usize) {
    match k {
        TokenKind::Number(n) => (0, suffix_code(n.suffix) as usize),
        TokenKind::Word(_) => (1, 0),
        TokenKind::Space(n) => (2, *n),
        TokenKind::Newline(n) => (3, *n),
        TokenKind::ParagraphBreak => (4, 0),
        TokenKind::Punctuation(Punctuation::Apostrophe) => (5, 1),
        TokenKind::Punctuation(Punctuation::Period) => (5, 2),
        TokenKind::Punctuation(_) => (5, 0),
        TokenKind::Decade => (6, 0),
        TokenKind::Regexish => (7, 0),
        TokenKind::Url => (8, 0),
        TokenKind::EmailAddress => (9, 0),
        TokenKind::Hostname => (10, 0),
        TokenKind::Unlintable => (11, 0),
    }
}
fn sug_str(s: &Suggestion) -> String {
    let cps = |cs: &Vec<char>| cs.iter().map(|c| (*c as u32).to_string()).collect::<Vec<_>>().join(",");
    match s {
        Suggestion::ReplaceWith(cs) => cps(cs),
        Suggestion::InsertAfter(cs) => {
            let mut v = vec!['\0'];
            v.extend(cs);
            cps(&v)
        }
        Suggestion::Remove => "1".into(),
    }
}

/// the model decides a suffix-carrying number token only when its literal is plain decimal digits below 2^53
fn literal_decidable(chars: &[char], t: &Token) -> bool {
    if t.span.end < t.span.start + 2 || t.span.end > chars.len() {
        return false;
    }
    let lit = &chars[t.span.start..t.span.end - 2];
    !lit.is_empty() && lit.len() <= 20 && lit.iter().all(|c| c.is_ascii_digit())
        && lit.iter().collect::<String>().parse::<u128>().map(|v| v < TWO53).unwrap_or(false)
}

fn doc_line(chars: &[char], toks: &[Token], lints: &[Lint]) -> String {
    let nums: Vec<String> = toks
        .iter()
        .filter(|t| t.kind.is_number())
        .map(|t| format!("{} {} {}", t.span.start, t.span.end, kind_code(&t.kind).1))
        .collect();
    let unknown = toks.iter().any(|t| matches!(t.kind, TokenKind::Number(n) if n.suffix.is_some()) && t.span.start + 2 <= t.span.end && !literal_decidable(chars, t));
    let ls = if unknown {
        "U".to_string()
    } else {
        lints
            .iter()
            .map(|l| format!("{} {} {}", l.span.start, l.span.end, l.suggestions.iter().map(sug_str).collect::<Vec<_>>().join("/")))
            .collect::<Vec<_>>()
            .join(";")
    };
    format!("{} # {}", nums.join(";"), ls).trim().to_string()
}

/// the `E` line: EVERY token of the final document (after all passes of Document::parse) + the lints
fn final_line(chars: &[char], toks: &[Token], lints: &[Lint]) -> String {
    let all: Vec<String> = toks.iter().map(|t| { let (k, a) = kind_code(&t.kind); format!("{} {} {} {}", t.span.start, t.span.end, k, a) }).collect();
    let d = doc_line(chars, toks, lints);
    let ls = d.split('#').nth(1).unwrap_or("").trim().to_string();
    format!("{} # {}", all.join(";"), ls).trim().to_string()
}

// ------------------------------------------------------------------------------------------------
// one case
// ------------------------------------------------------------------------------------------------
#[derive(Clone)]
struct Spec {
    pre: String,
    num: String,
    sfx: String,
    post: String,
    origin: &'static str,
    lex_case: bool,
}
impl Spec {
    fn json(&self) -> Value {
        json!({"pre": self.pre, "num": self.num, "sfx": self.sfx, "post": self.post, "origin": self.origin})
    }
    fn text(&self) -> String {
        format!("{}{}{}{}", self.pre, self.num, self.sfx, self.post)
    }
}
#[derive(Default)]
struct Outcome {
    cases: Vec<(String, String)>,
    fails: Vec<(&'static str, String)>,
    counts: Vec<String>,
    monitors: Vec<(&'static str, u64)>,
    nontrivial: bool,
    sample: Option<Value>,
}

fn is_instance(s: &Spec) -> bool {
    let n: Vec<char> = s.num.chars().collect();
    let x: Vec<char> = s.sfx.to_lowercase().chars().collect();
    !n.is_empty() && n.iter().all(|c| c.is_ascii_digit()) && n.len() <= 16
        && s.num.parse::<u128>().map(|v| v < TWO53).unwrap_or(false)
        && matches!(x.iter().collect::<String>().as_str(), "st" | "nd" | "rd" | "th") && s.sfx.chars().count() == 2
}

fn run_case(im: &mut Impl, s: &Spec) -> Outcome {
    let mut o = Outcome::default();
    let text = s.text();
    let chars: Vec<char> = text.chars().collect();
    let (pre, num, sfx, post): (Vec<char>, Vec<char>, Vec<char>, Vec<char>) =
        (s.pre.chars().collect(), s.num.chars().collect(), s.sfx.chars().collect(), s.post.chars().collect());
    // since Model/C17Tails.v the URL / e-mail tails are inside the model: every text is sent to it
    let in_model = true;
    if text.contains('@') || text.contains("://") {
        o.counts.push("text_with_@_or_://(url/e-mail tails, modelled)".into());
    }
    let table = im.classes.table(&chars);
    let cps_line = |cs: &[char]| cps(cs);
    // ---- implementation
    let r = im.lint(&text);
    let (toks, lints) = match r {
        Ok(v) => v,
        Err(m) => {
            if in_model {
                o.cases.push((format!("D {} | {}", cps_line(&chars), table), "P".into()));
                if s.lex_case {
                    o.cases.push((format!("E {} | {}", cps_line(&chars), table), "P".into()));
                }
            }
            o.fails.push(("panic", format!("Document::new / LintGroup::lint panicked: {m}")));
            return o;
        }
    };
    if in_model {
        o.cases.push((format!("D {} | {}", cps_line(&chars), table), doc_line(&chars, &toks, &lints)));
        if s.lex_case {
            // the whole of Document::parse against Model/C17Later.v (every token of the final document)
            o.cases.push((format!("E {} | {}", cps_line(&chars), table), final_line(&chars, &toks, &lints)));
            if toks.iter().any(|t| matches!(t.kind, TokenKind::Punctuation(Punctuation::Ellipsis))) {
                o.counts.push("later:ellipsis_condensed".into());
            }
            if toks.iter().any(|t| matches!(t.kind, TokenKind::Word(_)) && t.span.end <= chars.len() && t.span.start < t.span.end && chars[t.span.end - 1] == '.' && t.span.len() >= 3) {
                o.counts.push("later:latin_or_initialism_condensed".into());
            }
            let raw = guarded(|| PlainEnglish.parse(&chars));
            let line = match &raw {
                Ok(ts) => ts.iter().map(|t| { let (k, a) = kind_code(&t.kind); format!("{} {} {} {}", t.span.start, t.span.end, k, a) }).collect::<Vec<_>>().join(";"),
                Err(_) => "P".into(),
            };
            o.cases.push((format!("T {} | {}", cps_line(&chars), table), line));
            // two postconditions of the lexer that the model of the value / of the word boundaries relies on
            // (b5c1992, 7202fd4); both hold by construction of the current lexer, a violation is reported with
            // the text as a concrete input
            if let Ok(ts) = &raw {
                for t in ts {
                    // (1) a Number token's value is a finite f64 (the model's values are VInt n | VOther-finite;
                    //     a non-finite value with a suffix is silently never judged: `1e999st`)
                    if let TokenKind::Number(nm) = &t.kind {
                        o.monitors.push(("number_values_finite", 1));
                        if !nm.value.0.is_finite() {
                            let lit: String = chars[t.span.start.min(chars.len())..t.span.end.min(chars.len())].iter().collect();
                            o.fails.push(("nonfinite_number_token", format!("the literal `{lit}` at {}..{} is lexed as a Number whose value is not finite ({})", t.span.start, t.span.end, nm.value.0)));
                        }
                    }
                    // (2) a Word token is maximal: it is never directly followed by a word character or an ASCII
                    //     digit (lex_word runs to the first other character; lex_plural_digit only answers in front
                    //     of a non-alphanumeric character) — ctx_ok describes word boundaries by characters
                    if matches!(t.kind, TokenKind::Word(_)) && t.span.end < chars.len() {
                        o.monitors.push(("word_tokens_maximal", 1));
                        let c = chars[t.span.end];
                        if c.is_ascii_digit() || im.classes.bits(c) & 4 != 0 {
                            let w: String = chars[t.span.start..t.span.end].iter().collect();
                            o.fails.push(("word_split_before_letter", format!("the Word token `{w}` at {}..{} ends directly in front of the word character {c:?}", t.span.start, t.span.end)));
                        }
                    }
                }
            }
            // monitor: no pass of Document::parse deletes or alters a Number token (other than attaching a suffix)
            if let Ok(ts) = &raw {
                let rn: Vec<&Token> = ts.iter().filter(|t| t.kind.is_number()).collect();
                let dn: Vec<&Token> = toks.iter().filter(|t| t.kind.is_number()).collect();
                o.monitors.push(("passes_preserve_number_tokens", rn.len() as u64));
                let ok = rn.len() == dn.len()
                    && rn.iter().zip(&dn).all(|(a, b)| {
                        let (TokenKind::Number(x), TokenKind::Number(y)) = (&a.kind, &b.kind) else { return false };
                        a.span.start == b.span.start && x.value == y.value && x.radix == y.radix
                            && ((b.span.end == a.span.end && y.suffix.is_none()) || (b.span.end == a.span.end + 2 && y.suffix.is_some()))
                    });
                if !ok {
                    o.fails.push(("number_tokens_altered", "a pass of Document::parse deleted, added or altered a Number token (assumption of C17_lint_iff on the unmodelled passes)".into()));
                }
            }
        }
    } else {
        o.counts.push("outside_model(@ or ://)".into());
    }
    // ---- the property
    if !is_instance(s) {
        o.counts.push("kind:free_text".into());
        return o;
    }
    let covered = ctx_covered(&mut im.classes, &pre, &num, &sfx, &post);
    if in_model {
        o.cases.push((
            format!("C {} | {} | {} | {} | {}", cps_line(&pre), cps_line(&num), cps_line(&sfx), cps_line(&post), table),
            if covered { "1" } else { "0" }.into(),
        ));
    }
    let extended = !covered && ctx_extended(&mut im.classes, &pre, &num, &sfx, &post);
    let want = ordinal_of_decimal(&num);
    let wrong = s.sfx.to_lowercase() != want;
    let p = pre.len() + num.len();
    let verdict: Result<(), (&'static str, String)> = (|| {
        if !wrong {
            if !lints.is_empty() {
                return Err(("spurious_lint", format!("`{}{}` is correct but {} lint(s) reported", s.num, s.sfx, lints.len())));
            }
            return Ok(());
        }
        if lints.is_empty() {
            return Err(("missed_lint", format!("`{}{}` should be `{}{}` but nothing is reported", s.num, s.sfx, s.num, want)));
        }
        if lints.len() > 1 {
            return Err(("extra_lints", format!("{} lints for one wrong suffix", lints.len())));
        }
        let l = &lints[0];
        if (l.span.start, l.span.end) != (p, p + 2) {
            return Err(("wrong_span", format!("lint covers {}..{}, the suffix is at {}..{}", l.span.start, l.span.end, p, p + 2)));
        }
        let want_chars: Vec<char> = want.chars().collect();
        if l.suggestions != vec![Suggestion::ReplaceWith(want_chars.clone())] {
            return Err(("wrong_suggestion", format!("suggestions {:?}, expected exactly ReplaceWith({want:?})", l.suggestions)));
        }
        let mut fixed = chars.clone();
        let sug = l.suggestions[0].clone();
        let span = l.span;
        let ap = guarded(move || {
            sug.apply(span, &mut fixed);
            fixed
        });
        let fixed = match ap {
            Ok(f) => f,
            Err(m) => return Err(("fix_panics", format!("applying the suggestion panicked: {m}"))),
        };
        let expect: Vec<char> = format!("{}{}{}{}", s.pre, s.num, want, s.post).chars().collect();
        if fixed != expect {
            return Err(("fix_wrong_text", "the applied suggestion does not yield the text with the correct suffix".into()));
        }
        let fixed_s: String = fixed.iter().collect();
        match im.lint(&fixed_s) {
            Ok((_, l2)) if l2.is_empty() => Ok(()),
            Ok((_, l2)) => Err(("fix_not_fixpoint", format!("{} lint(s) after applying the suggestion", l2.len()))),
            Err(m) => Err(("panic", format!("re-linting the fixed text panicked: {m}"))),
        }
    })();
    o.counts.push(format!("ctx:{}", if covered { "covered" } else if extended { "extended(search only: other correct ordinals around)" } else { "outside_theorem" }));
    if covered && matches!(post.first(), Some('\'') | Some('\u{2019}')) {
        o.counts.push(format!("ctx:covered,apostrophe_follows,suffix_{}", if wrong { "wrong" } else { "right" }));
    }
    o.counts.push(format!("suffix:{}", if wrong { "wrong" } else { "right" }));
    o.counts.push(format!("digits:{}", num.len()));
    match verdict {
        Ok(()) => {
            if wrong {
                o.nontrivial = true;
            }
            if covered {
                o.counts.push("oracle:held(covered)".into());
            } else if extended {
                o.counts.push("oracle:held(extended)".into());
            } else {
                o.counts.push("oracle:held(outside_theorem)".into());
            }
        }
        Err((class, what)) => {
            if covered {
                // inside the class the theorem covers the property is demanded
                o.fails.push((class, what));
            } else if extended {
                // search only: the instance shares the document with other, correct ordinals
                o.fails.push((class, format!("{what} (in a document with other, correct ordinals)")));
            } else {
                // outside: the lexer deliberately reads the characters differently (regex-ish, host names, words …);
                // recorded in the distribution, demanded only through the correspondence with the model
                o.counts.push(format!("deviation_outside_theorem:{class}"));
            }
        }
    }
    if wrong && covered {
        o.sample = Some(json!({"text": text, "lints": lints.iter().map(|l| json!({"span": [l.span.start, l.span.end], "suggestions": l.suggestions.iter().map(|s| s.to_string()).collect::<Vec<_>>()})).collect::<Vec<_>>()}));
    }
    o
}

// ------------------------------------------------------------------------------------------------
// texts with SEVERAL ordinals (C17_lint_list): the class mctx_ok, the lints the theorem promises, the `M` cases
// ------------------------------------------------------------------------------------------------
#[derive(Clone)]
struct MultiSpec {
    insts: Vec<(String, String, String)>, // (text in front, digits, two suffix letters)
    post: String,
    origin: &'static str,
}
impl MultiSpec {
    fn json(&self) -> Value {
        json!({"kind": "multi", "insts": self.insts.iter().map(|(p, d, x)| json!([p, d, x])).collect::<Vec<_>>(), "post": self.post, "origin": self.origin})
    }
    fn text(&self) -> String {
        let mut t = String::new();
        for (p, d, x) in &self.insts {
            t.push_str(p);
            t.push_str(d);
            t.push_str(x);
        }
        t.push_str(&self.post);
        t
    }
}
fn replay_multi(v: &Value) -> Option<MultiSpec> {
    if v.get("kind").and_then(|k| k.as_str()) != Some("multi") {
        return None;
    }
    let insts = v.get("insts")?.as_array()?.iter().filter_map(|i| {
        let a = i.as_array()?;
        Some((a.first()?.as_str()?.to_string(), a.get(1)?.as_str()?.to_string(), a.get(2)?.as_str()?.to_string()))
    }).collect();
    Some(MultiSpec { insts, post: v.get("post").and_then(|x| x.as_str()).unwrap_or("").to_string(), origin: "replay" })
}

/// mirrors C17Texts.mctx_ok (kept in sync by the `M` cases): every stretch in front of a number has no numeric
/// character, no '[', no '@' and does not end in a word character; the digits are ASCII, non-empty, value < 2^53; the
/// suffix is one of the 16 casings; what follows a suffix does not start with a word character or a digit; the final
/// right context has no numeric character and no '@'; no "://", no '.' directly followed by [A-Za-z0-9-]
fn mctx_covered(cl: &mut Classes, m: &MultiSpec) -> bool {
    let label = |c: char| c.is_ascii_alphanumeric() || c == '-';
    let parts: Vec<(Vec<char>, Vec<char>, Vec<char>)> = m.insts.iter().map(|(p, d, x)| (p.chars().collect(), d.chars().collect(), x.chars().collect())).collect();
    let post: Vec<char> = m.post.chars().collect();
    for (k, (pre, d, x)) in parts.iter().enumerate() {
        if pre.iter().any(|&c| cl.bits(c) & 1 != 0 || c == '[' || c == '@') {
            return false;
        }
        if pre.last().map(|&c| cl.bits(c) & 4 != 0).unwrap_or(false) {
            return false;
        }
        if d.is_empty() || !d.iter().all(|c| c.is_ascii_digit()) || !d.iter().collect::<String>().parse::<u128>().map(|v| v < TWO53).unwrap_or(false) {
            return false;
        }
        if x.len() != 2 || !x.iter().all(|c| c.is_ascii_alphabetic()) || !matches!(x.iter().collect::<String>().to_ascii_lowercase().as_str(), "st" | "nd" | "rd" | "th") {
            return false;
        }
        // the first character behind the suffix
        let next: Option<char> = parts[k + 1..].iter().flat_map(|(p, d, x)| p.iter().chain(d.iter()).chain(x.iter())).chain(post.iter()).next().copied();
        if let Some(c) = next {
            if cl.bits(c) & 4 != 0 || c.is_ascii_digit() {
                return false;
            }
        }
    }
    if post.iter().any(|&c| cl.bits(c) & 1 != 0 || c == '@') {
        return false;
    }
    let text: Vec<char> = m.text().chars().collect();
    !text.windows(3).any(|w| w == [':', '/', '/']) && !text.windows(2).any(|w| w[0] == '.' && label(w[1]))
}

/// what C17_lint_list promises, computed independently from the decimal digits: (start, end, suffix) per wrong instance
fn multi_expected(m: &MultiSpec) -> Vec<(usize, usize, &'static str)> {
    let mut off = 0usize;
    let mut out = vec![];
    for (p, d, x) in &m.insts {
        off += p.chars().count() + d.chars().count();
        let dc: Vec<char> = d.chars().collect();
        if !dc.is_empty() {
            let want = ordinal_of_decimal(&dc);
            if x.to_ascii_lowercase() != want {
                out.push((off, off + 2, want));
            }
        }
        off += x.chars().count();
    }
    out
}

fn run_multi_case(im: &mut Impl, m: &MultiSpec) -> Outcome {
    let mut o = Outcome::default();
    let text = m.text();
    let chars: Vec<char> = text.chars().collect();
    let table = im.classes.table(&chars);
    let covered = m.insts.iter().all(|(_, _, x)| x.chars().count() == 2) && mctx_covered(&mut im.classes, m);
    if m.insts.iter().any(|(_, _, x)| x.chars().count() != 2) {
        o.counts.push("multi:not_expressible(suffix is not two characters)".into());
        return o;
    }
    let case = format!(
        "M {} | {} | {}",
        m.insts.iter().map(|(p, d, x)| format!("{},{},{}", cps(&p.chars().collect::<Vec<_>>()), cps(&d.chars().collect::<Vec<_>>()), cps(&x.chars().collect::<Vec<_>>()))).collect::<Vec<_>>().join(";"),
        cps(&m.post.chars().collect::<Vec<_>>()),
        table
    );
    o.counts.push(format!("multi:instances:{}", m.insts.len().min(6)));
    if !covered {
        o.cases.push((case, "0".into()));
        o.counts.push("multi:outside_class".into());
        return o;
    }
    let (toks, lints) = match im.lint(&text) {
        Ok(v) => v,
        Err(e) => {
            o.cases.push((case, "P".into()));
            o.fails.push(("panic", format!("Document::new / LintGroup::lint panicked on a text with {} ordinals: {e} at {}", m.insts.len(), last_panic_location())));
            return o;
        }
    };
    let got: Vec<String> = lints.iter().map(|l| format!("{} {} {}", l.span.start, l.span.end, l.suggestions.iter().map(sug_str).collect::<Vec<_>>().join("/"))).collect();
    o.cases.push((case, format!("1 # {}", got.join(";")).trim().to_string()));
    o.cases.push((format!("E {} | {}", cps(&chars), table), final_line(&chars, &toks, &lints)));
    // search only (no theorem states it for the final document): after the merges the tokens still follow one another
    // without overlap — a suffix word that survives next to its merged number (mutation d9) shows here
    if let Some(w) = toks.windows(2).find(|w| w[0].span.end > w[1].span.start) {
        o.fails.push(("tokens_overlap", format!("tokens {}..{} and {}..{} of the document overlap (a condensed suffix word survived?)", w[0].span.start, w[0].span.end, w[1].span.start, w[1].span.end)));
    }
    let want = multi_expected(m);
    let want_s: Vec<String> = want.iter().map(|(s, e, x)| format!("{} {} {}", s, e, cps(&x.chars().collect::<Vec<_>>()).replace(' ', ","))).collect();
    o.counts.push(format!("multi:in_class,wrong_instances:{}", want.len().min(6)));
    if got != want_s {
        let class = if got.len() < want_s.len() { "list_missed_lint" } else if got.len() > want_s.len() { "list_spurious_lint" } else { "list_wrong_lint" };
        o.fails.push((class, format!("text with {} ordinals ({} wrong): reported [{}], C17_lint_list promises [{}] (start end replacement)", m.insts.len(), want.len(), got.join("; "), want_s.join("; "))));
    } else {
        o.counts.push("oracle:held(list)".into());
        if want.len() >= 2 {
            o.nontrivial = true;
        }
    }
    o
}

fn run_multi_batch(rep: &mut Report, specs: &[MultiSpec], threads: usize) {
    if specs.is_empty() {
        return;
    }
    let threads = threads.max(1).min(specs.len());
    let chunk = (specs.len() + threads - 1) / threads;
    let mut outs: Vec<Vec<Outcome>> = Vec::new();
    std::thread::scope(|sc| {
        let hs: Vec<_> = specs
            .chunks(chunk.max(1))
            .map(|part| {
                sc.spawn(move || {
                    hv::common::install_panic_hook();
                    let mut im = Impl::new();
                    part.iter().map(|m| run_multi_case(&mut im, m)).collect::<Vec<_>>()
                })
            })
            .collect();
        for h in hs {
            outs.push(h.join().expect("worker thread died"));
        }
    });
    let mut i = 0;
    for part in outs {
        for o in part {
            let m = &specs[i];
            i += 1;
            rep.eval();
            for (c, l) in &o.cases {
                rep.case(c, l);
            }
            for (class, what) in &o.fails {
                rep.fail(class, what.clone(), m.json());
            }
            for c in &o.counts {
                rep.count(c);
            }
            rep.count(&format!("origin:{}", m.origin));
            if o.nontrivial {
                rep.nontrivial(&m.text());
            }
        }
    }
}

/// a text with 0..6 ordinals: mostly inside the class (gaps from the covered separators, digits below 2^53 with the
/// occasional leading zeros, right and wrong suffixes mixed), sometimes pushed outside it in one place
fn multi_spec(r: &mut Rng) -> MultiSpec {
    const GAP: &[&str] = &[" ", " ", ", ", " and ", " and the ", "; ", ". ", ".\n", "\n", "\n\n", " (", ") ", " - ", " — ", "/", ", then ", "'s ", "’s and ", " to ", "-", "… ", "! ", "? ", ": ", " \t", "  ", " in May, ", " = ", "...", " 世 ", " 😀"];
    const BAD_GAP: &[&str] = &["", "a", " x", "th ", ".", ".x ", " [", " @ ", " 5 ", " ٣ ", "://", " a.b ", "s ", "'", " é"];
    let k = match r.below(10) { 0 => 0, 1 => 1, 2 | 3 | 4 => 2, 5 | 6 => 3, 7 => 4, 8 => 5, _ => 6 } as usize;
    let hostile = r.chance(1, 5);
    let bad_at = if hostile { r.below(k + 1) as usize } else { usize::MAX };
    let mut insts = vec![];
    for j in 0..k {
        let mut pre = String::new();
        if j == 0 {
            if r.chance(2, 3) {
                for _ in 0..r.below(3) {
                    pre.push_str(r.s(WORDS));
                    pre.push_str(r.s(SEPS_BEFORE));
                }
            }
        } else {
            pre.push_str(r.s(GAP));
            if r.chance(1, 3) {
                pre.push_str(r.s(WORDS));
                pre.push_str(r.s(&[" ", " ", ", ", " (", "\n"]));
            }
        }
        if j == bad_at {
            if r.chance(1, 2) { pre = r.s(BAD_GAP).to_string(); } else { pre.push_str(r.s(BAD_GAP)); }
        }
        let n = random_n(r);
        let d = match r.below(12) {
            0 => format!("{}{}", "0".repeat(1 + r.below(3)), n),
            1 if hostile => format!("{}", (1u64 << 53) + r.below(1000) as u64),
            _ => n.to_string(),
        };
        let dc: Vec<char> = d.chars().collect();
        let sx = if r.chance(3, 5) {
            let w = ordinal_of_decimal(&dc);
            match r.below(4) { 0 => w.to_uppercase(), 1 => { let mut c = w.chars(); format!("{}{}", c.next().unwrap().to_ascii_uppercase(), c.next().unwrap()) } _ => w.to_string() }
        } else if hostile && r.chance(1, 8) {
            r.s(&["tt", "sd", "ts", "nt"]).to_string()
        } else {
            r.s(&CASINGS).to_string()
        };
        insts.push((pre, d, sx));
    }
    let mut post = String::new();
    if r.chance(5, 6) {
        post.push_str(r.s(SEPS_AFTER));
        for _ in 0..r.below(3) {
            if post.ends_with('.') {
                post.push(' ');
            }
            post.push_str(r.s(WORDS));
            post.push_str(r.s(SEPS_AFTER));
        }
    }
    if bad_at == k && hostile {
        post = format!("{}{}", r.s(&["s", "5", "a.b", " 7", "@x", " ://", ".com"]), post);
    }
    MultiSpec { insts, post, origin: if hostile { "multi_hostile" } else { "multi_ordinals" } }
}

// ------------------------------------------------------------------------------------------------
// generators
// ------------------------------------------------------------------------------------------------
const CASINGS: [&str; 16] = ["st", "St", "sT", "ST", "nd", "Nd", "nD", "ND", "rd", "Rd", "rD", "RD", "th", "Th", "tH", "TH"];

fn random_n(r: &mut Rng) -> u64 {
    match r.below(6) {
        0 => r.below(130) as u64,
        1 => (r.below(100) * 100 + r.range(9, 24)) as u64,                // around the teens of some hundred
        2 => (r.next() % 100_000) as u64,
        3 => {
            let d = r.range(1, 16) as u32;
            r.next() % 10u64.pow(d)
        }
        4 => (1u64 << 53) - 1 - (r.next() % 1000),
        _ => r.next() % (1u64 << 53),
    }
}

const SEPS_BEFORE: &[&str] = &[" ", " ", " ", "\t", "\n", "\n\n", "(", "\"", "“", "$", "-", "—", "–", ",", ";", ":", "!", "?", "#", "*", "/", "~", "'", "’", "{", "<", "=", "+", "&", "%", "^", "|", "_", "€", "\u{a0}", "世", "😀", "  ", " \t", ". ", "... ", "? ", "]", ")"];
const SEPS_AFTER: &[&str] = &[" ", " ", " ", "\t", "\n", "\n\n", ")", "\"", "”", ".", ". ", ".\n", "...", "…", ",", ", ", ";", ":", "!", "?", "-", "—", "]", "}", ">", "/", "*", "%", "&", "=", "+", "|", "_", "€", "\u{a0}", "世", "😀", "  ", ".)", "?!", ". .", ".'", ".\"", "'s", "’s", "'", "’", "'s ", "'S", "’d ", "'é"];
const WORDS: &[&str] = &["The", "the", "a", "item", "place", "on", "of", "May", "café", "s", "x", "as", "is", "I", "floor", "Über", "st", "nd", "th", "e", "E"];

/// a left/right context inside the class covered by C17_lint_iff
fn covered_ctx(r: &mut Rng) -> (String, String) {
    let mut pre = String::new();
    for _ in 0..r.below(4) {
        pre.push_str(r.s(WORDS));
        pre.push_str(r.s(SEPS_BEFORE));
    }
    if r.chance(1, 3) {
        pre.push_str(r.s(SEPS_BEFORE));
    }
    let mut post = String::new();
    if r.chance(5, 6) {
        post.push_str(r.s(SEPS_AFTER));
        for _ in 0..r.below(4) {
            // a '.' must not be followed by a host-name character
            if post.ends_with('.') {
                post.push(' ');
            }
            post.push_str(r.s(WORDS));
            post.push_str(r.s(SEPS_AFTER));
        }
    }
    (pre, post)
}

/// contexts mostly OUTSIDE the class: the number glued to letters, dots, brackets, apostrophes …
fn hostile_ctx(r: &mut Rng) -> (String, String) {
    const L: &[&str] = &["", "a", "x.", "a.b-", "[", "[a", "[a-", "e", "1e", "1.", "0x", "0", "$", "-", "+", ".", "..", "v", "#", "No.", "(", "1,", "1 ", "12", "www.", "'", "s'", "é", "²", "٣", "½"];
    const R: &[&str] = &["", "s", "'s", "’s", "'", "' s", " 's", "]", "-]", ".com", ".Then", ".x", "-x.y", "..", "...", ".", ". ", ".5", "e5", "1", "a", "é", "²", "٣", ",000", "-", "-th", "th", "st", "+", "=", "_", "'S", "'é", "'1"];
    (r.s(L).to_string(), r.s(R).to_string())
}

/// literals around the f64 overflow threshold 2^1024 - 2^970 = 1.797693134862315807937e308 (lex_number only
/// accepts a finite parse and falls back to a shorter prefix), zero mantissas, huge and negative exponents
fn float_edge(r: &mut Rng) -> String {
    const F: &[&str] = &[
        "1e999", "1e308", "1e309", "2e308", "1.8e308", "1.7976931348623157e308", "1.7976931348623158e308",
        "1.7976931348623159e308", "1.797693134862315807e308", "1.797693134862315808e308", "17976931348623157e292",
        "17976931348623159e292", "0e999", "0.0e9999", "00e400", "1e-999", "1e-99999999999999999999", "123456789e300",
        "12345678.9e301", "0.00001e313", "0.00001e314", "1e+400", "1E400", "1e0400", "1e400", "1e401", "9e999999999999999999999",
        "1.e308", "1.e309", ".5e309", "5.e-1", "1e30", "1e3000", "4e3084", "1.0e3080",
    ];
    match r.below(8) {
        0 => {
            // an integer of 305..312 digits: finite up to 309 digits when it starts low enough
            let lead = r.s(&["1", "17", "179769313486231570", "179769313486231581", "18", "9"]).to_string();
            let total = r.range(305, 313) as usize;
            let mut t = lead.clone();
            while t.len() < total {
                t.push('0');
            }
            t
        }
        1 => format!("{}e{}", r.range(1, 99999), r.range(290, 312)),
        2 => format!("{}.{}e{}", r.range(0, 20), r.range(0, 99999), r.range(300, 312)),
        3 => format!("0.{}{}e{}", "0".repeat(r.below(6) as usize), r.range(1, 999), r.range(305, 320)),
        _ => r.s(F).to_string(),
    }
}

/// texts that reach the URL / e-mail tails (Model/C17Tails.v): schemes, logins with and without password, ports,
/// paths with escapes, quoted and dotted local parts, each glued to or standing next to an ordinal
fn url_email_edge(r: &mut Rng) -> String {
    const SCHEME: &[&str] = &["http", "https", "ftp", "st", "a.b", "x+y", "1st", "2nd", "H-1", "mailto", "é", ""];
    const LOGIN: &[&str] = &["", "", "u@", "u:p@", "u;x=1@", "a%20b@", "a%2@", "a b@", "ü@", "@", "u:@", ":p@"];
    const HOST: &[&str] = &["x.com", "example.org", "a", "a.b.c", "1.2.3.4", "x-y.z", "-x.com", "x..com", "x.com.", "h:80", "h:80a", "80:80", "localhost:8080", "", ".", "é.com"];
    const PATH: &[&str] = &["", "/", "/a", "/a/b", "/a.b/c.txt", "/x_y-z$+w", "/a;b:c@d&e=f#g", "/%41%4a%4G", "/a%20b", "/a%2", "/a%zz", "//", "/a//b", "/?q=1&r=2#f", "/a b", "/2st", "/é", "/(x),!*'", "/a/\\"];
    const LOCAL: &[&str] = &["a", "a.b", ".a", "a.", "a..b", "2st", "1st", "x+y", "a!#$%&'*+-/=?^_`{|}~b", "\"a b\"", "\"a\\\"b\"", "\"", "\"\"", "a(b", "é", "", "aaaaaaaaaaaaaaaaaaaaaaaaaaaaaaaaaaaaaaaaaaaaaaaaaaaaaaaaaaaaaaaaa", "aaaaaaaaaaaaaaaaaaaaaaaaaaaaaaaaaaaaaaaaaaaaaaaaaaaaaaaaaaaaaaaa"];
    const ORD: &[&str] = &["2st", "3rd", "11TH", "113rd", "21th", "1st"];
    let url = |r: &mut Rng| format!("{}:{}{}{}{}", r.s(SCHEME), r.s(&["//", "//", "//", "/", ""]), r.s(LOGIN), r.s(HOST), r.s(PATH));
    let mail = |r: &mut Rng| format!("{}@{}", r.s(LOCAL), r.s(HOST));
    let core = if r.chance(1, 2) { url(r) } else { mail(r) };
    match r.below(7) {
        0 => core,
        1 => format!("{}{}", r.s(ORD), core),
        2 => format!("{}{}", core, r.s(ORD)),
        3 => format!("{} {} {}", r.s(WORDS), core, r.s(ORD)),
        4 => format!("{} {}{}", r.s(ORD), core, r.s(SEPS_AFTER)),
        5 => format!("{}{}{} {}", r.s(SEPS_BEFORE), core, r.s(SEPS_AFTER), r.s(ORD)),
        _ => format!("{} {} {}", core, r.s(ORD), if r.chance(1, 2) { url(r) } else { mail(r) }),
    }
}

/// `[A-Za-z0-9]['?]s` in front of all sorts of characters (lex_plural_digit's look-ahead uses char::is_alphanumeric)
fn plural_edge(r: &mut Rng) -> String {
    const HEAD: &[&str] = &["a", "A", "x", "Z", "2", "9", "0", "é", "1990", "the 3", " b"];
    const NEXT: &[&str] = &["", " ", ".", ",", "é", "ß", "α", "ж", "世", "٣", "²", "½", "e", "1", "t", "'", "’", "-", "_", "😀", "\u{a0}", "É", "ſ", "ª"];
    format!("{}{}s{}", r.s(HEAD), if r.chance(1, 3) { "'" } else { "" }, r.s(NEXT))
}

/// texts on which condense_ellipsis / condense_latin fire or nearly fire
fn later_edge(r: &mut Rng) -> String {
    const PIECES: &[&str] = &["etc.", "ETC.", "Etc.", "etc", "etc..", "etc...", "vs.", "Vs.", "VS.", "vs", "et al.", "Et Al.", "ET AL.", "et  al.", "et\tal.", "et\nal.",
        "et\n\nal.", "et \n al.", "et al", "et al..", "et al...", "et. al.", "etal.", "et all.", "ét al.", "et a1.", "e.t.c.", "etc.etc.", "etcetera.", "vs.vs.",
        "...", "..", ".", "....", ". . .", "…", ". ..", "!..", "..!", "x..y", "i.e.", "e.g.", "N.S.A.", "A.", "I.", "a.b", "it's", "don't", "'..'", "\"...\"", "“etc.”",
        "2st", "3rd", "21th", "2st...", "3rd..", "1st etc.", "22nd et al.", "cats", "and", "The", "x", "世", "😀"];
    const GLUE: &[&str] = &[" ", " ", " ", "", ", ", "  ", "\n", "\t", " - ", "(", ") "];
    let k = 1 + r.below(5) as usize;
    let mut t = String::new();
    for i in 0..k {
        if i > 0 {
            t.push_str(r.s(GLUE));
        }
        t.push_str(r.s(PIECES));
    }
    t
}

fn spec(pre: &str, num: &str, sfx: &str, post: &str, origin: &'static str, lex_case: bool) -> Spec {
    Spec { pre: pre.into(), num: num.into(), sfx: sfx.into(), post: post.into(), origin, lex_case }
}

fn replay_spec(v: &Value) -> Option<Spec> {
    if matches!(v.get("kind").and_then(|k| k.as_str()), Some("law") | Some("f64_digits") | Some("f64_bits") | Some("multi")) {
        return None;
    }
    let g = |k: &str| v.get(k).and_then(|x| x.as_str()).unwrap_or("").to_string();
    Some(Spec { pre: g("pre"), num: g("num"), sfx: g("sfx"), post: g("post"), origin: "replay", lex_case: true })
}

// ------------------------------------------------------------------------------------------------
// batch evaluation on all cores (each worker owns a LintGroup), results recorded in input order
// ------------------------------------------------------------------------------------------------
fn run_batch(rep: &mut Report, specs: &[Spec], threads: usize) {
    let threads = threads.max(1).min(specs.len().max(1));
    let chunk = (specs.len() + threads - 1) / threads.max(1);
    let mut outs: Vec<Vec<Outcome>> = Vec::new();
    if specs.is_empty() {
        return;
    }
    std::thread::scope(|sc| {
        let hs: Vec<_> = specs
            .chunks(chunk.max(1))
            .map(|part| {
                sc.spawn(move || {
                    hv::common::install_panic_hook();
                    let mut im = Impl::new();
                    part.iter().map(|s| run_case(&mut im, s)).collect::<Vec<_>>()
                })
            })
            .collect();
        for h in hs {
            outs.push(h.join().expect("worker thread died"));
        }
    });
    let mut i = 0;
    for part in outs {
        for o in part {
            let s = &specs[i];
            i += 1;
            rep.eval();
            for (c, l) in &o.cases {
                rep.case(c, l);
            }
            for (class, what) in &o.fails {
                rep.fail(class, what.clone(), s.json());
            }
            for c in &o.counts {
                rep.count(c);
            }
            for (k, n) in &o.monitors {
                rep.monitor(k, *n);
            }
            rep.count(&format!("origin:{}", s.origin));
            if o.nontrivial {
                rep.nontrivial(&s.text());
            }
            if let Some(v) = o.sample {
                rep.sample(v);
            }
        }
    }
}

// ------------------------------------------------------------------------------------------------
// the f64 path (Proofs/C17Float.v): str::parse::<f64> on digit strings and NumberSuffix::correct_suffix_for on f64s
// ------------------------------------------------------------------------------------------------
fn csf_code(v: f64) -> Result<u32, String> {
    guarded(move || suffix_code(NumberSuffix::correct_suffix_for(v)))
}
fn bits_hex(v: f64) -> String {
    if v.is_nan() { "7ff8000000000000".into() } else { format!("{:016x}", v.to_bits()) }
}
/// `F`: a string of ASCII digits.  Correspondence: bits of the parsed value and the suffix the code computes from it.
/// Monitor of the one hypothesis left about Rust (str::parse::<f64> is correctly rounded): for n < 2^53 the parsed
/// value must be the f64 whose integer value is n (the correspondence additionally compares the bits of EVERY
/// digit string with the correctly rounded value computed by the extracted Flocq model).  Oracle: for n < 2^53
/// correct_suffix_for answers the English suffix.
fn run_f64_digits(rep: &mut Report, digits: &str, origin: &str) {
    rep.eval();
    rep.count(&format!("origin:{origin}"));
    let input = json!({"kind": "f64_digits", "digits": digits});
    let cs: Vec<char> = digits.chars().collect();
    if cs.is_empty() || !cs.iter().all(|c| c.is_ascii_digit()) {
        return;
    }
    let v = match digits.parse::<f64>() {
        Ok(v) => v,
        Err(e) => {
            rep.case(&format!("F {}", cps(&cs)), "E");
            rep.fail("f64_parse_rejects_digits", format!("str::parse::<f64> rejects the digit string `{digits}`: {e}"), input);
            return;
        }
    };
    let code = csf_code(v);
    let line = match &code { Ok(c) => format!("{} {}", bits_hex(v), c), Err(_) => "P".into() };
    rep.case(&format!("F {}", cps(&cs)), &line);
    if let Err(m) = &code {
        rep.fail("panic", format!("NumberSuffix::correct_suffix_for({v:?}) panicked: {m} at {}", last_panic_location()), input.clone());
        return;
    }
    let small = cs.len() <= 16 && digits.parse::<u128>().map(|n| n < TWO53).unwrap_or(false);
    rep.count(if small { "f64:digits_below_2^53" } else { "f64:digits_from_2^53_up" });
    if small {
        let n: u64 = digits.parse().unwrap();
        rep.monitor("f64_parse_correctly_rounded", 1);
        if v.to_bits() != (n as f64).to_bits() || v as u64 != n || v.fract() != 0.0 {
            rep.fail("f64_parse_inexact", format!("`{digits}`.parse::<f64>() = {v:?} (bits {:016x}) is not the integer {n} (hypothesis of C17_f64_parse_exact: the parse is correctly rounded)", v.to_bits()), input.clone());
        }
        let want = match ordinal_of_decimal(&cs) { "th" => 1, "st" => 2, "nd" => 3, _ => 4 };
        if code != Ok(want) {
            rep.fail("f64_suffix_wrong", format!("NumberSuffix::correct_suffix_for({v:?}) answers code {:?}, the English suffix of {digits} has code {want} (1 th, 2 st, 3 nd, 4 rd, 0 None)", code), input);
        } else {
            rep.nontrivial(&format!("f64:{digits}"));
        }
    }
}
/// `G`: any f64, decoded into sign, mantissa, exponent for the model
fn run_f64_bits(rep: &mut Report, bits: u64, origin: &str) {
    rep.eval();
    rep.count(&format!("origin:{origin}"));
    let v = f64::from_bits(bits);
    let neg = (bits >> 63) as u32;
    let ef = ((bits >> 52) & 0x7ff) as i64;
    let frac = bits & ((1u64 << 52) - 1);
    let case = if ef == 2047 {
        if frac != 0 { "G nan".to_string() } else { format!("G inf {neg}") }
    } else if ef == 0 {
        format!("G {neg} {frac} -1074")
    } else {
        format!("G {neg} {} {}", frac + (1u64 << 52), ef - 1075)
    };
    let code = csf_code(v);
    let line = match &code { Ok(c) => format!("{} {}", bits_hex(v), c), Err(_) => "P".into() };
    rep.case(&case, &line);
    rep.count(&format!("f64:class:{}", if v.is_nan() { "nan" } else if v.is_infinite() { "inf" } else if v < 0.0 { "negative" } else if v.fract() != 0.0 { "fractional" } else if v >= 9007199254740992.0 { "integer_from_2^53_up" } else { "integer_below_2^53" }));
    rep.count(&format!("f64:answer:{}", match &code { Ok(0) => "None", Ok(_) => "Some", Err(_) => "panic" }));
    if let Err(m) = &code {
        rep.fail("panic", format!("NumberSuffix::correct_suffix_for({v:?}) panicked: {m} at {}", last_panic_location()), json!({"kind": "f64_bits", "bits": format!("{bits:016x}")}));
    }
}
fn random_f64_bits(r: &mut Rng) -> u64 {
    let int = |r: &mut Rng| -> f64 {
        match r.below(5) {
            0 => r.below(200) as f64,
            1 => (r.next() % (1u64 << 53)) as f64,
            2 => (r.next() % (1u64 << 33)) as f64 + 4294967296.0 * (r.below(3) as f64),
            3 => (r.next() >> r.below(12)) as f64,                                  // up to 2^64, mostly not exact integers of the literal
            _ => 2f64.powi(r.range(50, 70) as i32) + (r.below(5) as f64 - 2.0) * 2f64.powi(r.range(0, 20) as i32),
        }
    };
    let v: f64 = match r.below(12) {
        0 => return r.next(),                                                        // any bit pattern
        1 => *r.pick(&[0.0, -0.0, f64::NAN, f64::INFINITY, f64::NEG_INFINITY, f64::EPSILON, f64::MIN_POSITIVE, 5e-324, f64::MAX, 18446744073709551615.0, 18446744073709553664.0, 18446744073709549568.0, 9007199254740992.0, 9007199254740993.0, 4294967295.0, 4294967296.0, 4294967297.0, 1.5, 0.5, 2.5]),
        2 => -int(r),
        3 => int(r) + *r.pick(&[0.5, 0.25, 0.75, 0.1, 0.9, 0.001]),
        4 => { let k = r.range(1, 60) as i32; int(r) % 4096.0 + 2f64.powi(-k) }      // fractions around EPSILON = 2^-52
        5 => { let b = (1.0f64 + (r.below(8) as f64)).to_bits(); return b + r.below(4) as u64 }   // 1 + k ulp, 2 + k ulp, ...
        6 => f64::from_bits(r.next() & ((1u64 << 52) - 1) | ((r.below(4) as u64) << 52)),   // subnormal / tiny
        _ => int(r),
    };
    v.to_bits()
}
fn run_f64_stream(rep: &mut Report, r: &mut Rng, a: &Args) {
    // digit strings: every length up to 25, the neighbourhood of 2^53, of 2^64, of the teens; a few hundred-digit ones
    for n in [0u64, 1, 2, 3, 4, 10, 11, 12, 13, 21, 22, 23, 100, 101, 111, 112, 113, 16777216, 16777217, 4294967295, 4294967296, 4294967297,
              9007199254740989, 9007199254740990, 9007199254740991, 9007199254740992, 9007199254740993, 9007199254740994, 9007199254740995,
              18446744073709551613, 18446744073709551614, 18446744073709551615, 999999999999999, 1000000000000000, 1000000000000001] {
        run_f64_digits(rep, &n.to_string(), "f64_digits_fixed");
    }
    run_f64_digits(rep, "18446744073709551616", "f64_digits_fixed");
    run_f64_digits(rep, "18446744073709551617", "f64_digits_fixed");
    run_f64_digits(rep, "18446744073709553665", "f64_digits_fixed");
    run_f64_digits(rep, "0000000000000000000000000113", "f64_digits_fixed");
    for _ in 0..a.scale(3000, 200_000) {
        let s = match r.below(8) {
            0 => { let len = r.range(17, 40); (0..len).map(|i| char::from(b'0' + if i == 0 { r.range(1, 10) } else { r.below(10) } as u8)).collect::<String>() }
            1 => format!("{}", (1u64 << 53) - 2000 + (r.next() % 4000)),
            2 => format!("{}{}", "0".repeat(r.below(4)), random_n(r)),
            3 => format!("{}", r.next()),
            4 => format!("{}", (r.next() % (1u64 << 21)) + (1u64 << 32) * (r.below(4) as u64)),   // around 2^32 (a u32 cast would show)
            5 => format!("{}", (1u64 << 24) + (r.next() % (1u64 << 30))),                          // above 2^24 (an f32 trip would show)
            _ => random_n(r).to_string(),
        };
        run_f64_digits(rep, &s, "f64_digits");
    }
    for _ in 0..a.scale(4, 40) {
        let len = r.range(300, 320);
        let s: String = (0..len).map(|i| char::from(b'0' + if i == 0 { r.range(1, 3) } else { r.below(10) } as u8)).collect();
        run_f64_digits(rep, &s, "f64_digits_overflow_edge");
    }
    for _ in 0..a.scale(4000, 300_000) {
        let b = random_f64_bits(r);
        run_f64_bits(rep, b, "f64_bits");
    }
}

fn main() {
    let (a, corpus) = hv::cli();
    let mut rep = Report::new(&a.out);
    rep.rule = "texts pre ++ decimal(n) ++ suffix ++ post: corpus; documents in which the instance stands among other, correct ordinals (search only); `The <n><sfx> item.` for random n < 2^53 (teens of every hundred, powers of ten, 2^53-1 …) x 16 casings; contexts drawn inside the class covered by C17_lint_iff (oracle demanded) and hostile contexts outside it (letters, dots, brackets, digits glued on: correspondence with the model + deviations counted); the possessive position `<n><sfx>'s` (covered since dcfd71f); structured texts with 0..6 ordinals (C17_lint_list: class membership compared with the model, inside the class the reported lints must be exactly the promised list); sentence positions from the shared grammar; a free-text stream and a lexer-edge stream (float literals around the f64 overflow threshold, plural-digit look-aheads: correspondence + two lexer postconditions); thorough adds every n < 10^5 x 16 casings and 10^6 random n < 2^53. non-trivial = distinct text with a wrong suffix for which the full oracle (one lint, exact span, exact suggestion, fix is a fix point) held".into();
    check_ascii_laws(&mut rep);
    let threads = std::thread::available_parallelism().map(|n| n.get()).unwrap_or(4).min(16);
    // corpus / replay first
    let cs: Vec<Spec> = corpus.iter().filter_map(replay_spec).collect();
    run_batch(&mut rep, &cs, 1);
    let cm: Vec<MultiSpec> = corpus.iter().filter_map(replay_multi).collect();
    run_multi_batch(&mut rep, &cm, 1);
    for v in &corpus {
        match v.get("kind").and_then(|k| k.as_str()) {
            Some("f64_digits") => run_f64_digits(&mut rep, v.get("digits").and_then(|x| x.as_str()).unwrap_or(""), "replay_f64"),
            Some("f64_bits") => {
                if let Some(b) = v.get("bits").and_then(|x| x.as_str()).and_then(|x| u64::from_str_radix(x, 16).ok()) {
                    run_f64_bits(&mut rep, b, "replay_f64");
                }
            }
            _ => {}
        }
    }
    if a.replay.is_some() {
        rep.finish();
        return;
    }
    let mut r = Rng::new(a.seed);
    let mut specs: Vec<Spec> = vec![];
    // (1) the template of the property record
    for _ in 0..a.scale(600, 6000) {
        let n = random_n(&mut r);
        let sfx = r.s(&CASINGS);
        specs.push(spec("The ", &n.to_string(), sfx, " item.", "template", true));
    }
    // (2) all 16 casings for a few n each (teens in several hundreds)
    for n in [0u64, 1, 2, 3, 4, 10, 11, 12, 13, 14, 20, 21, 22, 23, 100, 101, 111, 112, 113, 121, 1000, 1011, 1990, 2020, 2021, 9007199254740991, 9007199254740911] {
        for sfx in CASINGS {
            specs.push(spec("The ", &n.to_string(), sfx, " item.", "all_casings", true));
        }
    }
    // (3) contexts inside the covered class
    for _ in 0..a.scale(1500, 30000) {
        let (pre, post) = covered_ctx(&mut r);
        let n = random_n(&mut r);
        specs.push(spec(&pre, &n.to_string(), r.s(&CASINGS), &post, "covered_ctx", true));
    }
    // (4) hostile contexts
    for _ in 0..a.scale(1200, 20000) {
        let (l, rr) = hostile_ctx(&mut r);
        let (pre, post) = if r.chance(1, 2) { covered_ctx(&mut r) } else { (String::new(), String::new()) };
        let n = if r.chance(1, 3) { *r.pick(&[1990u64, 2000, 1000, 2990, 1991, 0, 7, 10, 100]) } else { random_n(&mut r) };
        let num = if r.chance(1, 10) { format!("0{n}") } else { n.to_string() };
        specs.push(spec(&format!("{pre}{l}"), &num, r.s(&CASINGS), &format!("{rr}{post}"), "hostile_ctx", true));
    }
    // (5) sentence positions from the shared grammar
    for _ in 0..a.scale(300, 5000) {
        let n = random_n(&mut r);
        let marker = "\u{1}";
        let placed = gen::placed(&mut r, marker);
        if let Some((pre, post)) = placed.split_once(marker) {
            specs.push(spec(pre, &n.to_string(), r.s(&CASINGS), post, "sentence_position", true));
        }
    }
    // (6) free text: correspondence only
    for _ in 0..a.scale(300, 5000) {
        let t = if r.chance(1, 3) { gen::malformed(&mut r, 40) } else { gen::any_text(&mut r) };
        let t: String = t.chars().take(160).collect();
        specs.push(spec(&t, "", "", "", "free_text", true));
    }
    // (7) the possessive / contraction position (FC17a, fixed by dcfd71f): inside the covered class now
    for _ in 0..a.scale(300, 5000) {
        let n = random_n(&mut r);
        let pre = r.s(&["the ", "The ", "", "in (", "May "]).to_string();
        let post = format!("{}{}{}", r.s(&["'", "’"]), r.s(&["s", "S", "d", "ll", "é", "", " ", "s.", "t"]), r.s(&["", " value", " turn.", ", then", "\n\nNext"]));
        specs.push(spec(&pre, &n.to_string(), r.s(&CASINGS), &post, "apostrophe_follows", true));
    }
    // (9) the instance shares the document with other ordinals, all of them correct (search only, see ctx_extended)
    for _ in 0..a.scale(400, 8000) {
        let neighbour = |r: &mut Rng| {
            let n = random_n(r) % 1_000_000_000_000_000;
            let d: Vec<char> = n.to_string().chars().collect();
            let sx = ordinal_of_decimal(&d);
            let sx = match r.below(4) { 0 => sx.to_uppercase(), _ => sx.to_string() };
            format!("{n}{sx}{}", r.s(&["", "", ",", ".", ";", "!"]))
        };
        let mut pre = String::new();
        for _ in 0..r.below(3) {
            pre.push_str(r.s(WORDS));
            pre.push_str(r.s(&[" ", " ", "\n", "\n\n", "  "]));
            if r.chance(2, 3) {
                pre.push_str(&neighbour(&mut r));
                pre.push_str(r.s(&[" ", " ", "\n", " and ", " in May, "]));
            }
        }
        let mut post = r.s(&["", " ", ". ", ", ", "'s ", "’s ", "\n", " in June "]).to_string();
        if !post.is_empty() {
            for _ in 0..r.below(3) {
                if !post.ends_with(char::is_whitespace) {
                    post.push(' ');
                }
                if r.chance(2, 3) {
                    post.push_str(&neighbour(&mut r));
                    post.push(' ');
                }
                post.push_str(r.s(WORDS));
            }
        }
        let n = random_n(&mut r);
        specs.push(spec(&pre, &n.to_string(), r.s(&CASINGS), &post, "other_ordinals_around", true));
    }
    // (8) lexer edges the model follows since b5c1992 / 7202fd4: float literals around the overflow threshold and
    //     plural-digit look-aheads, alone, glued to a suffix, and in front of an ordinal
    for _ in 0..a.scale(500, 8000) {
        let e = if r.chance(1, 2) { float_edge(&mut r) } else { plural_edge(&mut r) };
        let t = match r.below(5) {
            0 => e,
            1 => format!("{}{}", e, r.s(&CASINGS)),
            2 => format!("{}{} {}", r.s(&["", "x ", "-", "$", "("]), e, r.s(WORDS)),
            3 => format!("{}{}{}", e, r.s(&[" ", ", ", " the ", "\n"]), r.s(&["2st", "3rd", "11th.", "22ND"])),
            _ => format!("{} {}{}", r.s(WORDS), e, r.s(SEPS_AFTER)),
        };
        specs.push(spec(&t, "", "", "", "lexer_edge", true));
    }
    // (10) URL / e-mail shapes: correspondence of the tails (Model/C17Tails.v) with lexing/url.rs, email_address.rs
    for _ in 0..a.scale(1500, 40000) {
        let t = url_email_edge(&mut r);
        specs.push(spec(&t, "", "", "", "url_email_edge", true));
    }
    for _ in 0..a.scale(200, 4000) {
        let n = random_n(&mut r);
        let post = format!("{}{}", r.s(&["@x.com", "@", "://", "://x.com/a", ":// x", "@x", "@.com", ":/x"]), r.s(&["", " ", " now."]));
        specs.push(spec(r.s(&["", "to ", "a."]), &n.to_string(), r.s(&CASINGS), &post, "url_email_glued", true));
    }
    // (12) the passes after condense_dotted_initialisms (Model/C17Later.v): ellipses, `etc.` / `vs.` / `et al.` in every
    //      casing and spacing, near-misses, initialisms, quotes, contractions — around ordinals
    for _ in 0..a.scale(1500, 40000) {
        let t = later_edge(&mut r);
        specs.push(spec(&t, "", "", "", "later_passes_edge", true));
    }
    for _ in 0..a.scale(300, 6000) {
        let n = random_n(&mut r);
        let pre = format!("{}{}", later_edge(&mut r), r.s(&[" ", " ", ", ", "\n", " (", "... ", ".. "]));
        let post = format!("{}{}", r.s(&["", " ", "...", "..", ". . .", " etc.", " et al.", ", etc.", " vs. ", "... etc.", ".", "'s etc."]), later_edge(&mut r));
        specs.push(spec(&pre, &n.to_string(), r.s(&CASINGS), &post, "later_passes_around_ordinal", true));
    }
    run_batch(&mut rep, &specs, threads);
    // (11) texts with several ordinals (C17_lint_list): the class, and inside it exactly the promised lints
    let multis: Vec<MultiSpec> = (0..a.scale(1500, 60000)).map(|_| multi_spec(&mut r)).collect();
    run_multi_batch(&mut rep, &multis, threads);
    run_f64_stream(&mut rep, &mut r, &a);
    if a.thorough() {
        // exhaustive: every n < 10^5 x 16 casings in the template; then 10^6 random n
        let mut count = 0u64;
        let mut batch: Vec<Spec> = Vec::with_capacity(160_000);
        for n in 0u64..100_000 {
            for (i, sfx) in CASINGS.iter().enumerate() {
                batch.push(spec("The ", &n.to_string(), sfx, " item.", "exhaustive_1e5", (n as usize + i) % 64 == 0));
                count += 1;
            }
            if batch.len() >= 160_000 {
                run_batch(&mut rep, &batch, threads);
                batch.clear();
            }
        }
        run_batch(&mut rep, &batch, threads);
        batch.clear();
        rep.extra.insert("exhaustive_n_below_1e5_x_16_casings".into(), json!(count));
        let mut rnd = 0u64;
        for i in 0..1_000_000u64 {
            let n = r.next() % (1u64 << 53);
            batch.push(spec("The ", &n.to_string(), r.s(&CASINGS), " item.", "random_2p53", i % 64 == 0));
            rnd += 1;
            if batch.len() >= 200_000 {
                run_batch(&mut rep, &batch, threads);
                batch.clear();
            }
        }
        run_batch(&mut rep, &batch, threads);
        rep.extra.insert("random_n_below_2p53".into(), json!(rnd));
    }
    rep.finish();
}
