//! C18 — title-casing only changes letter case and is idempotent.
//! Correspondence: harper_core::make_title_case(tokens, source, dict) vs Model/TitleCase.v (extracted),
//! fed with the real token list and the per-word dictionary facts the code reads (panics included);
//! token lists come from PlainEnglish documents, sub-slices of them (as IsNotTitleCase passes them),
//! Markdown documents (hull != text) and a malformed stream of hand-made tokens over synthetic
//! dictionaries (canonical spellings of a different length, overlapping / empty / out-of-range spans).
//! Oracle (the property text on make_title_case_str(text, &PlainEnglish, &FstDictionary::curated())
//! and harper_wasm::to_title_case): no panic, same length in chars, every changed character is the
//! lower- or upper-case mapping of the input character, or a case variant of it (same lower- and
//! upper-case mapping: the relation C18_case_only proves), or is a curly apostrophe inside a
//! proper-noun word replaced by the straight one, the first word-like token starts upper-case when it
//! starts with an ASCII letter, and a second conversion changes nothing.
//! The same clauses (no panic, hull length, case-only) are evaluated on make_title_case over sub-slices of
//! a document's tokens, the way patterns::IsNotTitleCase calls it.
//! Monitors (each fails the oracle when violated, except H_case_stable which is only counted — it is the
//! lexer's part of idempotence, outside the model; its consequence, idempotence, is what the oracle
//! checks): H_tokens_ok (C02 invariant + tiling of every PlainEnglish token list), H_canon_len (canonical
//! spelling has the looked-up word's length; swept over the whole curated dictionary in four casings),
//! H_case_stable (re-tokenising the output gives the same spans, kinds and word metadata),
//! dict_case_insensitive (every Word token: the dictionary's answers for its text in the output are those
//! for its text in the input), lower_ascii_law, upper_ascii_law, lowercase_fixed, apostrophes_caseless,
//! apostrophes_lower_fixed and ascii_variant_closed (over all code points).
use harper_core::parsers::{Markdown, Parser, PlainEnglish};
use harper_core::{
    make_title_case, make_title_case_str, CharStringExt, Dictionary, Document, FstDictionary, Lrc, MutableDictionary,
    NounData, Punctuation, Span, Token, TokenKind, TokenStringExt, WordMetadata,
};
use hv::common::*;
use hv::gen;
use serde_json::{json, Value};
use std::collections::BTreeMap;
use std::sync::Arc;

// ------------------------------------------------------------------------------------------------
// dumping a case for the model
// ------------------------------------------------------------------------------------------------
fn kind_code(k: &TokenKind) -> u32 {
    match k {
        TokenKind::Word(_) => 0,
        TokenKind::Punctuation(_) => 1,
        TokenKind::Decade => 2,
        TokenKind::Number(_) => 3,
        TokenKind::Space(_) => 4,
        TokenKind::Newline(_) => 5,
        TokenKind::EmailAddress => 6,
        TokenKind::Url => 7,
        TokenKind::Hostname => 8,
        TokenKind::Unlintable => 9,
        TokenKind::ParagraphBreak => 10,
        TokenKind::Regexish => 11,
    }
}

/// 0 = None, otherwise 1 + proper + 2*preposition + 4*determiner (the facts title_case.rs reads)
fn meta_code(m: Option<&WordMetadata>) -> u32 {
    match m {
        None => 0,
        Some(md) => 1 + (md.is_proper_noun() as u32) + 2 * (md.preposition as u32) + 4 * (md.determiner as u32),
    }
}

fn tok_meta_code(k: &TokenKind) -> u32 {
    match k {
        TokenKind::Word(m) => meta_code(m.as_ref()),
        _ => 0,
    }
}

fn meta_from_code(code: u32) -> Option<WordMetadata> {
    if code == 0 {
        return None;
    }
    let v = code - 1;
    let mut md = WordMetadata::default();
    if v & 1 == 1 {
        md.noun = Some(NounData { is_proper: Some(true), ..Default::default() });
    }
    md.preposition = v & 2 == 2;
    md.determiner = v & 4 == 4;
    Some(md)
}

fn kind_from_code(k: u32, m: u32) -> TokenKind {
    match k {
        0 => TokenKind::Word(meta_from_code(m)),
        1 => TokenKind::Punctuation(harper_core::Punctuation::Comma),
        2 => TokenKind::Decade,
        3 => TokenKind::Number(harper_core::Number::default()),
        4 => TokenKind::Space(1),
        5 => TokenKind::Newline(1),
        6 => TokenKind::EmailAddress,
        7 => TokenKind::Url,
        8 => TokenKind::Hostname,
        9 => TokenKind::Unlintable,
        10 => TokenKind::ParagraphBreak,
        _ => TokenKind::Regexish,
    }
}

/// content of a span without any of the panics of Span::get_content
fn safe_content<'a>(s: Span, src: &'a [char]) -> Option<&'a [char]> {
    if s.start <= s.end && s.end <= src.len() {
        if s.start >= src.len() { Some(&src[0..0]) } else { Some(&src[s.start..s.end]) }
    } else {
        None
    }
}

/// The case line for the model: source, tokens, and the facts the code reads, all obtained from the
/// real implementation (char methods, dictionary methods).
fn case_line(toks: &[Token], src: &[char], dict: &impl Dictionary) -> String {
    let mut chars: BTreeMap<u32, String> = BTreeMap::new();
    // the guard of the canonical copy may be asked about a source character, a canonical character, or the
    // to_ascii_uppercase / to_ascii_lowercase image of one (written by an earlier, overlapping token)
    let mut add_char = |c0: &char| {
        for c in [*c0, c0.to_ascii_uppercase(), c0.to_ascii_lowercase()] {
            chars.entry(c as u32).or_insert_with(|| {
                let l: Vec<String> = c.to_lowercase().map(|x| (x as u32).to_string()).collect();
                let u: Vec<String> = c.to_uppercase().map(|x| (x as u32).to_string()).collect();
                format!("{} {} {} {} {} {}", c as u32, c.is_lowercase() as u32, l.len(), l.join(" "), u.len(), u.join(" "))
            });
        }
    };
    for c in src {
        add_char(c);
    }
    // is_case_variant compares the case mappings of the canonical spelling's characters, too
    for t in toks {
        if let TokenKind::Word(Some(_)) = &t.kind {
            if let Some(w) = safe_content(t.span, src) {
                if let Some(cc) = dict.get_correct_capitalization_of(w) {
                    for c in cc {
                        add_char(c);
                    }
                }
            }
        }
    }
    let mut canon: BTreeMap<Vec<char>, String> = BTreeMap::new();
    let mut meta: BTreeMap<Vec<char>, String> = BTreeMap::new();
    for t in toks {
        if let TokenKind::Word(Some(_)) = &t.kind {
            if let Some(w) = safe_content(t.span, src) {
                canon.entry(w.to_vec()).or_insert_with(|| match dict.get_correct_capitalization_of(w) {
                    None => format!("{} > -", cps(w)),
                    Some(c) => format!("{} > = {}", cps(w), cps(c)),
                });
                let lower = w.to_lower().to_vec();
                meta.entry(lower.clone()).or_insert_with(|| format!("{} > {}", cps(&lower), meta_code(dict.get_word_metadata(&lower))));
            }
        }
    }
    format!(
        "{} | {} | {} | {} | {}",
        cps(src),
        toks.iter().map(|t| format!("{} {} {} {}", t.span.start, t.span.end, kind_code(&t.kind), tok_meta_code(&t.kind))).collect::<Vec<_>>().join(" "),
        chars.values().cloned().collect::<Vec<_>>().join(" "),
        canon.values().cloned().collect::<Vec<_>>().join(" ; "),
        meta.values().cloned().collect::<Vec<_>>().join(" ; "),
    )
}

fn impl_line(toks: &[Token], src: &[char], dict: &impl Dictionary) -> String {
    match guarded(|| make_title_case(toks, src, dict)) {
        Ok(v) => format!("O {}", cps(&v)).trim().to_string(),
        Err(_) => "P".to_string(),
    }
}

fn corr(rep: &mut Report, toks: &[Token], src: &[char], dict: &impl Dictionary) -> String {
    let il = impl_line(toks, src, dict);
    rep.case(&case_line(toks, src, dict), &il);
    il
}

fn shape(toks: &[Token]) -> Vec<(usize, usize, u32, u32)> {
    toks.iter().map(|t| (t.span.start, t.span.end, kind_code(&t.kind), tok_meta_code(&t.kind))).collect()
}

// ------------------------------------------------------------------------------------------------
// end-to-end correspondence (Model/C18Str.v): the model lexes and condenses the text itself (C02's models),
// attaches the dictionary metadata and title-cases; it needs the Unicode tables of the lexer (dumped once,
// as the c02 harness does) and, per case, the facts about the words of the text
// ------------------------------------------------------------------------------------------------
fn ranges(pred: impl Fn(char) -> bool) -> Vec<(u32, u32)> {
    let mut out: Vec<(u32, u32)> = vec![];
    let mut cur: Option<(u32, u32)> = None;
    for cp in 0..=0x10FFFFu32 {
        let v = char::from_u32(cp).map(|c| pred(c)).unwrap_or(false);
        match (v, cur) {
            (true, Some((a, _))) => cur = Some((a, cp)),
            (true, None) => cur = Some((cp, cp)),
            (false, Some(r)) => {
                out.push(r);
                cur = None
            }
            (false, None) => {}
        }
    }
    if let Some(r) = cur {
        out.push(r);
    }
    out
}

/// CharExt::is_english_lingual is private; on the one-character text [c] the lexer answers Word exactly when
/// lex_word accepts c (C02's harness checks `lingual => alphabetic`, the shortcut taken here, over all code points)
fn observed_lingual(c: char) -> bool {
    if !c.is_alphabetic() && !c.is_alphanumeric() {
        return false;
    }
    let t = PlainEnglish.parse(&[c]);
    t.len() == 1 && matches!(t[0].kind, TokenKind::Word(_))
}

fn dump_unicode(rep: &mut Report) {
    let tabs: Vec<(&str, Vec<(u32, u32)>)> = vec![
        ("ws", ranges(|c| c.is_whitespace())),
        ("num", ranges(|c| c.is_numeric())),
        ("alpha", ranges(|c| c.is_alphabetic())),
        ("ling", ranges(observed_lingual)),
    ];
    for (name, rs) in &tabs {
        let line = format!("U {name} {}", rs.iter().map(|(a, b)| format!("{a}-{b}")).collect::<Vec<_>>().join(" "));
        rep.case(line.trim(), &format!("U {name} {}", rs.len()));
    }
}

// ---- the class of PLAIN texts of Proofs/C18LexStable.v, evaluated with the real predicates
const BAD_CHARS: &[char] = &['.', '@', ':', '[', '\'', '’', '‘', '＇']; // = C18LexStable.bad_chars
fn ws3(c: char) -> bool {
    matches!(c, '\t' | '\n' | ' ')
}
fn nopunct(c: char) -> bool {
    !matches!(c, '"' | '“' | '”') && Punctuation::from_char(c).is_none() // quote_chars, punct_from_char of Tables_lexer
}
fn wchar(c: char) -> bool {
    observed_lingual(c) && c.is_alphabetic() && !c.is_numeric() && nopunct(c) && !ws3(c)
}
fn ichar(c: char) -> bool {
    !observed_lingual(c) && !c.is_alphanumeric() && !c.is_ascii_alphanumeric() && (ws3(c) || !nopunct(c))
}
fn ochar(c: char) -> bool {
    !observed_lingual(c) && !c.is_numeric() && !c.is_ascii_alphanumeric() && nopunct(c) && !ws3(c)
}
fn plain_char(c: char) -> bool {
    !BAD_CHARS.contains(&c) && !c.is_ascii_digit() && (wchar(c) || ichar(c) || ochar(c))
}
fn plain_text(s: &[char]) -> bool {
    s.iter().all(|c| plain_char(*c))
}

// ---- the class of DOTTED texts of Proofs/C18LexDots.v (phase 4), evaluated with the real predicates
const BAD2: &[char] = &['@', ':', '[', '\'', '’', '‘', '＇']; // = C18LexDots.bad2 (the period is allowed)
fn wch(c: char) -> bool {
    wchar(c) && !c.is_ascii_digit()
}
fn char2(c: char) -> bool {
    !BAD2.contains(&c) && !c.is_ascii_digit() && (wch(c) || ichar(c) || ochar(c))
}
fn host_char(c: char) -> bool {
    c.is_ascii_alphanumeric() || c == '-' || c == '.'
}
/// the FC18c pattern [A-Za-z][sS][.-][A-Za-z0-9.-] at position i (C18LexDots.fc18c_here)
fn fc18c_here(s: &[char], i: usize) -> bool {
    i + 3 < s.len() && s[i].is_ascii_alphabetic() && matches!(s[i + 1], 's' | 'S') && matches!(s[i + 2], '.' | '-') && host_char(s[i + 3])
}
fn ctx_ok(s: &[char]) -> bool {
    (0..s.len()).all(|i| !fc18c_here(s, i))
}
fn dotted_text(s: &[char]) -> bool {
    s.iter().all(|c| char2(*c)) && ctx_ok(s)
}
// ---- the class of ALNUM texts of Proofs/C18LexAlnum.v (phase 5: digits, periods, straight apostrophe), evaluated
// with the real predicates
const BAD3: &[char] = &['@', '[', '‘', '＇']; // = C18LexAlnum.bad3 (phase 6: U+2019 inside the class; phase 7: the colon too)
fn dch(c: char) -> bool {
    c.is_ascii_digit() && c.is_numeric()
}
fn char3(c: char) -> bool {
    !BAD3.contains(&c) && (wch(c) || dch(c) || ichar(c) || ochar(c))
}
/// the look-ahead of the patterns: end of text, or a character that is neither a word character nor a digit
fn la3(s: &[char], i: usize) -> bool {
    s.get(i).map(|d| !(wch(*d) || dch(*d))).unwrap_or(true)
}
/// Lexer.lex_hostname_token on s[i..] answers (hostname.rs: a run of [A-Za-z0-9.-] that starts with a letter or
/// digit, is longer than 1, has a period strictly inside and does not end in one) — written out here, NOT a call into
/// harper: the CLS cases compare this evaluation with the extracted Coq definition
fn hostname_token_here(s: &[char], i: usize) -> bool {
    if i >= s.len() || !s[i].is_ascii_alphanumeric() {
        return false;
    }
    let len = s[i..].iter().take_while(|c| host_char(**c)).count();
    len > 1 && s[i + 1..i + len - 1].contains(&'.') && s[i + len - 1] != '.'
}
fn q_plural(s: &[char], i: usize) -> bool {
    i + 1 < s.len() && s[i].is_ascii_alphanumeric() && matches!(s[i + 1], 's' | 'S') && la3(s, i + 2) && (s[i].is_ascii_digit() || hostname_token_here(s, i))
}
fn q_apos(s: &[char], i: usize) -> bool {
    i + 2 < s.len() && s[i].is_ascii_alphanumeric() && matches!(s[i + 1], '\'' | '’') && matches!(s[i + 2], 's' | 'S') && la3(s, i + 3)
}
fn q_hex(s: &[char], i: usize) -> bool {
    i + 2 < s.len() && s[i] == '0' && matches!(s[i + 1], 'x' | 'X') && s[i + 2].is_ascii_hexdigit()
}
/// look-behind (C18LexAlnum.start_ok): the character before the pattern is not a word character — the lexer never
/// starts a token at an ASCII letter or digit that follows one (C18LexAlnum.alnum_lex_binv)
fn start_ok(s: &[char], i: usize) -> bool {
    i == 0 || !wch(s[i - 1])
}
fn q_here(s: &[char], i: usize) -> bool {
    start_ok(s, i) && (q_plural(s, i) || q_apos(s, i) || q_hex(s, i))
}
/// phase 7 (C18LexAlnum.q_url): `://` at ANY position — where lex_url's lex_ip_schemepart starts; without it lex_url
/// declines at every cursor position (C18_alnum_url_declines)
fn q_url(s: &[char], i: usize) -> bool {
    i + 2 < s.len() && s[i] == ':' && s[i + 1] == '/' && s[i + 2] == '/'
}
fn ctx_ok3(s: &[char]) -> bool {
    (0..s.len()).all(|i| !q_url(s, i) && !q_here(s, i))
}
fn alnum_text(s: &[char]) -> bool {
    s.iter().all(|c| char3(*c)) && ctx_ok3(s)
}
/// which pattern excludes a text of class characters (for the input distribution)
fn alnum_pattern(s: &[char]) -> &'static str {
    if (0..s.len()).any(|i| start_ok(s, i) && q_hex(s, i)) {
        "Q_hex(0x+hexdigit)"
    } else if (0..s.len()).any(|i| start_ok(s, i) && q_plural(s, i) && s[i].is_ascii_digit()) {
        "Q_plural(digit+s)"
    } else if (0..s.len()).any(|i| start_ok(s, i) && q_plural(s, i)) {
        "Q_plural(letter+s+hostname=FC18c)"
    } else {
        "Q_apos(alnum+'s or alnum+’s)"
    }
}
/// ickey of Proofs/C18PassesIC.v: the ASCII lower-case letter of an ASCII letter, 0 for any other character
fn ickey(c: char) -> u32 {
    if c.is_ascii_alphabetic() { c.to_ascii_lowercase() as u32 } else { 0 }
}
/// spans and kinds of a token list (no metadata)
fn lex_shape(toks: &[Token]) -> Vec<(usize, usize, u32)> {
    toks.iter().map(|t| (t.span.start, t.span.end, kind_code(&t.kind))).collect()
}
/// a Parser that answers a fixed token list whatever the text: Document::new_from_vec(text', FixedTokens(t0), dict)
/// runs the passes of Document::parse on t0 with ANOTHER text (C18_passes_case_blind quantifies over any token list)
struct FixedTokens(Vec<Token>);
impl Parser for FixedTokens {
    fn parse(&self, _source: &[char]) -> Vec<Token> {
        self.0.clone()
    }
}

/// "STR | src | chars | canon | meta": like case_line, but the dictionary facts are keyed by the words of the
/// REAL token list (raw text for the metadata the document attaches, lower-cased text for
/// should_capitalize_token); the model asks for the facts of ITS tokens and answers "?" when one is missing
fn str_case_line(toks: &[Token], src: &[char], dict: &impl Dictionary) -> String {
    let full = case_line(toks, src, dict);
    let parts: Vec<&str> = full.split(" | ").collect();
    // parts: src | toks | chars | canon | meta   (toks dropped; the raw-word metadata the document attaches added)
    let mut meta: BTreeMap<Vec<char>, String> = BTreeMap::new();
    for t in toks {
        if let TokenKind::Word(_) = &t.kind {
            if let Some(w) = safe_content(t.span, src) {
                meta.entry(w.to_vec()).or_insert_with(|| format!("{} > {}", cps(w), meta_code(dict.get_word_metadata(w))));
            }
        }
    }
    let mut all_meta: Vec<String> = meta.values().cloned().collect();
    if parts.len() == 5 && !parts[4].trim().is_empty() {
        all_meta.push(parts[4].trim().to_string());
    }
    format!("STR | {} | {} | {} | {}", parts[0], parts.get(2).unwrap_or(&""), parts.get(3).unwrap_or(&""), all_meta.join(" ; "))
}

fn tok_case_line(toks: &[Token], src: &[char], dict: &impl Dictionary) -> String {
    let mut meta: BTreeMap<Vec<char>, String> = BTreeMap::new();
    for t in toks {
        if let TokenKind::Word(_) = &t.kind {
            if let Some(w) = safe_content(t.span, src) {
                meta.entry(w.to_vec()).or_insert_with(|| format!("{} > {}", cps(w), meta_code(dict.get_word_metadata(w))));
            }
        }
    }
    format!("TOK | {} | {}", cps(src), meta.values().cloned().collect::<Vec<_>>().join(" ; "))
}

fn tok_impl_line(toks: &[Token]) -> String {
    format!("T {}", shape(toks).iter().map(|(s, e, k, m)| format!("{s} {e} {k} {m}")).collect::<Vec<_>>().join(" ")).trim().to_string()
}

// ------------------------------------------------------------------------------------------------
// the property oracle on the real function
// ------------------------------------------------------------------------------------------------
/// b is a case form of a: its lower-case or its upper-case mapping (one character).  KELVIN SIGN -> 'K' is
/// NOT a case form (both are upper-case; they merely share the lower-case 'k').
fn case_form(a: char, b: char) -> bool {
    a.to_lowercase().eq([b]) || a.to_uppercase().eq([b])
}
/// the same letter in possibly different case: same lower-case AND same upper-case mapping (also covers
/// title-case forms such as U+01C5, which are neither mapping of their lower-case letter).  This is the
/// relation C18_case_only proves (case_variant) and the one title_case.rs:is_case_variant computes.
fn is_case_variant(a: char, b: char) -> bool {
    a.to_lowercase().eq(b.to_lowercase()) && a.to_uppercase().eq(b.to_uppercase())
}
/// tc_rel of the Coq development: what C18_case_only allows between an input and an output character
fn tc_rel(a: char, b: char) -> bool {
    is_case_variant(a, b) || (is_curly_apostrophe(a) && b == '\'')
}
fn is_curly_apostrophe(c: char) -> bool {
    matches!(c, '’' | '‘' | '＇')
}

struct World {
    dict: Arc<FstDictionary>,
    /// end-to-end correspondence cases (STR / TOK) are emitted for every text, except in the exhaustive
    /// dictionary sweep of the thorough tier where every `e2e_sample`-th text gets them
    e2e_sample: u64,
    e2e_counter: std::cell::Cell<u64>,
    /// characters of the plain class that are not case-stable (computed from all code points at start-up)
    unstable: std::collections::HashSet<char>,
    /// characters of the dotted class (C18LexDots.char2) that are not case-stable in the sense of case_stable2
    unstable2: std::collections::HashSet<char>,
    /// characters of the alnum class (C18LexAlnum.char3) that are not case-stable in the sense of case_stable3
    unstable3: std::collections::HashSet<char>,
}

/// in bounds, ordered, disjoint, word-like tokens non-empty, and the tokens tile the text
fn tokens_not_ok(toks: &[Token], n: usize) -> Option<String> {
    let mut pos = 0usize;
    for (i, t) in toks.iter().enumerate() {
        if t.span.start > t.span.end || t.span.end > n {
            return Some(format!("token {i} {:?} out of bounds", t.span));
        }
        if t.span.start != pos {
            return Some(format!("token {i} starts at {} but the previous token ended at {pos}", t.span.start));
        }
        if t.kind.is_word_like() && t.span.start == t.span.end {
            return Some(format!("word-like token {i} is empty"));
        }
        pos = t.span.end;
    }
    if pos != n {
        return Some(format!("tokens end at {pos}, text at {n}"));
    }
    None
}

const APOSTROPHES: &[char] = &['\'', '’', '‘', '＇']; // = tc_canonical_apostrophe_to :: tc_canonical_apostrophe_from (C18_source_shape)
const SPECIAL_CONJUNCTIONS: &[&str] = &["and", "but", "for", "or", "nor"]; // = tc_special_conjunctions (C18_source_shape)

/// the three things the loop body asks about a word's text
fn word_facts(w: &[char], dict: &impl Dictionary) -> (Option<Vec<char>>, u32, bool) {
    let lower = w.to_lower();
    let ls: String = lower.iter().collect();
    (dict.get_correct_capitalization_of(w).map(|c| c.to_vec()), meta_code(dict.get_word_metadata(&lower)), SPECIAL_CONJUNCTIONS.contains(&ls.as_str()))
}

/// H_canon_len and its companions on one looked-up word (called for every Word token met)
fn monitor_word(rep: &mut Report, w: &[char], dict: &impl Dictionary, inp: &Value) {
    if let Some(c) = dict.get_correct_capitalization_of(w) {
        rep.monitor("H_canon_len:lookups", 1);
        // premise of C18_total_word_id: same folded form (char_to_normalized, then to_lowercase)
        let fold = |x: &[char]| -> Vec<char> { x.iter().map(|c| if is_curly_apostrophe(*c) { '\'' } else { *c }).flat_map(|c| c.to_lowercase()).collect() };
        if fold(w) != fold(c) {
            rep.monitor("H_word_id_fold:violated", 1);
            rep.fail("H_word_id_fold", format!("canonical spelling {:?} found for {:?} has a different folded form", c.to_string(), w.to_string()), inp.clone());
        }
        if c.len() != w.len() {
            rep.monitor("H_canon_len:violated", 1);
            rep.fail("H_canon_len", format!("canonical spelling {:?} of {:?} has a different length", c.to_string(), w.to_string()), inp.clone());
        }
    }
}

/// make_title_case on a sub-slice of a document's tokens, as patterns::IsNotTitleCase (and through it the
/// proper-noun capitalisation linters) call it: no panic, output = the hull's text up to case / canonical
/// apostrophes, same length as the hull.
fn check_subslice(rep: &mut Report, toks: &[Token], a: usize, b: usize, src: &[char], dict: &impl Dictionary, text: &str) {
    let sub = &toks[a..b];
    let il = corr(rep, sub, src, dict);
    rep.count("corr:subslice");
    let inp = json!({"kind": "text", "text": text, "slice": [a, b]});
    if il == "P" {
        rep.fail("subslice_panic", format!("make_title_case panicked on tokens {a}..{b} of the document at {}", last_panic_location()), inp);
        return;
    }
    let out: Vec<char> = if il.len() <= 1 { vec![] } else { il[2..].split(' ').filter_map(|x| x.parse::<u32>().ok().and_then(char::from_u32)).collect() };
    let hull = sub.span().map(|s| s.get_content(src).to_vec()).unwrap_or_default();
    if out.len() != hull.len() {
        rep.fail("subslice_length", format!("tokens {a}..{b}: output has {} chars, their hull {}", out.len(), hull.len()), inp);
        return;
    }
    let start = sub.first().map(|t| t.span.start).unwrap_or(0);
    for i in 0..out.len() {
        let (x, y) = (hull[i], out[i]);
        if x == y || case_form(x, y) || is_case_variant(x, y) {
            continue;
        }
        let in_proper = sub.iter().any(|t| t.span.start <= start + i && start + i < t.span.end && t.kind.is_proper_noun());
        if is_curly_apostrophe(x) && y == '\'' && in_proper {
            continue;
        }
        rep.fail("subslice_non_case_change", format!("tokens {a}..{b}: hull char {i} {:?} became {:?}", x, y), inp);
        return;
    }
}

fn check_text(rep: &mut Report, world: &World, text: &str, origin: &str, r: Option<&mut Rng>) {
    rep.eval();
    let dict = &*world.dict;
    let inp = json!({"kind": "text", "text": text, "origin": origin});
    let src: Vec<char> = text.chars().collect();
    let doc = guarded(|| Document::new_from_vec(Lrc::new(src.clone()), &PlainEnglish, dict));
    let Ok(doc) = doc else {
        rep.count("document_construction_panicked(C01's business)");
        return;
    };
    let toks: Vec<Token> = doc.get_tokens().to_vec();
    // ---- correspondence on the real token list (+ sub-slices, as IsNotTitleCase passes them)
    let il = corr(rep, &toks, &src, dict);
    let n_e2e = world.e2e_counter.get();
    world.e2e_counter.set(n_e2e + 1);
    let e2e = !origin.starts_with("dictionary word") || n_e2e % world.e2e_sample == 0;
    if e2e {
        // the model's own tokenisation + metadata vs Document::new_from_vec(.., PlainEnglish, dict)
        rep.case(&tok_case_line(&toks, &src, dict), &tok_impl_line(&toks));
        rep.count("corr:document_tokens");
        // the classes of the theorems as the harness evaluates them vs the extracted Coq definitions
        // (C18LexStable.plain_text, C18LexDots.dotted_text, C18LexAlnum.alnum_text) on the dumped Unicode tables
        rep.case(&format!("CLS | {}", cps(&src)), &format!("C {} {} {}", plain_text(&src) as u8, dotted_text(&src) as u8, alnum_text(&src) as u8));
        rep.count("corr:classes");
    }
    // ---- C18_passes_case_blind on the implementation: the passes of Document::parse on the lexer's token list of
    // this text, run with an ASCII-case-scrambled text (all upper / alternating), give the same spans and kinds
    if src.iter().any(|c| c.is_ascii_alphabetic()) {
        let t0 = guarded(|| PlainEnglish.parse(&src));
        if let Ok(t0) = t0 {
            let upper: Vec<char> = src.iter().map(|c| c.to_ascii_uppercase()).collect();
            let alt: Vec<char> = src.iter().enumerate().map(|(i, c)| if i % 2 == 0 { c.to_ascii_uppercase() } else { c.to_ascii_lowercase() }).collect();
            for (name, s2) in [("upper", upper), ("alternating", alt)] {
                if s2 == src {
                    continue;
                }
                rep.monitor("passes_case_blind:checked", 1);
                let d2 = guarded(|| Document::new_from_vec(Lrc::new(s2.clone()), &FixedTokens(t0.clone()), dict));
                match d2 {
                    Ok(d2) => {
                        if lex_shape(d2.get_tokens()) != lex_shape(&toks) {
                            rep.monitor("passes_case_blind:violated", 1);
                            rep.fail("passes_blind", format!("the passes of Document::parse give different tokens on the lexer's token list when the text is ASCII-case-scrambled ({name}): {:?}", s2.to_string()), inp.clone());
                        }
                    }
                    Err(m) => {
                        rep.monitor("passes_case_blind:violated", 1);
                        rep.fail("passes_blind", format!("the passes panic on the ASCII-case-scrambled text ({name}) but not on the text: {m}"), inp.clone());
                    }
                }
            }
        }
    }
    // ---- C18_lex_alnum_stable on the implementation: a text of the alnum class (characters only; case stability is
    // not needed for ASCII scrambles) and its ASCII-case scrambles — which the theorem's closure lemma puts into the
    // class again — are cut alike by PlainEnglish::parse (spans and kinds) and give the same document tokens
    if alnum_text(&src) {
        let upper: Vec<char> = src.iter().map(|c| c.to_ascii_uppercase()).collect();
        let lower: Vec<char> = src.iter().map(|c| c.to_ascii_lowercase()).collect();
        let alt: Vec<char> = src.iter().enumerate().map(|(i, c)| if i % 2 == 0 { c.to_ascii_uppercase() } else { c.to_ascii_lowercase() }).collect();
        let l0 = guarded(|| PlainEnglish.parse(&src)).map(|t| lex_shape(&t));
        for (name, s2) in [("upper", upper), ("lower", lower), ("alternating", alt)] {
            if s2 == src {
                continue;
            }
            rep.monitor("lex_alnum_stable:checked", 1);
            if !alnum_text(&s2) {
                rep.monitor("lex_alnum_stable:violated", 1);
                rep.fail("alnum_lex_blind", format!("the ASCII-case scramble ({name}) {:?} of a text of the alnum class is outside the class (ctx_ok3_congr says it is inside)", s2.to_string()), inp.clone());
                continue;
            }
            let l2 = guarded(|| PlainEnglish.parse(&s2)).map(|t| lex_shape(&t));
            if l0.is_err() != l2.is_err() || (l0.is_ok() && l0.as_ref().ok() != l2.as_ref().ok()) {
                rep.monitor("lex_alnum_stable:violated", 1);
                rep.fail("alnum_lex_blind", format!("PlainEnglish::parse cuts a text of the alnum class and its ASCII-case scramble ({name}) {:?} differently (C18_lex_alnum_stable says it does not)", s2.to_string()), inp.clone());
                continue;
            }
            let d2 = guarded(|| Document::new_from_vec(Lrc::new(s2.clone()), &PlainEnglish, dict)).map(|d| lex_shape(d.get_tokens()));
            if d2.as_ref().ok() != Some(&lex_shape(&toks)) {
                rep.monitor("lex_alnum_stable:violated", 1);
                rep.fail("alnum_lex_blind", format!("Document::new gives different spans / kinds for a text of the alnum class and its ASCII-case scramble ({name}) {:?}", s2.to_string()), inp.clone());
            }
        }
        // ---- C18_lex_curly_stable / C18_lex_alnum4_stable on the implementation (phase 6): a text of the class with
        // U+2019 and the texts where all / the first / every second U+2019 is written as ' (Ra), and the same under an
        // ASCII-case scramble (Rl4), are inside the class and cut alike by PlainEnglish::parse and by Document::new
        if src.contains(&'’') {
            let all: Vec<char> = src.iter().map(|c| if *c == '’' { '\'' } else { *c }).collect();
            let mut seen = 0usize;
            let first: Vec<char> = src.iter().map(|c| if *c == '’' { seen += 1; if seen == 1 { '\'' } else { *c } } else { *c }).collect();
            let mut seen2 = 0usize;
            let second: Vec<char> = src.iter().map(|c| if *c == '’' { seen2 += 1; if seen2 % 2 == 0 { '\'' } else { *c } } else { *c }).collect();
            let all_upper: Vec<char> = all.iter().map(|c| c.to_ascii_uppercase()).collect();
            for (name, s2) in [("all straight", all), ("first straight", first), ("every second straight", second), ("all straight + upper", all_upper)] {
                if s2 == src {
                    continue;
                }
                rep.monitor("lex_curly_stable:checked", 1);
                if !alnum_text(&s2) {
                    rep.monitor("lex_curly_stable:violated", 1);
                    rep.fail("curly_lex_blind", format!("the text with U+2019 written as ' ({name}) {:?} of a text of the alnum class is outside the class (C18_alnum_closed_rl4 says it is inside)", s2.to_string()), inp.clone());
                    continue;
                }
                let l2 = guarded(|| PlainEnglish.parse(&s2)).map(|t| lex_shape(&t));
                if l0.is_err() != l2.is_err() || (l0.is_ok() && l0.as_ref().ok() != l2.as_ref().ok()) {
                    rep.monitor("lex_curly_stable:violated", 1);
                    rep.fail("curly_lex_blind", format!("PlainEnglish::parse cuts a text of the alnum class and the text with U+2019 written as ' ({name}) {:?} differently (C18_lex_alnum4_stable says it does not)", s2.to_string()), inp.clone());
                    continue;
                }
                let d2 = guarded(|| Document::new_from_vec(Lrc::new(s2.clone()), &PlainEnglish, dict)).map(|d| lex_shape(d.get_tokens()));
                if d2.as_ref().ok() != Some(&lex_shape(&toks)) {
                    rep.monitor("lex_curly_stable:violated", 1);
                    rep.fail("curly_lex_blind", format!("Document::new gives different spans / kinds for a text of the alnum class and the text with U+2019 written as ' ({name}) {:?}", s2.to_string()), inp.clone());
                }
            }
        }
    }
    if let Some(r) = r {
        if toks.len() >= 2 {
            for _ in 0..2 {
                let a = r.below(toks.len());
                let b = r.range(a, toks.len());
                check_subslice(rep, &toks, a, b, &src, dict, text);
            }
        }
    }
    // ---- premise of C18_total / C18_first_upper / C18_idempotent_partial: the C02 token invariant, tiling
    rep.monitor("H_tokens_ok:checked", 1);
    if let Some(why) = tokens_not_ok(&toks, src.len()) {
        rep.monitor("H_tokens_ok:violated", 1);
        rep.fail("H_tokens_ok", format!("token list of the PlainEnglish document violates the invariant the theorems assume: {why}"), inp.clone());
    }
    // ---- oracle
    let out = guarded(|| make_title_case_str(text, &PlainEnglish, dict));
    if e2e {
        // make_title_case_str vs C18Str.title_case_str (extracted), end to end
        let sl = match &out {
            Ok(o) => format!("O {}", cps(&o.chars().collect::<Vec<char>>())).trim().to_string(),
            Err(_) => "P".to_string(),
        };
        rep.case(&str_case_line(&toks, &src, dict), &sl);
        rep.count("corr:title_case_str");
    }
    // the class of C18_str_relex_plain / C18_str_idempotent_plain: plain_stable_text
    let is_plain = plain_text(&src) && !src.iter().any(|c| world.unstable.contains(c));
    rep.count(if is_plain { "plain_stable_text(C18_str_idempotent_plain applies):yes" } else { "plain_stable_text(C18_str_idempotent_plain applies):no" });
    // the class of C18_str_relex_dotted / C18_str_idempotent_dotted: dotted_stable_text
    let is_dotted = dotted_text(&src) && !src.iter().any(|c| world.unstable2.contains(c));
    rep.count(match (is_plain, is_dotted) {
        (true, true) => "class:plain_and_dotted",
        (true, false) => "class:plain_only(has [A-Za-z][sS]-[host])",
        (false, true) => "class:dotted_only(has a period)",
        (false, false) => "class:neither_plain_nor_dotted",
    });
    // the class of C18_str_relex_alnum / C18_str_idempotent_alnum (phase 5): alnum_stable_text — contains both classes
    // above (theorems plain_alnum / dotted_alnum; observed here)
    let is_alnum = alnum_text(&src) && !src.iter().any(|c| world.unstable3.contains(c));
    // per-stream coverage of the proved class (phase 7: the colon stream is aimed at the class border, so the overall
    // percentage is only comparable between runs on the same streams)
    if origin == "colon" {
        rep.count(if is_alnum { "class3_colon_stream:alnum" } else { "class3_colon_stream:outside" });
    } else {
        rep.count(if is_alnum { "class3_other_streams:alnum" } else { "class3_other_streams:outside" });
    }
    if (plain_text(&src) || dotted_text(&src)) && !alnum_text(&src) {
        rep.fail("class_inclusion", format!("{:?} is plain or dotted but not in the alnum class (C18_alnum_contains_plain_dotted says it is)", text), inp.clone());
    }
    if is_alnum {
        rep.count("class3:alnum(C18_str_idempotent_alnum applies)");
        if !is_plain && !is_dotted {
            rep.count(if src.contains(&':') {
                "class3:alnum_only:has_colon(phase 7)"
            } else if src.contains(&'’') {
                "class3:alnum_only:has_curly_apostrophe(phase 6)"
            } else if src.iter().any(|c| c.is_ascii_digit()) {
                "class3:alnum_only:has_digit"
            } else if src.contains(&'\'') {
                "class3:alnum_only:has_apostrophe"
            } else {
                "class3:alnum_only:refined_hostname_clause"
            });
        }
    } else {
        let why = if src.iter().any(|c| matches!(c, '@' | '[')) {
            "at_or_bracket".to_string()
        } else if (0..src.len()).any(|i| q_url(&src, i)) {
            "Q_url(://)".to_string()
        } else if src.iter().any(|c| BAD3.contains(c)) {
            "left_quote_or_fullwidth_apostrophe(U+2018,U+FF07)".to_string()
        } else if !src.iter().all(|c| char3(*c)) {
            "other_character(non-ASCII numeric..)".to_string()
        } else if src.iter().any(|c| world.unstable3.contains(c)) {
            "not_case_stable_character".to_string()
        } else {
            alnum_pattern(&src).to_string()
        };
        rep.count(&format!("class3:outside(idempotence is oracle-only):{why}"));
    }
    if !is_plain && !is_dotted {
        let why = if src.iter().any(|c| c.is_ascii_digit()) { "digit" } else if src.iter().any(|c| BAD2.contains(c)) { "apostrophe_at_colon_bracket" } else if !ctx_ok(&src) { "fc18c_pattern" } else { "other_character" };
        rep.count(&format!("class:neither:{why}"));
    }
    let out = match out {
        Ok(o) => o,
        Err(m) => {
            rep.fail("panic", format!("make_title_case_str panicked: {m} at {}", last_panic_location()), inp);
            return;
        }
    };
    let outc: Vec<char> = out.chars().collect();
    if format!("O {}", cps(&outc)).trim() != il {
        rep.fail("str_vs_tokens", "make_title_case_str differs from make_title_case on the document's tokens".into(), inp.clone());
    }
    for t in &toks {
        if let TokenKind::Word(Some(_)) = &t.kind {
            if let Some(w) = safe_content(t.span, &src) {
                monitor_word(rep, w, dict, &inp);
            }
        }
    }
    // (1) same length
    if outc.len() != src.len() {
        rep.fail("length", format!("output has {} chars, input {}", outc.len(), src.len()), inp.clone());
        return;
    }
    // (2) case-only, modulo apostrophe normalisation inside proper-noun words
    let mut changed = 0usize;
    let mut apostrophes = 0usize;
    for i in 0..src.len() {
        let (a, b) = (src[i], outc[i]);
        if a == b {
            continue;
        }
        changed += 1;
        if !tc_rel(a, b) {
            rep.count("changed_char_outside_the_theorem's_relation"); // never on a tree the model corresponds to
        }
        if case_form(a, b) || is_case_variant(a, b) {
            continue;
        }
        let in_proper = toks.iter().any(|t| t.span.start <= i && i < t.span.end && t.kind.is_proper_noun());
        if is_curly_apostrophe(a) && b == '\'' && in_proper {
            apostrophes += 1;
            continue;
        }
        rep.fail("non_case_change", format!("char {i}: {:?} (U+{:04X}) became {:?} (U+{:04X}){}", a, a as u32, b, b as u32, if in_proper { " inside a proper-noun word" } else { "" }), inp.clone());
        break; // one report per text; the remaining clauses are still evaluated
    }
    // (3) first word-like token starts upper-case when it starts with an ASCII letter
    if let Some(t) = toks.iter().find(|t| t.kind.is_word_like()) {
        let p = t.span.start;
        if p < src.len() && src[p].is_ascii_alphabetic() {
            rep.count("first_word_like:ascii_letter");
            if !outc[p].is_ascii_uppercase() {
                rep.fail("first_upper", format!("first word-like token starts with {:?} in the output", outc[p]), inp.clone());
            }
        } else {
            rep.count("first_word_like:other");
        }
    } else {
        rep.count("first_word_like:none");
    }
    // ---- dict_case_insensitive (premise of C18_idempotent_partial): for every Word token of the first pass, the
    // dictionary's two answers for its text in the output are those for its text in the input whenever the two
    // texts are related as C18_case_only says (case variants, curly -> straight apostrophe)
    for t in &toks {
        if let TokenKind::Word(_) = &t.kind {
            let (u, v) = (t.span.get_content(&src), t.span.get_content(&outc));
            if u.iter().zip(v).all(|(a, b)| tc_rel(*a, *b)) {
                rep.monitor("dict_case_insensitive:checked", 1);
                if u != v {
                    rep.monitor("dict_case_insensitive:checked_on_changed_word", 1);
                }
                // dict_meta_case_insensitive (premise of C18_str_relex_plain): get_word_metadata of the RAW text
                rep.monitor("dict_meta_case_insensitive:checked", 1);
                if meta_code(dict.get_word_metadata(u)) != meta_code(dict.get_word_metadata(v)) {
                    rep.monitor("dict_meta_case_insensitive:violated", 1);
                    rep.fail("dict_meta_case_insensitive", format!("get_word_metadata answers differently for {:?} and {:?}", u.to_string(), v.to_string()), inp.clone());
                }
                let (f1, f2) = (word_facts(u, dict), word_facts(v, dict));
                if (&f1.0, f1.1) != (&f2.0, f2.1) {
                    rep.monitor("dict_case_insensitive:violated", 1);
                    rep.fail("dict_case_insensitive", format!("the dictionary answers differently for {:?} and {:?}", u.to_string(), v.to_string()), inp.clone());
                }
            }
        }
    }
    // (4) idempotence (+ H_case_stable: does the real lexer give the second pass the same tokens?)
    let doc2 = guarded(|| Document::new_from_vec(Lrc::new(outc.clone()), &PlainEnglish, dict));
    let mut stable = true;
    let mut unstable_why = String::new();
    if let Ok(doc2) = doc2 {
        let toks2 = doc2.get_tokens();
        rep.monitor("H_case_stable:checked", 1);
        if is_plain {
            rep.monitor("H_relex_plain:checked", 1);
            if !plain_text(&outc) {
                rep.monitor("H_relex_plain:violated", 1);
                rep.fail("plain_relex", "the title case of a plain text is not a plain text (C18_str_relex_plain says it is)".into(), inp.clone());
            }
        }
        if is_dotted {
            rep.monitor("H_relex_dotted:checked", 1);
            if !dotted_text(&outc) {
                rep.monitor("H_relex_dotted:violated", 1);
                rep.fail("dotted_relex", "the title case of a dotted text is not a dotted text (C18_str_relex_dotted says it is)".into(), inp.clone());
            }
            if shape(toks2) != shape(&toks) {
                rep.monitor("H_relex_dotted:violated", 1);
                rep.fail("dotted_relex", format!("a DOTTED text re-lexes differently after title-casing: {:?} -> {:?}", text, out), inp.clone());
            }
        }
        if is_alnum {
            rep.monitor("H_relex_alnum:checked", 1);
            // phase 6: how often title-casing really writes ' over U+2019 in a text of the class (the Ra step of Rl4)
            if src.len() == outc.len() && src.iter().zip(outc.iter()).any(|(a, c)| *a == '’' && *c == '\'') {
                rep.monitor("H_relex_alnum:with_straightened_apostrophe", 1);
                rep.count("class3:alnum:title_case_straightens_a_curly_apostrophe");
            }
            if !alnum_text(&outc) {
                rep.monitor("H_relex_alnum:violated", 1);
                rep.fail("alnum_relex", "the title case of a text of the alnum class is not in the class (C18_str_relex_alnum says it is)".into(), inp.clone());
            }
            if shape(toks2) != shape(&toks) {
                rep.monitor("H_relex_alnum:violated", 1);
                rep.fail("alnum_relex", format!("a text of the ALNUM class re-lexes differently after title-casing: {:?} -> {:?}", text, out), inp.clone());
            }
        }
        // H_relex_lex (residue of C18_str_idempotent_lexer_partial): the LEXER ALONE cuts the output like the text;
        // C18_str_relex_of_lexer: then the document tokens are the same
        let (l1, l2) = (guarded(|| PlainEnglish.parse(&src)), guarded(|| PlainEnglish.parse(&outc)));
        if let (Ok(l1), Ok(l2)) = (l1, l2) {
            rep.monitor("H_relex_lex:checked", 1);
            if lex_shape(&l1) == lex_shape(&l2) {
                if shape(toks2) != shape(&toks) {
                    rep.monitor("relex_of_lexer:violated", 1);
                    rep.fail("relex_of_lexer", format!("the lexer cuts {:?} and its title case {:?} alike but the document tokens differ (C18_str_relex_of_lexer says they do not)", text, out), inp.clone());
                }
            } else {
                rep.monitor("H_relex_lex:violated", 1);
                if is_plain || is_dotted {
                    rep.fail("dotted_relex", format!("the lexer cuts a text of the proved classes and its title case differently: {:?} -> {:?}", text, out), inp.clone());
                } else if is_alnum {
                    rep.fail("alnum_relex", format!("the lexer cuts a text of the alnum class and its title case differently: {:?} -> {:?}", text, out), inp.clone());
                }
            }
        }
        if shape(toks2) != shape(&toks) {
            stable = false;
            rep.monitor("H_case_stable:violated", 1);
            if is_plain {
                // C18_str_relex_plain PROVES this cannot happen for a plain text: the model, a law or the
                // class as evaluated here does not match the code
                rep.monitor("H_relex_plain:violated", 1);
                rep.fail("plain_relex", format!("a PLAIN text re-lexes differently after title-casing: {:?} -> {:?}", text, out), inp.clone());
            }
            // the second pass on its own token list is a correspondence case of its own
            corr(rep, toks2, &outc, dict);
            // diagnosis: a hostname that only exists because a non-ASCII letter was replaced by an ASCII one,
            // otherwise the first token of the second pass that the first pass did not have
            let s1 = shape(&toks);
            let is_new = |t: &&Token| !s1.contains(&(t.span.start, t.span.end, kind_code(&t.kind), tok_meta_code(&t.kind)));
            let replaced_in = |t: &Token| (t.span.start..t.span.end.min(src.len()).min(outc.len())).find(|i| src[*i] != outc[*i] && !src[*i].is_ascii() && outc[*i].is_ascii());
            let host = toks2.iter().filter(is_new).find(|t| kind_code(&t.kind) == 8 && replaced_in(t).is_some());
            // FC18c: a two-character Word the first pass owes to lex_plural_digit (ASCII letter or digit + LOWER-case s
            // before a non-alphanumeric character) whose s the canonical spelling upper-cased: lex_plural_digit
            // declines on the output and hostname / e-mail / URL material swallows the word
            let plural = toks.iter().find(|t| {
                matches!(t.kind, TokenKind::Word(_))
                    && t.span.len() == 2
                    && t.span.end <= src.len()
                    && src[t.span.start].is_ascii_alphanumeric()
                    && src[t.span.start + 1] == 's'
                    && outc[t.span.start + 1] == 'S'
                    && src.get(t.span.end).map(|c| !c.is_alphanumeric()).unwrap_or(true)
            });
            unstable_why = if let Some(t1) = plural {
                let first_new = toks2.iter().find(is_new).map(|t2| format!("a token of kind {} at {}..{}", kind_code(&t2.kind), t2.span.start, t2.span.end)).unwrap_or_else(|| "fewer tokens".into());
                format!(
                    "FC18c plural-digit: the Word {:?} at {}..{} was cut by lex_plural_digit because of its lower-case s; title-cased to {:?} it is not, and the output re-lexes with {first_new}",
                    t1.span.get_content(&src).to_string(), t1.span.start, t1.span.end, t1.span.get_content(&outc).to_string()
                )
            } else if let Some(t2) = host {
                let i = replaced_in(t2).unwrap();
                format!(
                    "the output re-lexes with the hostname {:?} because U+{:04X} was replaced by U+{:04X}",
                    t2.span.get_content(&outc).to_string(), src[i] as u32, outc[i] as u32
                )
            } else if let Some(t2) = toks2.iter().find(is_new) {
                format!("re-tokenising the output gives different tokens, first a token of kind {} at {}..{}", kind_code(&t2.kind), t2.span.start, t2.span.end)
            } else {
                "re-tokenising the output gives fewer tokens".to_string()
            };
        } else {
            for (t1, t2) in toks.iter().zip(toks2) {
                if let TokenKind::Word(Some(_)) = &t1.kind {
                    let (w1, w2) = (t1.span.get_content(&src), t2.span.get_content(&outc));
                    rep.monitor("H_case_stable:word_facts_compared", 1);
                    let (f1, f2) = (word_facts(w1, dict), word_facts(w2, dict));
                    if f1 != f2 {
                        stable = false;
                        rep.monitor("H_case_stable:word_facts_differ", 1);
                    }
                }
            }
        }
    }
    match guarded(|| make_title_case_str(&out, &PlainEnglish, dict)) {
        Ok(o2) if o2 == out => {}
        Ok(o2) => {
            rep.fail(
                "idempotence",
                format!("second conversion changes {:?} into {:?}{}", out, o2, if unstable_why.is_empty() { String::new() } else { format!(" ({unstable_why})") }),
                inp.clone(),
            );
        }
        Err(m) => rep.fail("panic", format!("second conversion panicked: {m}"), inp.clone()),
    }
    if !stable {
        rep.count("case_unstable_tokenisation");
        let e = rep.extra.entry("case_unstable_examples".into()).or_insert_with(|| json!([]));
        if e.as_array().map(|a| a.len() < 12).unwrap_or(false) {
            e.as_array_mut().unwrap().push(json!({"text": text, "title_case": out}));
        }
    }
    // distribution
    rep.count(&format!("changed_chars:{}", bucket(changed)));
    if apostrophes > 0 {
        rep.count("apostrophe_normalised");
    }
    let n_wl = toks.iter().filter(|t| t.kind.is_word_like()).count();
    rep.count(&format!("word_likes:{}", bucket(n_wl)));
    if toks.iter().any(|t| t.kind.is_proper_noun()) {
        rep.count("has_proper_noun");
    }
    if src.iter().any(|c| !c.is_ascii()) {
        rep.count("has_non_ascii");
    }
    if changed > 0 && n_wl >= 2 {
        rep.nontrivial(&text.to_string());
    }
    if changed > 0 && n_wl >= 3 && src.len() < 60 {
        rep.sample(json!({"text": text, "title_case": out, "origin": origin}));
    }
}

fn bucket(n: usize) -> &'static str {
    match n {
        0 => "0",
        1 => "1",
        2..=3 => "2-3",
        4..=7 => "4-7",
        8..=15 => "8-15",
        _ => "16+",
    }
}

/// Markdown front-end: the hull of the tokens is not the whole text (trailing newline, markup);
/// correspondence + "output length = hull length" only.
fn check_markdown(rep: &mut Report, world: &World, text: &str) {
    rep.eval();
    let dict = &*world.dict;
    let src: Vec<char> = text.chars().collect();
    let parser = Markdown::default();
    let Ok(doc) = guarded(|| Document::new_from_vec(Lrc::new(src.clone()), &parser, dict)) else {
        rep.count("document_construction_panicked(C01's business)");
        return;
    };
    let toks: Vec<Token> = doc.get_tokens().to_vec();
    let il = corr(rep, &toks, &src, dict);
    rep.count("corr:markdown");
    if il != "P" {
        let n = if il.len() <= 1 { 0 } else { il[2..].split(' ').count() };
        let hull = toks.span().map(|s| s.len()).unwrap_or(0);
        if n != hull {
            rep.fail("hull_length", format!("output has {n} chars, hull of the tokens {hull}"), json!({"kind": "markdown", "text": text}));
        }
        if hull != src.len() {
            rep.count("markdown:hull_shorter_than_text");
        }
    }
}

// ------------------------------------------------------------------------------------------------
// synthetic stream: hand-made tokens over hand-made dictionaries (outside the property's domain:
// correspondence of results and panics only)
// ------------------------------------------------------------------------------------------------
fn synth_dict(words: &[(String, u32)]) -> MutableDictionary {
    let mut d = MutableDictionary::new();
    for (w, m) in words {
        d.append_word_str(w, meta_from_code(*m).unwrap_or_default());
    }
    d
}

fn check_synthetic(rep: &mut Report, src: &str, toks: &[(usize, usize, u32, u32)], words: &[(String, u32)]) {
    rep.eval();
    let dict = synth_dict(words);
    let srcc: Vec<char> = src.chars().collect();
    let toks: Vec<Token> = toks.iter().map(|(s, e, k, m)| Token { span: Span { start: *s, end: *e }, kind: kind_from_code(*k, *m) }).collect();
    let il = corr(rep, &toks, &srcc, &dict);
    rep.count(if il == "P" { "synthetic:panics" } else { "synthetic:ok" });
}

const SYN_WORDS: &[&str] = &["ab", "Ab", "aB", "the", "of", "and", "x", "İx", "i\u{307}x", "ß", "ǅa", "ab'c", "ab’c", "abcdef", "to", "ſo", "Kelvin", "\u{212A}elvin", "o'k", ""];

fn random_synthetic(r: &mut Rng) -> (String, Vec<(usize, usize, u32, u32)>, Vec<(String, u32)>) {
    // dictionary: a few words with random facts
    let nd = r.range(0, 6);
    let words: Vec<(String, u32)> = (0..nd).map(|_| (r.s(SYN_WORDS).to_string(), 1 + r.below(8) as u32)).collect();
    // source: words (dictionary ones in other casings, too) and separators
    let mut src = String::new();
    let mut toks = vec![];
    let n = r.range(0, 6);
    let mut pos = 0usize;
    for _ in 0..n {
        let w: String = match r.below(4) {
            0 => r.s(SYN_WORDS).to_string(),
            1 => r.s(SYN_WORDS).to_uppercase(),
            2 => r.s(SYN_WORDS).to_lowercase(),
            _ => r.s(&["1st", "a.b", "AND", "For", "x@y.z", "9"]).to_string(),
        };
        let len = w.chars().count();
        let k = *r.pick(&[0u32, 0, 0, 0, 3, 2, 6, 8, 1, 9]);
        let m = if k == 0 {
            // mostly the metadata the dictionary would give, sometimes arbitrary
            if r.chance(1, 4) { r.below(9) as u32 } else { words.iter().find(|(x, _)| x.to_lowercase() == w.to_lowercase()).map(|x| x.1).unwrap_or(0) }
        } else {
            0
        };
        toks.push((pos, pos + len, k, m));
        src.push_str(&w);
        pos += len;
        if r.chance(3, 4) {
            src.push(' ');
            toks.push((pos, pos + 1, 4, 0));
            pos += 1;
        }
    }
    // malform: perturb spans / order
    match r.below(10) {
        0 if !toks.is_empty() => {
            let i = r.below(toks.len());
            toks[i].1 += r.range(1, 3); // beyond the next token / the text
        }
        1 if !toks.is_empty() => {
            let i = r.below(toks.len());
            toks[i].0 = toks[i].0.saturating_sub(r.range(1, 3)); // overlaps the previous token
        }
        2 if toks.len() >= 2 => {
            let i = r.below(toks.len() - 1);
            toks.swap(i, i + 1); // out of order: first token is not the minimum
        }
        3 if !toks.is_empty() => {
            let i = r.below(toks.len());
            toks[i].1 = toks[i].0; // empty word-like token
        }
        4 if !toks.is_empty() => {
            let i = r.below(toks.len());
            let (s, e) = (toks[i].0, toks[i].1);
            toks[i].0 = e + 1;
            toks[i].1 = s; // start > end
        }
        5 if !toks.is_empty() => {
            let k = r.range(1, 2);
            toks.drain(0..k.min(toks.len())); // hull starts after 0
        }
        _ => {}
    }
    (src, toks, words)
}

// ------------------------------------------------------------------------------------------------
// generators for titles
// ------------------------------------------------------------------------------------------------
const SPECIAL: &[&str] = &[
    "a", "an", "the", "and", "but", "for", "or", "nor", "of", "in", "on", "at", "by", "to", "from", "with", "into", "over", "upon", "onto", "about", "under", "this", "that", "these", "my", "your", "every", "some", "no", "as", "per", "via", "than", "off", "up", "out", "so", "yet",
];
const TITLE_PUNCT: &[&str] = &[":", ",", ";", "!", "?", ".", "—", "–", "-", "/", "&", "(", ")", "\"", "“", "”", "'", "’", "…", "...", "|", "#", "*"];
const TITLE_NONASCII: &[&str] = &[
    "café", "naïve", "résumé", "über", "Ångström", "ångström", "São", "Zoë", "zoë", "pokémon", "POKÉMON", "türkiye", "ŽIŽEK", "žižek", "ß", "straße", "İstanbul", "i\u{307}x", "ǆungla", "ǅungla", "ﬁsh", "ſo", "\u{212A}elvin",
    "\u{212B}ngström", "éa", "Éa", "ñ", "Ñandú", "漢字", "こんにちは", "Привет", "ελληνικά", "😀", "e\u{301}", "ʻokina", "nukuʻalofa", "co₂", "CO₂", "ŉa", "ǰo", "ẖa", "ﬂy", "ǅ", "ΐ", "ı", "ſ",
];

fn recase(r: &mut Rng, w: &str) -> String {
    match r.below(8) {
        0 => w.to_uppercase(),
        1 | 2 => w.to_lowercase(),
        3 => gen::capitalize(&w.to_lowercase()),
        4 => w.chars().map(|c| if r.chance(1, 2) { c.to_ascii_uppercase() } else { c.to_ascii_lowercase() }).collect(),
        5 => w.replace('\'', "’"),
        6 => w.to_lowercase().replace('\'', if r.chance(1, 2) { "‘" } else { "＇" }),
        _ if r.chance(1, 6) => compat_letters(w),
        _ => w.to_string(),
    }
}

/// same letters, other code points: KELVIN SIGN, ANGSTROM SIGN, capital sharp s (their to_lowercase is k, å, ß)
fn compat_letters(w: &str) -> String {
    w.chars()
        .map(|c| match c {
            'k' | 'K' => '\u{212A}',
            'å' | 'Å' => '\u{212B}',
            'ß' => '\u{1E9E}',
            _ => c,
        })
        .collect()
}

struct Vocab {
    proper_lower_initial: Vec<String>, // proper nouns whose canonical spelling starts lower-case and has a capital later (eBay, iOS)
    proper: Vec<String>,
    proper_special: Vec<String>, // proper nouns with apostrophes, non-ASCII chars, inner capitals, digits
    prep_det: Vec<String>,
    any: Vec<String>,
}

fn harvest(dict: &FstDictionary) -> Vocab {
    let mut v = Vocab { proper_lower_initial: vec![], proper: vec![], proper_special: vec![], prep_det: vec![], any: vec![] };
    let mut words: Vec<&[char]> = dict.words_iter().collect();
    words.sort();
    for (i, w) in words.iter().enumerate() {
        let Some(md) = dict.get_word_metadata(w) else { continue };
        let s: String = w.iter().collect();
        if md.is_proper_noun() {
            let special = w.iter().any(|c| !c.is_ascii_alphabetic()) || w.iter().skip(1).any(|c| c.is_uppercase()) || w.first().map(|c| c.is_lowercase()).unwrap_or(false);
            if w.first().map(|c| c.is_lowercase()).unwrap_or(false) && w.iter().skip(1).any(|c| c.is_uppercase()) {
                v.proper_lower_initial.push(s.clone());
            }
            if special {
                v.proper_special.push(s.clone());
            } else if i % 7 == 0 {
                v.proper.push(s.clone());
            }
        }
        if md.preposition || md.determiner {
            v.prep_det.push(s.clone());
        }
        if i % 97 == 0 {
            v.any.push(s);
        }
    }
    v
}

fn title_word(r: &mut Rng, v: &Vocab) -> String {
    let k = r.below(100);
    let w: String = if k < 30 {
        r.s(gen::COMMON).to_string()
    } else if k < 48 {
        r.s(SPECIAL).to_string()
    } else if k < 54 {
        r.pick(&v.prep_det).clone()
    } else if k < 64 {
        r.pick(&v.proper).clone()
    } else if k < 74 {
        r.pick(&v.proper_special).clone()
    } else if k < 79 {
        r.pick(&v.any).clone()
    } else if k < 83 {
        r.s(gen::NUMBERS).to_string()
    } else if k < 87 {
        r.s(TITLE_NONASCII).to_string()
    } else if k < 90 {
        r.s(gen::CONTRACTIONS).to_string()
    } else if k < 92 {
        r.s(gen::ABBREV).to_string()
    } else if k < 94 {
        r.s(gen::NETISH).to_string()
    } else if k < 95 {
        r.s(gen::MISSPELT).to_string()
    } else if k < 97 {
        // dotted compound: lexed as a hostname when all-ASCII, as words otherwise
        let a = if r.chance(1, 2) { r.pick(&v.proper).clone() } else { r.s(gen::COMMON).to_string() };
        let a = if r.chance(1, 2) { compat_letters(&a) } else { a };
        format!("{}.{}", a, r.s(SPECIAL))
    } else if k < 98 {
        // hyphenated compound
        format!("{}-{}", r.s(gen::COMMON), r.s(SPECIAL))
    } else {
        r.s(gen::TRIGGERS).to_string()
    };
    recase(r, &w)
}

fn title(r: &mut Rng, v: &Vocab) -> String {
    let n = match r.below(10) {
        0 => r.below(2),
        1..=6 => r.range(2, 6),
        _ => r.range(6, 14),
    };
    let mut out = String::new();
    if r.chance(1, 12) {
        out.push_str(r.s(&[" ", "\t", "\"", "(", "“", "# ", "1. ", "- ", "  ", "\n", "…"]));
    }
    for i in 0..n {
        if i > 0 {
            match r.below(20) {
                0 => out.push_str(r.s(&["-", "–", "—", "/", ": ", ", ", " & ", " - ", "  ", "\t", "\n", "\u{a0}", "."])),
                1 => {
                    out.push_str(r.s(TITLE_PUNCT));
                    out.push(' ');
                }
                _ => out.push(' '),
            }
        }
        out.push_str(&title_word(r, v));
    }
    if r.chance(1, 6) {
        out.push_str(r.s(&[".", "!", "?", " ", "\n", ":", "\"", ")", "…", " .", "”"]));
    }
    out
}

// ------------------------------------------------------------------------------------------------
fn replay_input(rep: &mut Report, world: &World, v: &Value) {
    match v["kind"].as_str().unwrap_or("text") {
        "synthetic" => {
            let toks: Vec<(usize, usize, u32, u32)> = v["toks"]
                .as_array()
                .map(|a| a.iter().map(|q| (q[0].as_u64().unwrap() as usize, q[1].as_u64().unwrap() as usize, q[2].as_u64().unwrap() as u32, q[3].as_u64().unwrap() as u32)).collect())
                .unwrap_or_default();
            let words: Vec<(String, u32)> = v["dict"].as_array().map(|a| a.iter().map(|q| (q[0].as_str().unwrap().to_string(), q[1].as_u64().unwrap() as u32)).collect()).unwrap_or_default();
            check_synthetic(rep, v["src"].as_str().unwrap_or(""), &toks, &words);
        }
        "markdown" => check_markdown(rep, world, v["text"].as_str().unwrap_or("")),
        _ => {
            let text = v["text"].as_str().unwrap_or("");
            if let Some(sl) = v["slice"].as_array() {
                let (a, b) = (sl[0].as_u64().unwrap_or(0) as usize, sl[1].as_u64().unwrap_or(0) as usize);
                let src: Vec<char> = text.chars().collect();
                if let Ok(doc) = guarded(|| Document::new_from_vec(Lrc::new(src.clone()), &PlainEnglish, &*world.dict)) {
                    let toks = doc.get_tokens().to_vec();
                    if a <= b && b <= toks.len() {
                        rep.eval();
                        check_subslice(rep, &toks, a, b, &src, &*world.dict, text);
                    }
                }
            } else {
                let mut r = Rng::new(7);
                check_text(rep, world, text, "replay", Some(&mut r));
            }
        }
    }
}

/// H_canon_len over the whole curated dictionary: every entry, looked up as written, lower-cased and
/// upper-cased (when that keeps its identity), yields a canonical spelling of the same length; no
/// entry contains a character whose lower-casing is not a single character, nor U+0307.
fn sweep_dictionary(rep: &mut Report, world: &World) {
    let dict = &*world.dict;
    let mut n = 0u64;
    for w in dict.words_iter() {
        n += 1;
        let inp = json!({"kind": "text", "text": w.to_string(), "origin": "dictionary sweep"});
        if w.iter().any(|c| c.to_lowercase().count() != 1 || *c == '\u{307}') {
            rep.monitor("H_canon_len:entry_with_length_changing_lowercase", 1);
            rep.fail("H_canon_len", format!("dictionary entry {:?} contains a character whose lower-casing changes length", w.to_string()), inp.clone());
        }
        let lower: Vec<char> = w.iter().flat_map(|c| c.to_lowercase()).collect();
        let upper: Vec<char> = w.iter().flat_map(|c| c.to_uppercase()).collect();
        let curly: Vec<char> = w.iter().map(|c| if *c == '\'' { '’' } else { *c }).collect();
        for variant in [w.to_vec(), lower, upper, curly] {
            monitor_word(rep, &variant, dict, &inp);
        }
    }
    rep.extra.insert("dictionary_entries_swept_for_H_canon_len".into(), json!(n));
}

/// lower_ascii_law, upper_ascii_law, lowercase_fixed, apostrophes_caseless, apostrophes_lower_fixed,
/// ascii_variant_closed (premises of C18_case_only / C18_first_upper / C18_idempotent_partial) over all code points
fn sweep_chars(rep: &mut Report) {
    for cp in 0..0x110000u32 {
        let Some(c) = char::from_u32(cp) else { continue };
        rep.monitor("char_laws:code_points", 1);
        if c.is_lowercase() && !c.to_lowercase().eq([c]) {
            rep.monitor("lowercase_fixed:violated", 1);
            rep.fail("lowercase_fixed", format!("U+{cp:04X} is_lowercase but to_lowercase changes it"), json!({"kind": "text", "text": c.to_string()}));
        }
        if !c.to_lowercase().eq(c.to_ascii_uppercase().to_lowercase()) || !c.to_lowercase().eq(c.to_ascii_lowercase().to_lowercase()) {
            rep.monitor("lower_ascii_law:violated", 1);
            rep.fail("lower_ascii_law", format!("to_lowercase of U+{cp:04X} depends on its ASCII case"), json!({"kind": "text", "text": c.to_string()}));
        }
        if !c.to_uppercase().eq(c.to_ascii_uppercase().to_uppercase()) || !c.to_uppercase().eq(c.to_ascii_lowercase().to_uppercase()) {
            rep.monitor("upper_ascii_law:violated", 1);
            rep.fail("upper_ascii_law", format!("to_uppercase of U+{cp:04X} depends on its ASCII case"), json!({"kind": "text", "text": c.to_string()}));
        }
        // apostrophes_caseless / apostrophes_lower_fixed: ' and the curly apostrophes have no case variant but themselves
        for x in APOSTROPHES {
            if c == *x {
                if !c.to_lowercase().eq([c]) {
                    rep.monitor("apostrophes_lower_fixed:violated", 1);
                    rep.fail("apostrophes_lower_fixed", format!("to_lowercase changes the apostrophe U+{cp:04X}"), json!({"kind": "text", "text": c.to_string()}));
                }
            } else if is_case_variant(*x, c) {
                rep.monitor("apostrophes_caseless:violated", 1);
                rep.fail("apostrophes_caseless", format!("U+{cp:04X} is a case variant of the apostrophe U+{:04X}", *x as u32), json!({"kind": "text", "text": c.to_string()}));
            }
        }
        // ascii_variant_closed: a case variant of an ASCII letter is an ASCII letter
        if !c.is_ascii_alphabetic() {
            let mut l = c.to_lowercase();
            if let (Some(l0), None) = (l.next(), l.next()) {
                if l0.is_ascii_alphabetic() && (is_case_variant(l0, c) || is_case_variant(l0.to_ascii_uppercase(), c)) {
                    rep.monitor("ascii_variant_closed:violated", 1);
                    rep.fail("ascii_variant_closed", format!("U+{cp:04X} is a case variant of the ASCII letter {l0:?}"), json!({"kind": "text", "text": c.to_string()}));
                }
            }
        }
        match c.to_lowercase().count() {
            1 => {}
            0 => {
                rep.monitor("lowercase_nonempty:violated", 1);
                rep.fail("lowercase_nonempty", format!("to_lowercase of U+{cp:04X} is empty"), json!({"kind": "text", "text": c.to_string()}));
            }
            _ => rep.count(&format!("multi_char_lowercase:U+{cp:04X}")),
        }
    }
}

/// case_stable of Proofs/C18StrProofs.v over all code points: group the scalar values by (to_lowercase,
/// to_uppercase) — two characters are case variants exactly when they share a group — and for every ordered pair
/// (a, c) of distinct members with a in the plain class ask: both word characters, or both characters no sub-lexer
/// claims, and c in the plain class?  The characters a for which some pair fails are NOT case-stable: they are
/// outside the class of C18_str_idempotent_plain (plain_stable_text); returned, and listed in the report.
fn unstable_chars(rep: &mut Report) -> (std::collections::HashSet<char>, std::collections::HashSet<char>, std::collections::HashSet<char>) {
    use std::collections::HashMap;
    let mut groups: HashMap<(Vec<char>, Vec<char>), Vec<char>> = HashMap::new();
    for cp in 0..0x110000u32 {
        let Some(c) = char::from_u32(cp) else { continue };
        groups.entry((c.to_lowercase().collect(), c.to_uppercase().collect())).or_default().push(c);
    }
    let mut bad = std::collections::BTreeSet::new();
    let mut bad2 = std::collections::BTreeSet::new();
    let mut bad3 = std::collections::BTreeSet::new();
    let mut detail: Vec<String> = vec![];
    let class_of = |c: char| if wchar(c) { "word character" } else if ochar(c) { "unclaimed character" } else if ichar(c) { "blank/punctuation" } else { "other" };
    for g in groups.values() {
        if g.len() < 2 {
            continue;
        }
        rep.monitor("case_stable:groups_with_variants", 1);
        // ascii_case_faithful (premise of C18_str_relex_of_lexer and the dotted theorems): case variants have the
        // same ASCII-letter key; and case_stable2 for the dotted class
        for &a in g {
            for &c in g {
                if c == a {
                    continue;
                }
                rep.monitor("ascii_case_faithful:pairs_checked", 1);
                if ickey(a) != ickey(c) {
                    rep.monitor("ascii_case_faithful:violated", 1);
                    rep.fail("ascii_case_faithful", format!("U+{:04X} and U+{:04X} are case variants with different ASCII-letter keys", a as u32, c as u32), json!({"kind": "text", "text": a.to_string()}));
                }
                if char2(a) {
                    let ok = char2(c) && ((wch(a) && wch(c)) || (ochar(a) && ochar(c)));
                    if !ok {
                        bad2.insert(a);
                    }
                }
                // case_stable3 for the alnum class (digits, period, apostrophe have no variant but themselves)
                if char3(a) {
                    let ok = char3(c) && ((wch(a) && wch(c)) || (ochar(a) && ochar(c)));
                    if !ok {
                        bad3.insert(a);
                    }
                }
                if plain_char(a) && !(plain_char(c) && ((wchar(a) && wchar(c)) || (ochar(a) && ochar(c)))) {
                    detail.push(format!("U+{:04X} ({}, lingual={}, alphabetic={}) has the case variant U+{:04X} ({}, lingual={}, alphabetic={})", a as u32, class_of(a), observed_lingual(a), a.is_alphabetic(), c as u32, class_of(c), observed_lingual(c), c.is_alphabetic()));
                }
            }
        }
        for &a in g {
            if !plain_char(a) {
                continue;
            }
            for &c in g {
                if c == a {
                    continue;
                }
                rep.monitor("case_stable:pairs_checked", 1);
                let ok = plain_char(c) && ((wchar(a) && wchar(c)) || (ochar(a) && ochar(c)));
                if !ok {
                    bad.insert(a);
                }
            }
        }
    }
    rep.monitor("case_stable:plain_characters_that_are_not_case_stable", bad.len() as u64);
    rep.extra.insert("plain_characters_not_case_stable".into(), json!(bad.iter().map(|c| format!("U+{:04X}", *c as u32)).collect::<Vec<_>>()));
    rep.monitor("case_stable2:dotted_characters_that_are_not_case_stable", bad2.len() as u64);
    rep.extra.insert("dotted_characters_not_case_stable".into(), json!(bad2.iter().map(|c| format!("U+{:04X}", *c as u32)).collect::<Vec<_>>()));
    // apostrophe_in_class (premise of the alnum string theorems since phase 6): ' is a character of the class
    rep.monitor("apostrophe_in_class:checked", 1);
    if !char3('\'') || !char3('’') {
        rep.monitor("apostrophe_in_class:violated", 1);
        rep.fail("apostrophe_in_class", "the straight apostrophe or U+2019 is not a character of the alnum class with the real Unicode predicates".into(), json!({"kind": "text", "text": "'"}));
    }
    rep.monitor("case_stable3:alnum_characters_that_are_not_case_stable", bad3.len() as u64);
    rep.extra.insert("alnum_characters_not_case_stable".into(), json!(bad3.iter().map(|c| format!("U+{:04X}", *c as u32)).collect::<Vec<_>>()));
    detail.sort();
    rep.extra.insert("not_case_stable_pairs".into(), json!(detail));
    // the exceptions are pinned: a change of the crates' Unicode data that adds or removes one is reported
    let expected: Vec<char> = vec!['\u{A7D2}', '\u{A7D3}', '\u{A7D4}', '\u{A7D5}'];
    if bad.iter().copied().collect::<Vec<char>>() != expected || bad2.iter().copied().collect::<Vec<char>>() != expected || bad3.iter().copied().collect::<Vec<char>>() != expected {
        rep.count("case_stable:exception_set_changed(was U+A7D2..U+A7D5)");
    }
    (bad.into_iter().collect(), bad2.into_iter().collect(), bad3.into_iter().collect())
}

/// titles aimed at the case-sensitive corners of the lexer (lex_plural_digit's lower-case `s`, `0x`, the decade
/// `s`, number suffixes, hostnames / e-mail / URL material glued to words that title-casing lower-cases or
/// re-capitalises): the residue H_relex of C18_str_idempotent_partial is exercised where it can fail
fn relex_title(r: &mut Rng, v: &Vocab) -> String {
    const GLUE: &[&str] = &[".", ".", "'", "’", "'s", "'S", "s.", "S.", "@", ":", "://", "-", "0x", "0X", "1", "1990s", "1990S", "1st", "1ST", ".s", ".S", "s", "S", "[a-z]", ""];
    let n = r.range(1, 4);
    let mut out = String::new();
    for i in 0..n {
        if i > 0 {
            out.push_str(r.s(&[" ", " ", " ", ".", "-", ", "]));
        }
        let pick = |r: &mut Rng| -> String {
            let w = match r.below(6) {
                0 | 1 => r.s(SPECIAL).to_string(),
                2 => r.pick(&v.proper).clone(),
                3 => r.pick(&v.proper_special).clone(),
                4 => r.s(&["ss", "us", "as", "is", "it", "a", "i", "s", "x", "st", "nd", "rd", "th", "ms", "os", "cs"]).to_string(),
                _ => r.pick(&v.prep_det).clone(),
            };
            match r.below(4) {
                0 => w.to_uppercase(),
                1 => w.to_lowercase(),
                2 => gen::capitalize(&w.to_lowercase()),
                _ => w,
            }
        };
        let a = pick(r);
        out.push_str(&a);
        if r.chance(3, 4) {
            out.push_str(r.s(GLUE));
            let b = pick(r);
            out.push_str(&b);
            if r.chance(1, 3) {
                out.push_str(r.s(GLUE));
                let c = pick(r);
                out.push_str(&c);
            }
        }
    }
    out
}

/// titles for the DOTTED class of C18LexDots.v (phase 4): words glued by periods — hostnames, sentence ends,
/// initialisms, ellipses, Latin abbreviations, hyphens — without digits, apostrophes, @ : [ ; most of them avoid the
/// FC18c pattern, so C18_str_idempotent_dotted applies and the oracle dotted_relex is exercised
fn dotted_title(r: &mut Rng, v: &Vocab) -> String {
    const GLUE: &[&str] = &[".", ".", ". ", ". ", "...", " etc. ", " et al. ", " vs. ", ".com ", " e.g. ", " N.S.A. ", "-", " - ", ", ", " ", " ", ".-", "..", " i.e. ", ".Ɑ", ".é"];
    let n = r.range(2, 6);
    let mut out = String::new();
    for i in 0..n {
        if i > 0 {
            out.push_str(r.s(GLUE));
        }
        let w = match r.below(7) {
            0 | 1 => r.s(SPECIAL).to_string(),
            2 => r.pick(&v.proper).clone(),
            3 => r.pick(&v.any).clone(),
            4 => r.s(&["us", "as", "is", "it", "a", "i", "b", "x", "www", "org", "etc", "ETC", "Et", "AL", "vs", "é", "Ünï", "ΑΒ"]).to_string(),
            5 => r.pick(&v.proper_lower_initial).clone(),
            _ => r.pick(&v.prep_det).clone(),
        };
        let w: String = w.chars().filter(|c| !c.is_ascii_digit() && !BAD2.contains(c)).collect();
        out.push_str(&match r.below(4) {
            0 => w.to_uppercase(),
            1 => w.to_lowercase(),
            2 => gen::capitalize(&w.to_lowercase()),
            _ => w,
        });
    }
    if r.chance(1, 2) {
        out.push('.');
    }
    out
}

/// titles for the ALNUM class of C18LexAlnum.v (phase 5): words mixed with decimal / exponent numbers, number suffixes,
/// digit-led and digit-ending words, hex-like and decade-like material, contractions, possessives and periods; a good
/// half avoids the three excluded patterns, so C18_str_idempotent_alnum applies and alnum_relex / alnum_lex_blind
/// are exercised; the rest sits on the patterns (oracle-only, where FC18c lives)
fn alnum_title(r: &mut Rng, v: &Vocab) -> String {
    const NUM: &[&str] = &[
        "1", "2nd", "3RD", "1st", "21ST", "4th", "11Th", "1.5", "1.5e3", "2E5", "1e", "1e+5", "1E-5", "3.", ".5", "0xg", "0x", "0X", "0x1f", "0X1F", "0xAb", "1990s", "1990S", "1990", "90s", "5s",
        "5S", "5's", "7'S", "3d", "3D", "mp3", "MP3s", "v1.2", "a1", "1a", "10-12", "1,000", "$5", "5%", "no.1", "1.2.3", "12e", "E5", "e5", "1e5x", "2.e3", "007", "1sa", "1's1", "x0x1",
    ];
    const GLUE: &[&str] = &[" ", " ", " ", " ", ". ", ", ", "-", ".", "'", "'s ", "'S ", "n't ", "'re ", "'LL ", "' ", " '", "s ", "s.", "s-", "'d ", "'sa", "1", "2 ", "", "s", "S"];
    let n = r.range(2, 6);
    let mut out = String::new();
    for i in 0..n {
        if i > 0 {
            out.push_str(r.s(GLUE));
        }
        let w = match r.below(8) {
            0 => r.s(SPECIAL).to_string(),
            1 => r.pick(&v.proper).clone(),
            2 => r.pick(&v.any).clone(),
            3 => r.s(&["us", "as", "is", "it", "a", "i", "b", "x", "e", "E", "s", "ss", "isn", "don", "o", "rock", "é", "Ünï"]).to_string(),
            4 => r.pick(&v.prep_det).clone(),
            _ => r.s(NUM).to_string(),
        };
        let w: String = w.chars().filter(|c| !BAD3.contains(c)).collect();
        out.push_str(&match r.below(4) {
            0 => w.to_uppercase(),
            1 => w.to_lowercase(),
            2 => gen::capitalize(&w.to_lowercase()),
            _ => w,
        });
    }
    if r.chance(1, 3) {
        out.push('.');
    }
    out
}

/// titles for phase 7: the colon inside the alnum class — words, numbers, contractions glued by colons in every
/// neighbourhood (times, ratios, `re:`, drive letters, scheme look-alikes `a:/b`, `a:b//c`, ports), some with a real
/// `://` (outside the class: URL tokens, oracle-only)
fn colon_title(r: &mut Rng, v: &Vocab) -> String {
    const GLUE: &[&str] = &[": ", ": ", ":", ":", " : ", " :", "::", ":/", ":/ /", ": //", ":\\", ":80 ", ":80/", ":.", ".:", ":-", "':", ":'", "’:", ":s ", "s:", ":as-", ":as ", " ", " ", ". ", "://", "://", "/", "//"];
    const W: &[&str] = &["re", "RE", "note", "http", "HTTP", "https", "mailto", "c", "C", "10", "30", "1e5", "2nd", "isn't", "john’s", "as", "is", "us", "a.b", "www.a.b", "ss", "é", "Ünï", "x", "localhost", "1s", "0x1"];
    let n = r.range(2, 6);
    let mut out = String::new();
    for i in 0..n {
        if i > 0 {
            out.push_str(r.s(GLUE));
        }
        let w = match r.below(5) {
            0 => r.s(SPECIAL).to_string(),
            1 => r.pick(&v.proper).clone(),
            2 => r.pick(&v.any).clone(),
            _ => r.s(W).to_string(),
        };
        let w: String = w.chars().filter(|c| !BAD3.contains(c)).collect();
        out.push_str(&match r.below(4) {
            0 => w.to_uppercase(),
            1 => w.to_lowercase(),
            2 => gen::capitalize(&w.to_lowercase()),
            _ => w,
        });
    }
    if r.chance(1, 4) {
        out.push(':');
    }
    out
}

fn main() {
    let (a, corpus) = hv::cli();
    let mut rep = Report::new(&a.out);
    rep.rule = "titles: corpus; generated titles (common words, special lower-case words at first/middle/last position, proper nouns from the curated dictionary in every casing and with curly apostrophes, numbers, hyphenated, non-ASCII incl. Kelvin/Angstrom signs, long s, dotted capital I, punctuation, leading/trailing whitespace, empty); shared document generator; Markdown front-end (correspondence + hull length only); synthetic token lists over synthetic dictionaries (correspondence only); thorough adds every curated dictionary word in 5 casings alone and in mid-title position. non-trivial = distinct title with >= 2 word-like tokens and >= 1 changed character".into();
    // the Unicode tables of the lexer model, before any end-to-end case (corpus and replays included)
    dump_unicode(&mut rep);
    let (unstable, unstable2, unstable3) = unstable_chars(&mut rep);
    let world = World { dict: FstDictionary::curated(), e2e_sample: 16, e2e_counter: std::cell::Cell::new(0), unstable, unstable2, unstable3 };
    for c in &corpus {
        replay_input(&mut rep, &world, c);
    }
    if a.replay.is_some() {
        rep.finish();
        return;
    }
    let mut r = Rng::new(a.seed);
    let vocab = harvest(&world.dict);
    rep.extra.insert("vocabulary".into(), json!({"proper_lower_initial": vocab.proper_lower_initial.len(), "proper_sampled": vocab.proper.len(), "proper_special": vocab.proper_special.len(), "prepositions_determiners": vocab.prep_det.len()}));
    sweep_dictionary(&mut rep, &world);
    sweep_chars(&mut rep);
    // proper nouns whose canonical spelling starts with a lower-case letter, as FIRST, middle and last word of a
    // title in four casings: the first-letter write must still happen after the canonical copy ("ebay is great"
    // -> "EBay Is Great")
    for w in &vocab.proper_lower_initial {
        for v in [w.clone(), w.to_lowercase(), w.to_uppercase(), gen::capitalize(&w.to_lowercase())] {
            for t in [v.clone(), format!("{v} is great"), format!("the {v} of it"), format!("on {v}")] {
                check_text(&mut rep, &world, &t, "lower-initial proper noun", None);
            }
        }
    }
    for _ in 0..a.scale(3000, 60000) {
        let t = title(&mut r, &vocab);
        let mut r2 = r.fork();
        check_text(&mut rep, &world, &t, "title", Some(&mut r2));
    }
    for _ in 0..a.scale(1500, 30000) {
        let t = relex_title(&mut r, &vocab);
        check_text(&mut rep, &world, &t, "relex", None);
    }
    for _ in 0..a.scale(1500, 30000) {
        let t = dotted_title(&mut r, &vocab);
        check_text(&mut rep, &world, &t, "dotted", None);
    }
    for _ in 0..a.scale(1500, 30000) {
        let t = alnum_title(&mut r, &vocab);
        check_text(&mut rep, &world, &t, "alnum", None);
    }
    for _ in 0..a.scale(800, 16000) {
        let t = colon_title(&mut r, &vocab);
        check_text(&mut rep, &world, &t, "colon", None);
    }
    for _ in 0..a.scale(500, 6000) {
        let t = gen::any_text(&mut r);
        let mut r2 = r.fork();
        check_text(&mut rep, &world, &t, "any_text", Some(&mut r2));
    }
    for _ in 0..a.scale(300, 3000) {
        let t = if r.chance(1, 2) { title(&mut r, &vocab) } else { gen::any_text(&mut r) };
        let t = match r.below(4) {
            0 => format!("# {t}\n"),
            1 => format!("{t}\n"),
            2 => format!("- {t}\n- {}", title(&mut r, &vocab)),
            _ => t,
        };
        check_markdown(&mut rep, &world, &t);
    }
    for _ in 0..a.scale(3000, 40000) {
        let (src, toks, words) = random_synthetic(&mut r);
        check_synthetic(&mut rep, &src, &toks, &words);
    }
    // harper_wasm::to_title_case is the same function with the curated dictionary
    for _ in 0..a.scale(200, 2000) {
        let t = title(&mut r, &vocab);
        let x = guarded(|| harper_wasm::to_title_case(t.clone()));
        let y = guarded(|| make_title_case_str(&t, &PlainEnglish, &*world.dict));
        rep.monitor("wasm_to_title_case:compared", 1);
        if x != y {
            rep.fail("wasm_differs", "harper_wasm::to_title_case differs from make_title_case_str with PlainEnglish and the curated dictionary".into(), json!({"kind": "text", "text": t}));
        }
    }
    if a.thorough() {
        // every curated dictionary word, alone and in mid-title position, in five casings
        let mut words: Vec<String> = world.dict.words_iter().map(|w| w.to_string()).collect();
        words.sort();
        let mut n = 0u64;
        for w in &words {
            let variants = [w.clone(), w.to_lowercase(), w.to_uppercase(), gen::capitalize(&w.to_lowercase()), w.to_lowercase().replace('\'', "’")];
            for (i, v) in variants.iter().enumerate() {
                if i > 0 && *v == variants[0] {
                    continue;
                }
                check_text(&mut rep, &world, v, "dictionary word", None);
                check_text(&mut rep, &world, &format!("on {v} up"), "dictionary word mid-title", None);
                n += 2;
            }
            // same letters under other code points (the canonical spelling then changes more than ASCII case,
            // and an all-ASCII result can re-lex as a hostname)
            let c = compat_letters(w);
            if c != *w {
                for t in [c.clone(), c.to_lowercase(), format!("on {c}.up of"), format!("{}.of", c.to_lowercase()), format!("a {}.com b", c.to_uppercase())] {
                    check_text(&mut rep, &world, &t, "dictionary word, compatibility letters", None);
                    n += 1;
                }
            }
        }
        rep.extra.insert("exhaustive_dictionary_word_titles".into(), json!(n));
    }
    rep.finish();
}
