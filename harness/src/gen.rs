//! Shared input generators.  Structured, mostly-valid text plus a separate malformed stream.
//! Everything derives from the one `Rng` passed in.
use crate::common::Rng;

pub const COMMON: &[&str] = &[
    "the", "a", "an", "this", "that", "these", "is", "was", "are", "were", "be", "been", "have", "has", "had", "I", "you",
    "he", "she", "it", "we", "they", "me", "him", "us", "them", "my", "your", "his", "her", "its", "our", "their", "of",
    "to", "in", "on", "for", "with", "at", "by", "from", "and", "or", "but", "nor", "not", "very", "quite", "really",
    "how", "why", "what", "when", "who", "then", "than", "there", "here", "better", "worse", "more", "less", "know",
    "think", "want", "like", "go", "went", "gone", "make", "take", "see", "look", "use", "work", "call", "try", "ask",
    "need", "feel", "become", "leave", "put", "mean", "keep", "let", "begin", "seem", "help", "talk", "turn", "start",
    "show", "hear", "play", "run", "move", "live", "believe", "bring", "happen", "write", "provide", "sit", "stand",
    "lose", "pay", "meet", "cat", "dog", "house", "tree", "car", "book", "problem", "apple", "hour", "university",
    "time", "day", "year", "way", "thing", "man", "world", "life", "hand", "part", "child", "eye", "woman", "place",
    "week", "case", "point", "government", "company", "number", "group", "fact", "big", "small", "large", "good", "new",
    "first", "last", "long", "great", "little", "own", "other", "old", "right", "high", "different", "important",
    "quickly", "slowly", "always", "never", "often", "will", "would", "could", "should", "might", "must", "can", "may",
    "waited", "walked", "opened", "closed", "item", "items", "breath", "interest", "colour", "color", "realise", "realize",
    "centre", "center", "favourite", "organisation", "Harper", "English", "London", "Monday", "January", "America",
];

pub const TRIGGERS: &[&str] = &[
    "baited breath", "case and point", "could of", "should of", "would of", "must of", "the how", "the why", "I know the how",
    "better then", "more then", "worse then", "an problem", "a apple", "a hour", "an university", "alot", "in of itself",
    "each and everyone", "trail and error", "hone in on", "get rid off", "off course", "operative system",
    "spacial attention", "nerve wracking", "for awhile", "after awhile", "on face value", "let along", "peaked my interest",
    "peek my interest", "was aloud", "out of date", "back in the days", "despite of", "hop on", "hope on a bus",
    "left hand side", "right hand corner", "like wise", "it self", "my self", "there fore", "how ever", "world wide",
    "wide spread", "web socket", "key board", "note book", "smart phone", "every one", "no body", "where as",
    "your welcome", "you're comments", "wordpress", "Wordpress", "microsoft", "united states", "atlantic ocean", "day one",
    "a lot worse", "worst then", "widely excepted", "somewhat of a", "that that", "the the", "is is", "3 day plan",
    "5 day", "2hrs", "5mins", "10ms", "30 secs", "shit", "likewise", "then than", "whereas", "hereby declare",
    "I think that", "sort of", "kind of", "he he", "i am", "i", "their is", "its a", "it's own", "lets go", "let's us",
    "confidant that", "chalk full", "chock full", "he is been", "to walked", "to exists", "nobody", "more better",
    "very unique", "as well", "aswell", "no one", "in case", "incase", "alright", "all right", "apart of", "a part of",
];

pub const NUMBERS: &[&str] = &[
    "1st", "2nd", "3rd", "4th", "21th", "22th", "11st", "12nd", "13rd", "101th", "1ST", "2Nd", "3rD", "1990s", "1990's",
    "90s", "'90s", "1990st", "2000th", "0x1F", "0xdeadbeef", "0xZZ", "3.14", "1e10", "1e999", "1e999th", "1e999TH",
    "100,000", "1,000.50", "5.", ".5", "5..", "007", "0", "00", "1s", "0s", "1's", "42", "9007199254740993", "1234567890123456789012",
    "21thing", "3rds", "7up", "2x", "10x10", "1/2", "50%", "$5", "5$", "£10", "10€", "$5.", "$1,000", "¥500", "5 USD", "-5", "+5",
    "1-2", "1–2", "I", "II", "IV", "٣", "๓", "五", "½", "²",
];

pub const ABBREV: &[&str] = &[
    "e.g.", "i.e.", "etc.", "et al.", "N.S.A.", "U.S.", "U.S.A", "a.m.", "p.m.", "Ph.D.", "Mr.", "Dr.", "vs.", "eg.", "ie", "e.g",
    "...", "..", "....", ".....", "…", "?!", "!!", "?.", "a.", "I.", "A.B.", "x.y.z",
];

pub const MISSPELT: &[&str] = &[
    "teh", "recieve", "definately", "occured", "wierd", "thier", "seperate", "untill", "adress", "beleive", "grammer",
    "speling", "mispelt", "zorgle", "Ths", "tet", "errror", "hELLO", "HELLo", "wrold", "becuase", "accomodate", "qwxzv",
];

pub const CONTRACTIONS: &[&str] = &[
    "don't", "can't", "it's", "I'm", "I've", "I'd", "I'll", "you're", "we're", "they're", "let's", "lets", "that's",
    "isn't", "aren't", "o'clock", "don’t", "it’s", "I’m", "you’re", "dogs'", "dog's", "James'", "'tis", "rock'n'roll",
    "O'Keeffe's", "y'all'd've", "'", "’", "''", "’’", "ain't", "wouldn't've",
];

pub const NONASCII: &[&str] = &[
    "café", "naïve", "résumé", "über", "Ångström", "São", "e\u{301}", "cafe\u{301}", "𝒜𝒷𝒸", "😀", "👨‍👩‍👧", "漢字", "こんにちは",
    "한국어", "Привет", "ελληνικά", "עברית", "مرحبا", "\u{a0}", "\u{200b}", "\u{2028}", "\u{2029}", "\u{feff}", "ß", "İ", "ǅ", "ﬁ", "Ⅻ",
    "𐐷", "\u{10FFFF}", "\u{0}", "\u{7f}", "\u{85}", "、", "，", "。", "«", "»", "‹", "„",
];

pub const NETISH: &[&str] = &[
    "https://example.com", "https://a.b/c?d=e#f", "http://user:pw@host.com:8080/path", "joe@x.com", "example.com",
    "www.foo.org", "a@b", "@handle", "#tag", "https://", "http://x", "ftp://files.example.org/a.txt", "mailto:a@b.co",
    "first.last+tag@sub.example.co.uk", "https://en.wikipedia.org/wiki/Foo_(bar)", "user@", "@", "a@@b.com",
    "foo.bar", "foo.rs", "crate::module::Item", "snake_case_name", "camelCaseName", "--flag", "-x", "a/b/c", "C:\\dir\\file",
];

pub const QUOTES: &[&str] = &["\"", "“", "”", "'", "‘", "’", "`", "``", "«", "»"];
pub const PUNCT: &[&str] = &[
    ".", ",", ";", ":", "!", "?", "(", ")", "[", "]", "{", "}", "/", "\\", "@", "#", "$", "%", "^", "&", "*", "+", "=", "<",
    ">", "|", "~", "-", "--", "---", "–", "—", "_", "°", "•", "·", "©", "™", "§",
];
pub const SPACES: &[&str] = &[" ", " ", " ", " ", " ", "  ", "\t", " \t ", "   ", "\u{a0}", " \t"];
pub const BREAKS: &[&str] = &["\n\n", "\n\n", "\n", "\r\n\r\n", "\r\n", "\n\n\n", "\n \n", "\r", "\n\n\n\n"];
pub const TERMINATORS: &[&str] = &[".", ".", ".", "!", "?", "", "...", ".\"", ".)", ":"];

/// One lexical item: mostly ordinary words, with every special class represented.
pub fn item(r: &mut Rng) -> String {
    let k = r.below(100);
    let s: &str = if k < 52 {
        r.s(COMMON)
    } else if k < 64 {
        r.s(TRIGGERS)
    } else if k < 71 {
        r.s(NUMBERS)
    } else if k < 76 {
        r.s(ABBREV)
    } else if k < 81 {
        r.s(MISSPELT)
    } else if k < 86 {
        r.s(CONTRACTIONS)
    } else if k < 90 {
        r.s(NONASCII)
    } else if k < 94 {
        r.s(NETISH)
    } else if k < 97 {
        r.s(PUNCT)
    } else {
        r.s(QUOTES)
    };
    let mut s = s.to_string();
    match r.below(24) {
        0 => s = s.to_uppercase(),
        1 => s = capitalize(&s),
        2 => {
            s.push_str(r.s(&[",", ";", ":", ")", "\"", "’s", "'s", "s"]));
        }
        3 => {
            s.insert_str(0, r.s(&["(", "\"", "“", "$", "#", "-"]));
        }
        _ => {}
    }
    s
}

pub fn capitalize(s: &str) -> String {
    let mut cs = s.chars();
    match cs.next() {
        Some(c) => c.to_uppercase().chain(cs).collect(),
        None => String::new(),
    }
}

pub fn sentence(r: &mut Rng) -> String {
    let n = r.range(1, 14);
    let mut out = String::new();
    for i in 0..n {
        if i > 0 {
            out.push_str(r.s(SPACES));
        }
        out.push_str(&item(r));
    }
    if r.chance(7, 10) {
        out = capitalize(&out);
    }
    out.push_str(r.s(TERMINATORS));
    out
}

pub fn paragraph(r: &mut Rng) -> String {
    let n = r.range(1, 4);
    let mut out = String::new();
    for i in 0..n {
        if i > 0 {
            out.push_str(r.s(&[" ", " ", "  ", "\n", " \n"]));
        }
        out.push_str(&sentence(r));
    }
    out
}

pub fn document(r: &mut Rng) -> String {
    let n = r.range(1, 4);
    let mut out = String::new();
    for i in 0..n {
        if i > 0 {
            out.push_str(r.s(BREAKS));
        }
        out.push_str(&paragraph(r));
    }
    match r.below(8) {
        0 => out.push(' '),
        1 => out.push('\n'),
        2 => out.push_str("\n\n"),
        3 => out.insert(0, ' '),
        _ => {}
    }
    out
}

/// A clean sentence of plain dictionary words (few or no lints expected).
pub fn clean_sentence(r: &mut Rng) -> String {
    let n = r.range(2, 9);
    let mut out = String::new();
    for i in 0..n {
        if i > 0 {
            out.push(' ');
        }
        out.push_str(r.s(COMMON));
    }
    capitalize(&out) + "."
}

/// Put `construct` at the start, in the middle, or at the very end of a sentence/document.
pub fn placed(r: &mut Rng, construct: &str) -> String {
    let before = clean_sentence(r);
    let after = clean_sentence(r);
    match r.below(6) {
        0 => format!("{construct} {after}"),
        1 => format!("{before} {construct}"),
        2 => format!("{} {construct}", before.trim_end_matches('.')),
        3 => format!("{} {construct} {}", before.trim_end_matches('.'), after.to_lowercase()),
        4 => format!("{before}\n\n{construct}"),
        _ => format!("{} {construct}.", before.trim_end_matches('.')),
    }
}

pub fn any_construct(r: &mut Rng) -> &'static str {
    match r.below(7) {
        0 => r.s(TRIGGERS),
        1 => r.s(NUMBERS),
        2 => r.s(ABBREV),
        3 => r.s(CONTRACTIONS),
        4 => r.s(NONASCII),
        5 => r.s(NETISH),
        _ => r.s(MISSPELT),
    }
}

/// Malformed stream: random scalar values from a mix of classes, unterminated markup.
pub fn malformed(r: &mut Rng, max_len: usize) -> String {
    let n = r.below(max_len + 1);
    let mut out = String::new();
    for _ in 0..n {
        let c = match r.below(12) {
            0..=3 => (0x20 + r.below(0x5f)) as u32,
            4 => r.below(0x20) as u32,
            5 => (0x80 + r.below(0x780)) as u32,
            6 => (0x800 + r.below(0xF800)) as u32,
            7 => (0x10000 + r.below(0x100000)) as u32,
            8 => *r.pick(&[0x20u32, 0x0a, 0x0d, 0x09, 0xa0, 0x2028]),
            9 => *r.pick(&['.' as u32, ',' as u32, '\'' as u32, '"' as u32, '@' as u32, '-' as u32, '`' as u32, '>' as u32, '#' as u32, '*' as u32, '[' as u32, '{' as u32, '<' as u32, '/' as u32, '$' as u32]),
            10 => ('0' as u32) + r.below(10) as u32,
            _ => ('a' as u32) + r.below(26) as u32,
        };
        if let Some(ch) = char::from_u32(c) {
            out.push(ch);
        }
    }
    out
}

/// Any text: mostly structured documents, sometimes a placed construct, sometimes malformed.
pub fn any_text(r: &mut Rng) -> String {
    match r.below(10) {
        0..=4 => document(r),
        5..=6 => {
            let c = any_construct(r);
            placed(r, c)
        }
        7 => paragraph(r),
        8 => malformed(r, 60),
        _ => {
            let mut d = document(r);
            let cut = r.below(d.chars().count() + 1);
            d = d.chars().take(cut).collect();
            d
        }
    }
}
