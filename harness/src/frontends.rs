//! Every document front-end harper-ls can select (backend.rs:update_document), by name.
//!   plain | markdown | markdown-ilt | html | typst | lhaskell | gitcommit | c:<language id>
//! optional suffixes: "+ci" (CollapseIdentifiers, as harper-ls wraps comment parsers) and
//! "+ie" (IsolateEnglish).
use crate::common::Rng;
use crate::gen;
use harper_comments::CommentParser;
use harper_core::parsers::{CollapseIdentifiers, IsolateEnglish, Markdown, MarkdownOptions, Parser, PlainEnglish};
use harper_core::{Dictionary, Document, FstDictionary, Lrc};
use harper_html::HtmlParser;
use harper_literate_haskell::LiterateHaskellParser;
use harper_typst::Typst;
use std::sync::Arc;

#[allow(dead_code)]
#[path = "/repo/harper-ls/src/git_commit_parser.rs"]
mod git_commit_parser;
pub use git_commit_parser::GitCommitParser;

pub const COMMENT_LANGS: [&str; 22] = [
    "rust", "typescriptreact", "typescript", "python", "nix", "javascript", "javascriptreact", "go", "c", "cpp", "cmake",
    "ruby", "swift", "csharp", "toml", "lua", "shellscript", "java", "haskell", "php", "dart", "scala",
];

pub fn base_frontends() -> Vec<String> {
    let mut v: Vec<String> =
        ["plain", "markdown", "markdown-ilt", "html", "typst", "lhaskell", "gitcommit"].iter().map(|s| s.to_string()).collect();
    for l in COMMENT_LANGS {
        v.push(format!("c:{l}"));
    }
    v
}

pub fn make_parser(fe: &str, source: &[char], dict: &Arc<FstDictionary>) -> Box<dyn Parser> {
    let (base, ci, ie) = {
        let mut b = fe.to_string();
        let ie = b.ends_with("+ie");
        if ie {
            b.truncate(b.len() - 3);
        }
        let ci = b.ends_with("+ci");
        if ci {
            b.truncate(b.len() - 3);
        }
        (b, ci, ie)
    };
    let mut mdo = MarkdownOptions::default();
    mdo.ignore_link_title = base == "markdown-ilt";
    let src = Arc::new(source.to_vec());
    let mut parser: Box<dyn Parser> = match base.as_str() {
        "plain" => Box::new(PlainEnglish),
        "markdown" | "markdown-ilt" => Box::new(Markdown::new(mdo)),
        "html" => Box::new(HtmlParser::default()),
        "typst" => Box::new(Typst),
        "gitcommit" => Box::new(GitCommitParser::new_markdown(mdo)),
        "lhaskell" => {
            let p = LiterateHaskellParser::new_markdown(mdo);
            if ci {
                if let Some(d) = p.create_ident_dict(&src, mdo) {
                    let dd: Arc<dyn Dictionary> = Arc::new(d);
                    Box::new(CollapseIdentifiers::new(Box::new(p), Box::new(dd)))
                } else {
                    Box::new(p)
                }
            } else {
                Box::new(p)
            }
        }
        other => {
            let lang = other.strip_prefix("c:").unwrap_or(other);
            let p = CommentParser::new_from_language_id(lang, mdo).expect("unknown language id");
            if ci {
                if let Some(d) = p.create_ident_dict(&src) {
                    let dd: Arc<dyn Dictionary> = Arc::new(d);
                    Box::new(CollapseIdentifiers::new(Box::new(p), Box::new(dd)))
                } else {
                    Box::new(p)
                }
            } else {
                Box::new(p)
            }
        }
    };
    if ie {
        parser = Box::new(IsolateEnglish::new(parser, dict.clone()));
    }
    parser
}

pub fn make_document(fe: &str, text: &str, dict: &Arc<FstDictionary>) -> Document {
    let source: Vec<char> = text.chars().collect();
    let parser = make_parser(fe, &source, dict);
    Document::new_from_vec(Lrc::new(source), &parser, dict)
}

/// (line comment leader, block open, block close, doc leader) per comment language
fn comment_syntax(lang: &str) -> (&'static str, Option<(&'static str, &'static str)>, &'static str) {
    match lang {
        "python" | "ruby" | "toml" | "shellscript" | "cmake" | "nix" => ("#", None, "#"),
        "lua" => ("--", Some(("--[[", "]]")), "---"),
        "haskell" => ("--", Some(("{-", "-}")), "-- |"),
        "rust" => ("//", Some(("/*", "*/")), "///"),
        "php" => ("//", Some(("/*", "*/")), "//"),
        _ => ("//", Some(("/*", "*/")), "//"),
    }
}

fn code_line(lang: &str, r: &mut Rng) -> String {
    let id = *r.pick(&["fooBar", "x_1", "zählen", "値", "compute", "main", "Wert"]);
    let lit = *r.pick(&["\"teh strïng wiht erors\"", "\"日本語 😀 recieve\"", "'c'", "42", "\"\""]);
    match lang {
        "python" => format!("{id} = {lit}"),
        "ruby" => format!("{id} = {lit}"),
        "toml" => format!("key = {lit}"),
        "shellscript" => format!("VAR={lit}"),
        "cmake" => format!("set(VAR {lit})"),
        "nix" => format!("{{ a = {lit}; }}"),
        "lua" => format!("local v = {lit}"),
        "haskell" => format!("v = {lit}"),
        "go" => format!("var v = {lit}"),
        "rust" => format!("let v = {lit};"),
        "php" => format!("$v = {lit};"),
        "java" | "csharp" | "dart" | "scala" | "swift" => format!("var v = {lit};"),
        _ => format!("var v = {lit};"),
    }
}

/// A source file for front-end `fe` embedding generated prose; mostly valid, sometimes truncated.
pub fn embed(fe: &str, r: &mut Rng) -> String {
    let base = fe.split('+').next().unwrap();
    let prose = |r: &mut Rng| gen::paragraph(r).replace('\n', " ");
    let mut out = String::new();
    match base {
        "plain" => out = gen::any_text(r),
        "markdown" | "markdown-ilt" | "gitcommit" => {
            let n = r.range(1, 5);
            for _ in 0..n {
                match r.below(12) {
                    0 => out.push_str(&format!("# {}\n\n", gen::sentence(r))),
                    1 => out.push_str(&format!("- {}\n- {}\n\n", gen::sentence(r), gen::sentence(r))),
                    2 => out.push_str(&format!("{} `inline cde` {}\n\n", gen::sentence(r), gen::sentence(r))),
                    3 => out.push_str(&format!("```rust\nlet teh = 1;\n```\n\n{}\n\n", prose(r))),
                    4 => out.push_str(&format!("[{}](https://example.com \"{}\") {}\n\n", gen::sentence(r), gen::sentence(r), gen::sentence(r))),
                    5 => out.push_str(&format!("> {}\n> {}\n\n", gen::sentence(r), gen::sentence(r))),
                    6 => out.push_str(&format!("| a | b |\n|---|---|\n| {} | {} |\n\n", gen::item(r), gen::item(r))),
                    7 => out.push_str(&format!("{}  \n{}\n\n", gen::sentence(r), gen::sentence(r))),
                    8 => out.push_str(&format!("1. {}\n   {}\n2. *{}* **{}**\n\n", gen::sentence(r), gen::sentence(r), gen::item(r), gen::item(r))),
                    9 => out.push_str(&format!("<div>{}</div>\n\n&amp; {} &copy;\n\n", gen::sentence(r), gen::sentence(r))),
                    _ => out.push_str(&format!("{}\n\n", prose(r))),
                }
            }
            if base == "gitcommit" && r.chance(1, 2) {
                out.push_str("# Please enter the commit message\n# teh changes\n");
            }
        }
        "html" => {
            out.push_str("<html><body>\n");
            for _ in 0..r.range(1, 4) {
                match r.below(5) {
                    0 => out.push_str(&format!("<h1>{}</h1>\n", gen::sentence(r))),
                    1 => out.push_str(&format!("<p class=\"tëst\">{} <b>{}</b> {}</p>\n", gen::sentence(r), gen::item(r), gen::sentence(r))),
                    2 => out.push_str(&format!("<script>var teh = \"recieve\";</script>\n<p>{}</p>", gen::sentence(r))),
                    3 => out.push_str(&format!("<!-- {} -->\n<ul><li>{}</li></ul>\n", gen::sentence(r), gen::sentence(r))),
                    _ => out.push_str(&format!("<p>{}</p>\n", prose(r))),
                }
            }
            out.push_str("</body></html>\n");
        }
        "typst" => {
            for _ in 0..r.range(1, 4) {
                match r.below(7) {
                    0 => out.push_str(&format!("= {}\n\n", gen::sentence(r))),
                    1 => out.push_str(&format!("#let x = \"{}\"\n\n", gen::clean_sentence(r))),
                    2 => out.push_str(&format!("{} $x^2 + teh$ {}\n\n", gen::sentence(r), gen::sentence(r))),
                    3 => out.push_str(&format!("- {}\n- {}\n\n", gen::sentence(r), gen::sentence(r))),
                    4 => out.push_str(&format!("#figure(caption: [{}])[{}]\n\n", gen::clean_sentence(r), gen::clean_sentence(r))),
                    5 => out.push_str(&format!("*{}* _{}_ `raw teh`\n\n", gen::item(r), gen::item(r))),
                    _ => out.push_str(&format!("{}\n\n", prose(r))),
                }
            }
        }
        "lhaskell" => {
            for _ in 0..r.range(1, 4) {
                match r.below(4) {
                    0 => out.push_str(&format!("{}\n\n> main :: IO ()\n> main = putStrLn \"teh\"\n\n", prose(r))),
                    1 => out.push_str(&format!("{}\n\\begin{{code}}\nmain = print 1\n\\end{{code}}\n", prose(r))),
                    2 => out.push_str(">\n"),
                    _ => out.push_str(&format!("{}\n\n", prose(r))),
                }
            }
        }
        other => {
            let lang = other.strip_prefix("c:").unwrap_or(other);
            let (line, block, doc) = comment_syntax(lang);
            for _ in 0..r.range(1, 5) {
                let indent = *r.pick(&["", "  ", "\t", "    "]);
                match r.below(8) {
                    0 | 1 => out.push_str(&format!("{indent}{line} {}\n", prose(r))),
                    2 => out.push_str(&format!("{indent}{doc} {}\n{indent}{doc} {}\n", prose(r), prose(r))),
                    3 => {
                        if let Some((o, c)) = block {
                            out.push_str(&format!("{indent}{o} {}\n{indent} * {}\n{indent} {c}\n", prose(r), prose(r)));
                        } else {
                            out.push_str(&format!("{indent}{line} {}\n", prose(r)));
                        }
                    }
                    4 => out.push_str(&format!("{indent}{}\n", code_line(lang, r))),
                    5 => out.push_str(&format!("{indent}{} {line} {}\n", code_line(lang, r), prose(r))),
                    6 => {
                        if let Some((o, c)) = block {
                            out.push_str(&format!("{indent}{o}* {} {{@link teh}} @param x {}\n{indent} {c}\n", prose(r), gen::item(r)));
                        } else {
                            out.push_str(&format!("{indent}{line} spellchecker:ignore {}\n", prose(r)));
                        }
                    }
                    _ => out.push_str("\n\n"),
                }
            }
        }
    }
    match r.below(10) {
        0 => {
            let cut = r.below(out.chars().count() + 1);
            out.chars().take(cut).collect()
        }
        1 => out.replace('\n', "\r\n"),
        _ => out,
    }
}
