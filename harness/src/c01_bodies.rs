//! C01, phase 4: the tie of coq/Model/C01Bodies.v (ModalOf::match_to_lint, ProperNounCapitalizationLinter::match_to_lint
//! with PatternMap::lookup and ExactPhrase::from_document, RepeatedWords' slice) to the code.
//!
//!   O   ModalOf::default().match_to_lint(window, source) on ARBITRARY token windows (the theorem C01_modal_of_body_total
//!       speaks about every slice, not only matches): windows of the rule's own test sentences, whitespace-mutated
//!       variants, plain + Markdown, and the damaged windows of the correspondence pool (spans outside the source /
//!       reversed: panics must agree)                       -> "N" | "a-b" (the lint's span) | "P"
//!   OL  the real ModalOf through the real `impl Linter for PatternLinter`, match_to_lint recorded by a wrapper; the model
//!       runs iter_chunks + run_on_chunk with the GENERATED pattern (Tables_bodyshapes.modal_of_pattern) + modal_of_body
//!                                                          -> one "N" | "a-b" per call of match_to_lint | "P"
//!   Q   the proper-noun rules (private type: reached through LintGroup::new_curated with only that rule key enabled);
//!       the model builds the rows with its own ExactPhrase::from_document (exact_phrase_of) from the KINDS of the fat
//!       tokens of the canonical documents, runs run_on_chunk(PatternMap) + proper_noun_body (second lookup, zip, hull)
//!                                                          -> the spans of the lints | "P"
//!   U   RepeatedWords::default().lint(document) returns / panics; the model: the slices between neighbouring words on
//!       every chunk                                        -> "ok" | "P"
//! Oracle: a panic of a rule body on tokens that lie inside the source fails the property (class body_panic).
use super::corr::{enc_tokens, span_good, Corr, Enc};
use super::rules::texts_for;
use harper_core::linting::{Lint, LintGroup, Linter, ModalOf, PatternLinter, RepeatedWords};
use harper_core::parsers::{Markdown, PlainEnglish};
use harper_core::patterns::Pattern;
use harper_core::{Dialect, Document, FstDictionary, Punctuation, Token, TokenKind};
use hv::common::{cps, guarded, last_panic_location, Args, Report, Rng};
use serde_json::{json, Value};
use std::sync::{Arc, Mutex};

struct Rec<L: PatternLinter> {
    inner: L,
    out: Mutex<Vec<String>>,
    panicked: Mutex<Option<String>>,
}
impl<L: PatternLinter> PatternLinter for Rec<L> {
    fn pattern(&self) -> &dyn Pattern {
        self.inner.pattern()
    }
    fn match_to_lint(&self, matched: &[Token], source: &[char]) -> Option<Lint> {
        match guarded(|| self.inner.match_to_lint(matched, source)) {
            Ok(l) => {
                self.out.lock().unwrap().push(show(&l));
                l
            }
            Err(m) => {
                let loc = last_panic_location();
                *self.panicked.lock().unwrap() = Some(format!("{}: {}", loc.strip_prefix("/repo/").unwrap_or(&loc), m.chars().take(200).collect::<String>()));
                None
            }
        }
    }
    fn description(&self) -> &str {
        "recording wrapper"
    }
}

fn show(l: &Option<Lint>) -> String {
    match l {
        Some(l) => format!("{}-{}", l.span.start, l.span.end),
        None => "N".into(),
    }
}

fn no_enc() -> Enc {
    Enc { edits: vec![], uses_title: false, uses_split: false }
}

fn modal_texts() -> Vec<String> {
    texts_for(
        "harper-core/src/linting/modal_of.rs",
        &[
            "I should of gone.",
            "I should\n of gone.",
            "the might of course",
            "He might of course go.",
            "We couldn't of known, could of, would of.",
            "should of",
            "of",
            "should",
            "The great might of the army",
            "it must \t of been",
            "I would of course of",
        ],
    )
}

fn make(text: &str, md: bool, dict: &Arc<FstDictionary>) -> Option<Document> {
    guarded(|| if md { Document::new(text, &Markdown::default(), dict) } else { Document::new(text, &PlainEnglish, dict) }).ok()
}

/// one O case
fn modal_window(rep: &mut Report, rule: &ModalOf, w: &[Token], src: &[char], how: &str, replay: Value) {
    let tenc = enc_tokens(w, src, &no_enc(), rep);
    let line = format!("O | {tenc} | {}", cps(src));
    let res = guarded(|| rule.match_to_lint(w, src));
    let impl_line = match &res {
        Ok(l) => show(l),
        Err(_) => "P".to_string(),
    };
    rep.eval();
    rep.count(&format!("body:O:{how}"));
    rep.count(&format!("body:O:result:{}", match impl_line.as_str() { "N" => "none", "P" => "panic", _ => "lint" }));
    rep.nontrivial(&line);
    if res.is_err() && w.iter().all(|t| span_good(t, src.len())) {
        rep.fail("body_panic", format!("ModalOf::match_to_lint panicked on a slice of {} tokens inside the source at {}", w.len(), last_panic_location()), replay);
    }
    rep.case(&line, &impl_line);
}

fn modal_doc(rep: &mut Report, text: &str, md: bool, dict: &Arc<FstDictionary>, windows: bool) {
    let Some(doc) = make(text, md, dict) else { return };
    let replay = json!({"kind": "body_modal", "text": text, "markdown": md});
    let toks = doc.get_tokens();
    let src = doc.get_source();
    // OL: through the real Linter impl
    let mut rec = Rec { inner: ModalOf::default(), out: Mutex::new(vec![]), panicked: Mutex::new(None) };
    let framework = guarded(|| rec.lint(&doc));
    let body_panic = rec.panicked.lock().unwrap().clone();
    let impl_line = if framework.is_err() || body_panic.is_some() { "P".to_string() } else { rec.out.lock().unwrap().join(" ") };
    let line = format!("OL | {} | {}", enc_tokens(toks, src, &no_enc(), rep), cps(src));
    rep.eval();
    rep.count("body:OL");
    if impl_line.contains('-') {
        rep.count("body:OL:lint");
    }
    if !impl_line.is_empty() {
        rep.count("body:OL:match_to_lint-reached");
    }
    rep.nontrivial(&line);
    if let Some(what) = body_panic {
        rep.fail("body_panic", format!("ModalOf::match_to_lint panicked at {what}"), replay.clone());
    }
    rep.case(&line, &impl_line);
    // O: every window of up to 9 tokens
    if windows {
        let rule = ModalOf::default();
        for a in 0..toks.len().min(24) {
            for len in 0..=9usize.min(toks.len() - a) {
                if len == 0 && a > 0 {
                    continue;
                }
                modal_window(rep, &rule, &toks[a..a + len], src, "window", replay.clone());
            }
        }
    }
}

fn modal_stream(rep: &mut Report, a: &Args, c: &Corr) {
    let dict = FstDictionary::curated();
    let texts = modal_texts();
    let step = if a.thorough() { 1 } else { 6 };
    for (i, t) in texts.iter().enumerate() {
        for md in [false, true] {
            modal_doc(rep, t, md, &dict, i % step == 0);
        }
    }
    // damaged / shuffled windows of the pool
    let rule = ModalOf::default();
    let mut r = Rng::new(a.seed ^ 0x0b0d_1e5);
    for i in 0..a.scale(400, 6000) {
        let (toks, src, how) = c.pool.pick(&mut r);
        modal_window(rep, &rule, &toks, &src, how, json!({"kind": "body_modal_pool", "seed": a.seed, "index": i}));
    }
}

// ---------------------------------------------------------------------------------------------------------------------
// proper nouns
// ---------------------------------------------------------------------------------------------------------------------
/// leaf numbers of the one-token closures ExactPhrase::from_document builds for punctuation (harness closure table)
fn punct_leaf(p: &Punctuation) -> Option<usize> {
    match p {
        Punctuation::Comma => Some(9),
        Punctuation::Hyphen => Some(10),
        Punctuation::Apostrophe => Some(11),
        Punctuation::Ampersand => Some(12),
        _ => None,
    }
}

/// the `Q` head for one rule key: rows as fat-token KINDS (the model applies its own from_document) + canonical contents
fn proper_head(canon: &[String], dict: &Arc<FstDictionary>) -> Option<String> {
    let mut rows = vec![];
    let mut contents = vec![];
    for c in canon {
        let chars: Vec<char> = c.chars().collect();
        let doc = Document::new_from_vec(chars.into(), &PlainEnglish, dict);
        let mut parts = vec![];
        let mut texts = vec![];
        for t in doc.fat_tokens() {
            let text: String = t.content.iter().collect();
            texts.push(if t.content.is_empty() { "0".to_string() } else { format!("{} {}", t.content.len(), cps(&t.content)) });
            parts.push(match &t.kind {
                TokenKind::Word(_) => format!("W {} {}", t.content.len(), cps(&t.content)),
                TokenKind::Space(_) => "S".to_string(),
                TokenKind::ParagraphBreak => "B".to_string(),
                TokenKind::Punctuation(p) => format!("p {}", punct_leaf(p)?),
                _ => return None, // a Number closure compares the value: not in the closure table of the harness
            });
            let _ = text;
        }
        rows.push(format!("{} {}", parts.len(), parts.join(" ")));
        contents.push(format!("{} {}", texts.len(), texts.join(" ")));
    }
    Some(format!("Q {} {} {}", rows.len(), rows.join(" "), contents.join(" ")))
}

fn proper_rules() -> Vec<(String, Vec<String>)> {
    let Ok(s) = std::fs::read_to_string("/repo/harper-core/proper_noun_rules.json") else { return vec![] };
    let Ok(v) = serde_json::from_str::<Value>(&s) else { return vec![] };
    let mut out = vec![];
    if let Some(o) = v.as_object() {
        for (k, e) in o {
            let canon: Vec<String> = e["canonical"].as_array().map(|a| a.iter().filter_map(|x| x.as_str().map(|s| s.to_string())).collect()).unwrap_or_default();
            out.push((k.clone(), canon));
        }
    }
    out.sort();
    out
}

fn recase(s: &str, how: usize) -> String {
    match how {
        0 => s.to_lowercase(),
        1 => s.to_uppercase(),
        2 => s.to_string(),
        3 => s.chars().enumerate().map(|(i, c)| if i % 2 == 0 { c.to_ascii_lowercase() } else { c.to_ascii_uppercase() }).collect(),
        _ => {
            // only the LAST word in the wrong case: the zip loop has to walk to the end
            match s.rfind(' ') {
                Some(i) => format!("{}{}", &s[..i], s[i..].to_lowercase()),
                None => s.to_lowercase(),
            }
        }
    }
}

fn proper_case(rep: &mut Report, key: &str, head: &str, text: &str, md: bool, dict: &Arc<FstDictionary>) {
    let Some(doc) = make(text, md, dict) else { return };
    let replay = json!({"kind": "body_proper", "key": key, "text": text, "markdown": md});
    let mut group = LintGroup::new_curated(dict.clone(), Dialect::American);
    group.set_all_rules_to(Some(false));
    group.config.set_rule_enabled(key, true);
    let res = guarded(|| group.lint(&doc));
    let impl_line = match &res {
        Ok(ls) => {
            let mut v: Vec<(usize, usize)> = ls.iter().map(|l| (l.span.start, l.span.end)).collect();
            v.sort();
            v.iter().map(|(a, b)| format!("{a}-{b}")).collect::<Vec<_>>().join(" ")
        }
        Err(_) => "P".to_string(),
    };
    let toks = doc.get_tokens();
    let src = doc.get_source();
    let line = format!("{head} | {} | {}", enc_tokens(toks, src, &no_enc(), rep), cps(src));
    rep.eval();
    rep.count("body:Q");
    if impl_line.contains('-') {
        rep.count("body:Q:lint");
    }
    rep.nontrivial(&(key, text, md));
    if res.is_err() {
        rep.fail("body_panic", format!("proper-noun rule {key} panicked at {}", last_panic_location()), replay);
    }
    rep.case(&line, &impl_line);
}

fn proper_stream(rep: &mut Report, a: &Args, only: Option<(&str, &str, bool)>) {
    let dict = FstDictionary::curated();
    let rules = proper_rules();
    if rules.is_empty() {
        rep.fail("body_stream_blind", "proper_noun_rules.json not readable: the proper-noun tie observes nothing".into(), json!({"kind": "body_all"}));
        return;
    }
    let mut r = Rng::new(a.seed ^ 0x9a0_9e12);
    let mut encoded = 0;
    for (key, canon) in &rules {
        let Some(head) = guarded(|| proper_head(canon, &dict)).ok().flatten() else {
            rep.count("body:Q:key-not-encodable");
            continue;
        };
        encoded += 1;
        if let Some((k, text, md)) = only {
            if k == key {
                proper_case(rep, key, &head, text, md, &dict);
            }
            continue;
        }
        let per_key = a.scale(6, 40) as usize;
        for j in 0..per_key {
            let p = &canon[r.below(canon.len())];
            let q = &canon[r.below(canon.len())];
            let how = j % 5;
            let text = match j % 6 {
                0 => recase(p, how),
                1 => format!("I went to {} today.", recase(p, how)),
                2 => format!("{}, {} and more.", recase(p, how), recase(q, (how + 1) % 5)),
                3 => format!("see {}", recase(p, how).replace(' ', "  ")),
                4 => format!("{} {}", recase(p, 0), recase(p, 0).split(' ').next().unwrap_or("")), // phrase + a prefix of it
                _ => recase(p, how).replacen(' ', "\n", 1),
            };
            proper_case(rep, key, &head, &text, j % 4 == 3, &dict);
        }
    }
    rep.count_n("body:Q:keys-encoded", encoded);
    if encoded < 15 && only.is_none() {
        rep.fail("body_stream_blind", format!("only {encoded} of {} proper-noun rule keys could be encoded", rules.len()), json!({"kind": "body_all"}));
    }
}

// ---------------------------------------------------------------------------------------------------------------------
// RepeatedWords
// ---------------------------------------------------------------------------------------------------------------------
fn repeated_case(rep: &mut Report, text: &str, fe_md: bool, dict: &Arc<FstDictionary>) {
    let Some(doc) = make(text, fe_md, dict) else { return };
    let res = guarded(|| RepeatedWords::default().lint(&doc).len());
    let impl_line = if res.is_ok() { "ok" } else { "P" };
    let line = format!("U | {} | {}", enc_tokens(doc.get_tokens(), doc.get_source(), &no_enc(), rep), cps(doc.get_source()));
    rep.eval();
    rep.count("body:U");
    if matches!(res, Ok(n) if n > 0) {
        rep.count("body:U:lint");
    }
    rep.nontrivial(&line);
    if res.is_err() {
        rep.fail("body_panic", format!("RepeatedWords::lint panicked at {}", last_panic_location()), json!({"kind": "body_repeated", "text": text, "markdown": fe_md}));
    }
    rep.case(&line, impl_line);
}

fn repeated_stream(rep: &mut Report, a: &Args) {
    let dict = FstDictionary::curated();
    let texts = texts_for("harper-core/src/linting/repeated_words.rs", &["the the", "the*the*", "a a a a", "is is, the  the\nthe", "x", ""]);
    let n = a.scale(60, 100000) as usize;
    for t in texts.iter().take(n) {
        for md in [false, true] {
            repeated_case(rep, t, md, &dict);
        }
    }
}

pub fn run(rep: &mut Report, a: &Args, c: &Corr) {
    let t = std::time::Instant::now();
    modal_stream(rep, a, c);
    let t1 = t.elapsed().as_secs_f64();
    proper_stream(rep, a, None);
    let t2 = t.elapsed().as_secs_f64();
    repeated_stream(rep, a);
    rep.extra.insert("body_streams_wall_s".into(), json!({"modal": t1, "proper": t2 - t1, "repeated": t.elapsed().as_secs_f64() - t2}));
    for k in ["body:OL:lint", "body:O:result:lint", "body:Q:lint", "body:U:lint"] {
        if rep.dist.get(k).copied().unwrap_or(0) == 0 {
            rep.fail("body_stream_blind", format!("stream {k} never produced a lint: the tie of the rule-body models observes nothing there"), json!({"kind": "body_all"}));
        }
    }
}

pub fn replay(rep: &mut Report, v: &Value, a: &Args) {
    let dict = FstDictionary::curated();
    match v["kind"].as_str().unwrap_or("") {
        "body_modal" => modal_doc(rep, v["text"].as_str().unwrap_or(""), v["markdown"].as_bool().unwrap_or(false), &dict, true),
        "body_modal_pool" | "body_all" => {
            let c = Corr::new(v["seed"].as_u64().unwrap_or(a.seed), 120);
            run(rep, a, &c);
        }
        "body_proper" => proper_stream(rep, a, Some((v["key"].as_str().unwrap_or(""), v["text"].as_str().unwrap_or(""), v["markdown"].as_bool().unwrap_or(false)))),
        "body_repeated" => repeated_case(rep, v["text"].as_str().unwrap_or(""), v["markdown"].as_bool().unwrap_or(false), &dict),
        _ => {}
    }
}
