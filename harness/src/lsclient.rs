//! Reference LSP client + executor for the language-server properties (C07, C09, C10).
//! Included by those bins with `#[path = "../lsclient.rs"] mod lsclient;` (needs feature `ls`).
//!
//! The harness is the client AND the executor: handler futures returned by `LspService::call` are held
//! here and polled by hand (noop waker, inside `Runtime::enter`), so nothing runs unless the harness
//! says so.  `workspace/configuration` requests arriving on the client socket are answered either
//! automatically (`drive`) or when the schedule says so (`step` / `answer`).
#![allow(dead_code)]
use lsx::backend::Backend;
use lsx::config::Config;
use lsx::futures::task::noop_waker;
use lsx::futures::{Sink, Stream};
use lsx::tower::Service;
use lsx::tower_lsp::jsonrpc::{Id, Request, Response};
use lsx::tower_lsp::{ClientSocket, LspService};
use serde_json::{json, Value};
use std::future::Future;
use std::pin::Pin;
use std::task::{Context, Poll};
use std::time::{Duration, Instant};

pub type HandlerFut = Pin<Box<dyn Future<Output = Option<Response>> + Send>>;

pub fn runtime() -> lsx::tokio::runtime::Runtime {
    lsx::tokio::runtime::Builder::new_current_thread().enable_all().build().unwrap()
}

/// settings object answered to `workspace/configuration` (and sent with didChangeConfiguration)
pub fn settings(user_dict: &str, file_dict_dir: &str, stats: &str, extra: Value) -> Value {
    let mut inner = json!({"userDictPath": user_dict, "fileDictPath": file_dict_dir, "statsPath": stats});
    if let (Some(m), Some(e)) = (inner.as_object_mut(), extra.as_object()) {
        for (k, v) in e {
            m.insert(k.clone(), v.clone());
        }
    }
    json!({ "harper-ls": inner })
}

pub fn config_from(settings: &Value) -> Config {
    Config::from_lsp_config(settings.clone()).expect("harness settings must parse")
}

#[derive(Debug, Clone, PartialEq)]
pub enum Step {
    /// the handler completed
    Done,
    /// the handler sent a `workspace/configuration` request (id) and is now waiting for the answer
    ConfigRequested(i64),
    /// watchdog: neither finished nor asked the client anything within the time limit
    Stuck,
}

pub struct Session {
    pub service: LspService<Backend>,
    pub socket: ClientSocket,
    /// what the client answers to `workspace/configuration`
    pub settings: Value,
    /// every publishDiagnostics in arrival order: (uri, diagnostics array)
    pub published: Vec<(String, Value)>,
    /// every other server->client message (method names), for C10's "what did it say" log
    pub other_messages: Vec<String>,
    pub config_requests: u64,
    next_id: i64,
    pub watchdog: Duration,
}

impl Session {
    /// Build the service and run initialize + initialized (configuration requests answered at once).
    pub fn new(settings: Value) -> Session {
        let cfg = config_from(&settings);
        let (service, socket) = LspService::new(|client| Backend::new(client, cfg));
        let mut s = Session {
            service,
            socket,
            settings,
            published: vec![],
            other_messages: vec![],
            config_requests: 0,
            next_id: 1,
            watchdog: Duration::from_secs(60),
        };
        s.request("initialize", json!({"capabilities": {}}));
        s.notify("initialized", json!({}));
        s
    }

    pub fn backend(&self) -> &Backend {
        self.service.inner()
    }

    /// Create (not yet poll) the handler future of a client->server message.
    pub fn start(&mut self, method: &str, params: Value, is_request: bool) -> HandlerFut {
        let b = Request::build(method.to_string()).params(params);
        let req = if is_request {
            let id = self.next_id;
            self.next_id += 1;
            b.id(id).finish()
        } else {
            b.finish()
        };
        let fut = self.service.call(req);
        Box::pin(async move { fut.await.ok().flatten() })
    }

    /// Take everything currently queued on the client socket.  Configuration requests are returned
    /// (ids); publishDiagnostics are logged; registerCapability is acknowledged.
    fn drain_socket(&mut self) -> Vec<i64> {
        let w = noop_waker();
        let mut cx = Context::from_waker(&w);
        let mut cfg = vec![];
        loop {
            match Pin::new(&mut self.socket).poll_next(&mut cx) {
                Poll::Ready(Some(req)) => {
                    let method = req.method().to_string();
                    let id = req.id().cloned();
                    let params = req.params().cloned().unwrap_or(Value::Null);
                    match method.as_str() {
                        "workspace/configuration" => {
                            self.config_requests += 1;
                            if let Some(Id::Number(n)) = id {
                                cfg.push(n);
                            }
                        }
                        "textDocument/publishDiagnostics" => {
                            let uri = params["uri"].as_str().unwrap_or("").to_string();
                            self.published.push((uri, params["diagnostics"].clone()));
                        }
                        _ => {
                            self.other_messages.push(method.clone());
                            if let Some(id) = id {
                                self.respond(id, Value::Null);
                            }
                        }
                    }
                }
                _ => break,
            }
        }
        cfg
    }

    fn respond(&mut self, id: Id, v: Value) {
        let _ = Pin::new(&mut self.socket).start_send(Response::from_ok(id, v));
    }

    /// Answer a pending configuration request with the current settings.
    pub fn answer(&mut self, id: i64) {
        let v = json!([self.settings.clone()]);
        self.respond(Id::Number(id), v);
    }
    pub fn answer_with(&mut self, id: i64, settings: &Value) {
        self.respond(Id::Number(id), json!([settings.clone()]));
    }

    /// Poll ONE handler until it completes or asks the client for the configuration.  No other
    /// handler is polled meanwhile, so everything it does in between is atomic w.r.t. the others
    /// (file I/O completes on tokio's blocking pool; we simply re-poll).
    pub fn step(&mut self, fut: &mut HandlerFut) -> Step {
        let w = noop_waker();
        let mut cx = Context::from_waker(&w);
        let t0 = Instant::now();
        let mut spins = 0u32;
        loop {
            let done = matches!(fut.as_mut().poll(&mut cx), Poll::Ready(_));
            let cfg = self.drain_socket();
            if done {
                return Step::Done;
            }
            if let Some(id) = cfg.first() {
                debug_assert!(cfg.len() == 1);
                return Step::ConfigRequested(*id);
            }
            spins += 1;
            if spins > 50 {
                std::thread::sleep(Duration::from_micros(50));
            } else {
                std::thread::yield_now();
            }
            if t0.elapsed() > self.watchdog {
                return Step::Stuck;
            }
        }
    }

    /// Run one handler to completion, answering its configuration requests immediately.
    pub fn drive(&mut self, mut fut: HandlerFut) -> bool {
        loop {
            match self.step(&mut fut) {
                Step::Done => return true,
                Step::ConfigRequested(id) => self.answer(id),
                Step::Stuck => return false,
            }
        }
    }

    /// Run several handlers CONCURRENTLY to completion: they are polled in turn (one poll each per round), so the
    /// file I/O one of them started on tokio's blocking pool proceeds while the others run — the way tower-lsp
    /// overlaps handlers of requests that arrive together.  Configuration requests are answered at once.
    #[allow(dead_code)]
    pub fn drive_all(&mut self, mut futs: Vec<HandlerFut>) -> bool {
        let w = noop_waker();
        let mut cx = Context::from_waker(&w);
        let t0 = Instant::now();
        let mut done = vec![false; futs.len()];
        let mut spins = 0u32;
        loop {
            for (i, f) in futs.iter_mut().enumerate() {
                if !done[i] && matches!(f.as_mut().poll(&mut cx), Poll::Ready(_)) {
                    done[i] = true;
                }
                for id in self.drain_socket() {
                    self.answer(id);
                }
            }
            if done.iter().all(|d| *d) {
                return true;
            }
            spins += 1;
            if spins > 50 {
                std::thread::sleep(Duration::from_micros(50));
            } else {
                std::thread::yield_now();
            }
            if t0.elapsed() > self.watchdog {
                return false;
            }
        }
    }

    pub fn notify(&mut self, method: &str, params: Value) -> bool {
        let f = self.start(method, params, false);
        self.drive(f)
    }
    pub fn request(&mut self, method: &str, params: Value) -> bool {
        let f = self.start(method, params, true);
        self.drive(f)
    }

    pub fn did_open(&mut self, uri: &str, lang: &str, text: &str) -> bool {
        self.notify("textDocument/didOpen", json!({"textDocument": {"uri": uri, "languageId": lang, "version": 1, "text": text}}))
    }
    pub fn did_change(&mut self, uri: &str, text: &str) -> bool {
        self.notify("textDocument/didChange", json!({"textDocument": {"uri": uri, "version": 2}, "contentChanges": [{"text": text}]}))
    }
    pub fn did_close(&mut self, uri: &str) -> bool {
        self.notify("textDocument/didClose", json!({"textDocument": {"uri": uri}}))
    }
    pub fn did_save(&mut self, uri: &str) -> bool {
        self.notify("textDocument/didSave", json!({"textDocument": {"uri": uri}}))
    }
    pub fn command(&mut self, command: &str, args: Vec<Value>) -> bool {
        self.request("workspace/executeCommand", json!({"command": command, "arguments": args}))
    }

    /// the diagnostics most recently published for `uri`
    pub fn last_published(&self, uri: &str) -> Option<&Value> {
        self.published.iter().rev().find(|(u, _)| u == uri).map(|(_, d)| d)
    }
}

/// Words reported by the SpellCheck rule in a diagnostics array, given the text they refer to
/// (single-line or multi-line; ranges are UTF-16 but the probe texts used for this are ASCII-free of
/// astral characters only when the caller says so — see `misspelt_words`).
pub fn spelling_ranges(diags: &Value) -> Vec<(u64, u64, u64, u64)> {
    let mut v = vec![];
    if let Some(a) = diags.as_array() {
        for d in a {
            let is_spell = d["message"].as_str().map(|m| m.starts_with("Did you mean")).unwrap_or(false)
                || d["source"].as_str().map(|s| s.contains("Spell")).unwrap_or(false)
                || d["code"].as_str().map(|s| s.contains("Spell")).unwrap_or(false);
            if is_spell {
                let r = &d["range"];
                v.push((
                    r["start"]["line"].as_u64().unwrap_or(0),
                    r["start"]["character"].as_u64().unwrap_or(0),
                    r["end"]["line"].as_u64().unwrap_or(0),
                    r["end"]["character"].as_u64().unwrap_or(0),
                ));
            }
        }
    }
    v
}

/// one-line probe text: the slice of `text` (UTF-16 columns) of every spelling diagnostic
pub fn misspelt_words(diags: &Value, text: &str) -> Vec<String> {
    let u16s: Vec<u16> = text.encode_utf16().collect();
    let mut out = vec![];
    for (l0, c0, l1, c1) in spelling_ranges(diags) {
        if l0 != 0 || l1 != 0 {
            out.push(format!("<multi-line {l0}:{c0}-{l1}:{c1}>"));
            continue;
        }
        let (a, b) = (c0 as usize, c1 as usize);
        if a <= b && b <= u16s.len() {
            out.push(String::from_utf16_lossy(&u16s[a..b]));
        } else {
            out.push(format!("<out of range {a}-{b}>"));
        }
    }
    out.sort();
    out
}
