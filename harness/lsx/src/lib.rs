//! The seven source files of harper-ls, compiled unmodified as a library so that the harness can
//! drive pos_conv, diagnostics, dictionary_io, config, document_state and Backend directly.
#![allow(dead_code, unused_imports, clippy::all)]
#[path = "/repo/harper-ls/src/backend.rs"]
pub mod backend;
#[path = "/repo/harper-ls/src/config.rs"]
pub mod config;
#[path = "/repo/harper-ls/src/diagnostics.rs"]
pub mod diagnostics;
#[path = "/repo/harper-ls/src/dictionary_io.rs"]
pub mod dictionary_io;
#[path = "/repo/harper-ls/src/document_state.rs"]
pub mod document_state;
#[path = "/repo/harper-ls/src/git_commit_parser.rs"]
pub mod git_commit_parser;
#[path = "/repo/harper-ls/src/pos_conv.rs"]
pub mod pos_conv;

pub use tokio;
pub use tower;
pub use tower_lsp;
pub use futures;
