import sys
def text(s): 
    xs=s.split()
    return "["+"; ".join(xs)+"]%N" if xs else "[]"
def sugg(s):
    s=s.strip()
    if s[0]=='R': return "ReplaceWith "+text(s[1:])
    if s[0]=='I': return "InsertAfter "+text(s[1:])
    return "Remove"
def lint(s):
    f=[x.strip() for x in s.split(';')]
    a,b,k,p=f[0].split()
    sg=[sugg(x) for x in f[2].split(',') if x.strip()] if len(f)>2 else []
    return "mkilint (mkspan %s %s) %s%%N [%s] %s %s%%N"%(a,b,k,"; ".join(sg),text(f[1]),p)
def kind(ws):
    t=ws[0]
    o=lambda w:"None" if w=='-' else "(Some %s%%N)"%w
    if t=='W': return "KWord "+o(ws[1])
    if t=='P': return "KPunct %s%%N"%ws[1]
    if t=='Q': return "KQuote "+("None" if ws[1]=='-' else "(Some %s)"%ws[1])
    if t=='D': return "KDecade"
    if t=='N': return "KNumber %s%%N %s %s%%N %s"%(ws[1],o(ws[2]),ws[3],ws[4])
    if t=='S': return "KSpace "+ws[1]
    if t=='L': return "KNewline "+ws[1]
    return {'E':'KEmail','U':'KUrl','H':'KHostname','X':'KUnlintable','B':'KParagraphBreak','R':'KRegexish'}[t]
def doc(s):
    f=[x.strip() for x in s.split(';')]
    toks=[]
    for t in (f[1].split(',') if len(f)>1 else []):
        ws=t.split()
        if not ws: continue
        toks.append("mktok (mkspan %s %s) (%s)"%(ws[0],ws[1],kind(ws[2:])))
    return "mkdoc %s\n    [%s]"%(text(f[0]),";\n     ".join(toks))
name,line=sys.argv[1],sys.stdin.readline().rstrip("\n")
import re
parts=[x.strip() for x in re.sub(r'^[A-Z][0-3]?', '', line).split('|')]
print("Definition %s_l1 : ilint := %s."%(name,lint(parts[0])))
print("Definition %s_d1 : doc := %s."%(name,doc(parts[1])))
print("Definition %s_l2 : ilint := %s."%(name,lint(parts[2])))
print("Definition %s_d2 : doc := %s."%(name,doc(parts[3])))
