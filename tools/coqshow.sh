#!/bin/sh
# usage: coqshow.sh <file.v relative to /verif/coq> <line>  — print the goal after line <line>
cd /verif/coq
f=$1; n=$2
tmp=/tmp/coqshow_$$.v
head -n "$n" "$f" > $tmp
echo "Show. " >> $tmp
coqc -R . HV -w none $tmp 2>&1 | tail -${3:-40}
rm -f $tmp /tmp/coqshow_$$.vo /tmp/coqshow_$$.glob /tmp/.coqshow_$$.aux /tmp/coqshow_$$.vok /tmp/coqshow_$$.vos
