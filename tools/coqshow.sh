#!/bin/sh
# usage: [COQ_PRIV=C17] coqshow.sh <file.v relative to coq/> <line> [tail-lines]
# prints the goal after line <line> (the file's dependencies must have been built by coqmake.sh in the same dir)
if [ -n "${COQ_PRIV:-}" ]; then cd /verif/.work/priv/$COQ_PRIV/coq || exit 2; else cd /verif/coq || exit 2; fi
f=$1; n=$2
tmp=/tmp/coqshow_$$.v
head -n "$n" "/verif/coq/$f" > $tmp
echo "Show. " >> $tmp
timeout 600 coqc -R . HV -w none $tmp 2>&1 | tail -${3:-40}
rm -f $tmp /tmp/coqshow_$$.vo /tmp/coqshow_$$.glob /tmp/.coqshow_$$.aux /tmp/coqshow_$$.vok /tmp/coqshow_$$.vos
