#!/bin/sh
# confirm_seed.sh <seed-dir>   (seed-dir holds patch.diff, run.sh [+ demo files], meta.json)
# Independently confirms a seeded breaking change in the lead's scratch worktree /tmp/seedconfirm
# (a git worktree of /repo with its own target dir, created by the lead; removed at the end of the session):
#   1. clean tree:   demo passes
#   2. patched tree: demo FAILS, the project's whole existing suite still PASSES
# run.sh is called as `sh run.sh <worktree>` and must exit 0 iff the demonstration passes.
# Writes <seed-dir>/confirm.log; exit 0 iff all three facts hold.
set -u
sd=$(readlink -f "$1"); wt=${SEEDWT:-/tmp/seedconfirm}
export RUSTUP_TOOLCHAIN=stable-x86_64-unknown-linux-gnu CARGO_TARGET_DIR=$wt/target CARGO_NET_OFFLINE=true
log=$sd/confirm.log; : > "$log"
clean() { git -C $wt checkout -q -- . ; git -C $wt clean -fdq -e target ; }
exec 8>>$wt.lock; flock -x 8
clean
( cd "$sd" && timeout 3000 sh run.sh $wt ) >>"$log" 2>&1; a=$?
echo "== demo on clean tree: exit $a" | tee -a "$log"
clean
git -C $wt apply "$sd/patch.diff" || { echo "patch does not apply" | tee -a "$log"; exit 3; }
( cd "$sd" && timeout 3000 sh run.sh $wt ) >>"$log" 2>&1; b=$?
echo "== demo on patched tree: exit $b" | tee -a "$log"
git -C $wt clean -fdq -e target
if [ "${SKIP_SUITE:-0}" = 1 ]; then c=0; echo "(suite skipped: re-validation of the demo only; the suite was run when the seed was first confirmed)" | tee -a "$log"; else
( cd $wt && timeout 3000 cargo nextest run --workspace --no-fail-fast --test-threads 8 --offline ) >"$sd/suite.log" 2>&1; c=$?
tail -5 "$sd/suite.log" | tee -a "$log"; rm -f "$sd/suite.log"; fi
echo "== existing suite on patched tree: exit $c" | tee -a "$log"
clean
if [ $a = 0 ] && [ $b != 0 ] && [ $c = 0 ]; then echo "CONFIRMED" | tee -a "$log"; exit 0; else echo "NOT CONFIRMED" | tee -a "$log"; exit 1; fi
