#!/usr/bin/env python3
"""audit_crates.py — the reproducible half of the C10 crate audit.

For a vendored crate directory (~/.cargo/registry/src/*/<name>-<version>) count, in the non-test Rust
sources with comments removed, the occurrences of
   net      socket / name-resolution vocabulary (std::net, TcpStream, UdpSocket, ToSocketAddrs, getaddrinfo …)
   netact   the subset that *initiates* traffic or resolution (connect, send_to, to_socket_addrs, lookup_host …)
   fs       file-system vocabulary (std::fs, File::create/open, OpenOptions …)
   process  process spawning (process::Command, Command::new)
The hand-audited table tools/crate_effects.toml assigns every crate of the resolved dependency set a class
     pure < fs < process < net-capable-runtime < net-client
and the translator (tools/tables/effects.py) re-runs this scan on every check: a class is accepted only when
every category *above* the class has zero hits or carries a `reviewed.<cat>` justification whose pinned hit
count equals the count found now (so a changed source, or a crate that was never looked at, fails loudly).

CLI:  audit_crates.py --propose   print a first-draft table for the crates reachable in /repo/Cargo.lock
      audit_crates.py NAME-VERSION   show the hits of one crate (file:line: text)"""
import os, re, sys, json, glob

CATS = ["fs", "process", "net", "netact"]
RX = {
    "net": re.compile(
        r"\b(?:std|core|tokio|mio|async_std|smol)::net\b|\bTcp(?:Stream|Listener|Socket)\b|\bUdpSocket\b|\bUnix(?:Stream|Datagram|Listener)\b"
        r"|\bToSocketAddrs\b|\bto_socket_addrs\b|\bsocket_addrs\b|\bgetaddrinfo\b|\bgethostbyname\b|\bGetAddrInfo\w*\b|\bWSAStartup\b|\blookup_host\b"
        r"|\blibc::(?:socket|connect|sendto|sendmsg|bind|listen|accept)\b|\bsocket2::"
        r"|\bXMLHttpRequest\b|\bWebSocket\b|\bsendBeacon\b|\bEventSource\b|\bweb_sys::|\bfetch_with_\w+\b"),
    "netact": re.compile(
        r"\bTcpStream::connect\w*\b|\bUdpSocket::bind\b|\.send_to\(|\bto_socket_addrs\(|\bgetaddrinfo\(|\blookup_host\(|\blibc::(?:connect|sendto|sendmsg)\("
        r"|\bUnix(?:Stream|Datagram)::connect\b|\.connect\("),
    "fs": re.compile(
        r"\b(?:std|tokio|async_std)::fs\b|\bFile::(?:create|create_new|open|options)\b|\bOpenOptions\b"
        r"|\bfs::(?:write|read|read_to_string|read_dir|remove_file|remove_dir|remove_dir_all|rename|copy|create_dir|create_dir_all|metadata|canonicalize)\b|\blibc::(?:open|openat|creat|unlink|rename)\b"),
    "process": re.compile(r"\bprocess::Command\b|\bCommand::new\b|\bstd::process::(?:Command|Stdio)\b|\blibc::(?:fork|execv\w*|posix_spawn\w*)\b"),
}
# C / C++ sources shipped inside a crate (tree-sitter runtime and grammars): same categories, libc vocabulary
CRX = {
    "net": re.compile(r"\b(?:socket|connect|getaddrinfo|gethostbyname|sendto|sendmsg|recvfrom)\s*\("),
    "netact": re.compile(r"\b(?:connect|getaddrinfo|gethostbyname|sendto|sendmsg)\s*\("),
    "fs": re.compile(r"\b(?:fopen|fdopen|freopen|open|creat|unlink|rename|mkdir)\s*\("),
    "process": re.compile(r"\b(?:system|popen|fork|execl|execlp|execv|execvp|execve|posix_spawn)\s*\("),
}
CANY = re.compile("|".join("(?:%s)" % r.pattern for r in CRX.values()))
ANY = re.compile("|".join("(?:%s)" % r.pattern for r in RX.values()))
STRIP = re.compile(r'//[^\n]*|/\*.*?\*/|b?"(?:\\.|[^"\\])*"', re.S)
# not compiled into a dependent: tests/benches/examples, build scripts (run on the build machine), binary targets of a library crate
SKIP_DIRS = {"tests", "benches", "examples", "test", "fuzz", "ci", "doc", "docs", "bin", "build"}


def strip_comments(src):
    """comments -> blanks (newlines kept); string literals are kept (an address may live in one)."""
    def rep(m):
        t = m.group(0)
        if t.startswith("//") or t.startswith("/*"):
            return re.sub(r"[^\n]", " ", t)
        return t
    return STRIP.sub(rep, src)


def strip_cfg_test(src):
    """remove `#[cfg(test)] mod x { … }` blocks (balanced braces)."""
    out, i = [], 0
    for m in re.finditer(r"#\[cfg\(test\)\]\s*(?:pub\s+)?mod\s+\w+\s*\{", src):
        if m.start() < i:
            continue
        j, depth = m.end(), 1
        while j < len(src) and depth:
            c = src[j]
            depth += (c == "{") - (c == "}")
            j += 1
        out.append(src[i:m.start()])
        out.append(re.sub(r"[^\n]", " ", src[m.start():j]))
        i = j
    out.append(src[i:])
    return "".join(out)


def rust_files(root):
    for d, dirs, fs in os.walk(root):
        dirs[:] = sorted(x for x in dirs if x not in SKIP_DIRS and not x.startswith("."))
        for f in sorted(fs):
            if f.endswith((".c", ".cc", ".cpp", ".h", ".hpp")):
                yield os.path.join(d, f)
            if f.endswith(".rs") and f != "build.rs" and not (f == "main.rs" and os.path.exists(os.path.join(d, "lib.rs"))):
                yield os.path.join(d, f)


def scan_crate(root, want_lines=False):
    counts = {c: 0 for c in CATS}
    lines = []
    for p in rust_files(root):
        try:
            raw = open(p, encoding="utf-8", errors="replace").read()
        except OSError:
            continue
        is_c = not p.endswith(".rs")
        if not (CANY if is_c else ANY).search(raw):
            continue
        code = strip_comments(raw) if is_c else strip_cfg_test(strip_comments(raw))
        for c in CATS:
            for m in (CRX if is_c else RX)[c].finditer(code):
                counts[c] += 1
                if want_lines:
                    ln = code.count("\n", 0, m.start()) + 1
                    lines.append("%s:%d: [%s] %s" % (os.path.relpath(p, root), ln, c, code.split("\n")[ln - 1].strip()[:160]))
    return (counts, lines) if want_lines else counts


def registry_dirs():
    return sorted(glob.glob(os.path.expanduser("~/.cargo/registry/src/*/")))


def crate_dir(name, version):
    for r in registry_dirs():
        d = os.path.join(r, "%s-%s" % (name, version))
        if os.path.isdir(d):
            return d
    return None


_CACHE_PATH = "/tmp/hv-c10-audit-cache.json"   # shared with tools/mutcheck.sh namespaces; keyed by dir + mtime


def scan_cached(name, version):
    """counts for a registry crate; cached by directory + mtime (registry sources are immutable)."""
    d = crate_dir(name, version)
    if d is None:
        return None
    try:
        cache = json.load(open(_CACHE_PATH))
    except Exception:
        cache = {}
    key = "%s|%d|v7" % (d, int(os.stat(d).st_mtime))
    if key not in cache:
        cache[key] = scan_crate(d)
        try:
            os.makedirs(os.path.dirname(_CACHE_PATH), exist_ok=True)
            tmp = _CACHE_PATH + ".%d" % os.getpid()
            json.dump(cache, open(tmp, "w"))
            os.replace(tmp, _CACHE_PATH)
        except OSError:
            pass
    return cache[key]


def main():
    if len(sys.argv) > 1 and sys.argv[1] != "--propose":
        nv = sys.argv[1]
        for r in registry_dirs():
            d = os.path.join(r, nv)
            if os.path.isdir(d):
                counts, lines = scan_crate(d, True)
                print(counts)
                print("\n".join(lines))
                return
        print("not vendored:", nv)
        return
    import tomllib
    lock = tomllib.load(open("/repo/Cargo.lock", "rb"))
    for p in lock["package"]:
        if "source" not in p:
            continue
        c = scan_cached(p["name"], p["version"])
        print(p["name"], p["version"], c)


if __name__ == "__main__":
    main()
