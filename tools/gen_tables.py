#!/usr/bin/env python3
"""gen_tables.py — the translator for *data*: re-reads the Rust sources of /repo on every run and
regenerates coq/Model/Tables_<name>.v (one file per module in tools/tables/).  A file is rewritten
only when its content changes (keeps `make` incremental).  A module that can no longer recognise the
shape of the Rust table it reads must raise — the check then reports a broken tie.

usage: gen_tables.py [name ...]      (no name = all modules)
Each module tools/tables/<name>.py defines  generate(repo: str) -> str  (the full .v text)."""
import sys, os, importlib.util, traceback
ROOT = os.path.dirname(os.path.dirname(os.path.abspath(__file__)))
REPO = os.environ.get("VERIF_REPO", "/repo")
def main():
    tdir = os.path.join(ROOT, "tools", "tables")
    names = sys.argv[1:] or sorted(f[:-3] for f in os.listdir(tdir) if f.endswith(".py") and not f.startswith("_"))
    rc = 0
    for n in names:
        try:
            spec = importlib.util.spec_from_file_location(n, os.path.join(tdir, n + ".py"))
            mod = importlib.util.module_from_spec(spec); spec.loader.exec_module(mod)
            text = mod.generate(REPO)
            out = os.path.join(ROOT, "coq", "Model", "Tables_%s.v" % n)
            old = open(out).read() if os.path.exists(out) else None
            if old != text:
                open(out, "w").write(text)
                print("gen_tables: %s regenerated" % os.path.relpath(out, ROOT))
            else:
                print("gen_tables: %s unchanged" % os.path.relpath(out, ROOT))
        except Exception:
            rc = 1
            print("gen_tables: module %s FAILED to translate its table:" % n)
            traceback.print_exc(file=sys.stdout)
    sys.exit(rc)
if __name__ == "__main__":
    main()
