#!/bin/sh
# with_mutation.sh <patch.diff> <Cxx> [check args...] — apply a patch to /repo under the exclusive
# mutation lock, run the check, and ALWAYS restore /repo.  Only for testing the machinery; nothing is
# ever committed to /repo from here.
patch=$(readlink -f "$1"); pid=$2; shift 2
exec 9>>/tmp/repo-mutation.lock
flock -x 9
if [ -n "$(git -C /repo status --porcelain --untracked-files=no)" ]; then echo "/repo is dirty; refusing"; exit 3; fi
git -C /repo apply "$patch" || { echo "patch does not apply"; exit 3; }
cd /verif && CHECK_NOLOCK=1 timeout 1500 ./check "$pid" "$@"; rc=$?
git -C /repo checkout -- . ; git -C /repo clean -fdq -- harper-core harper-ls harper-wasm harper-stats harper-comments harper-html harper-typst harper-literate-haskell harper-tree-sitter harper-cli 2>/dev/null
echo "with_mutation: check exit=$rc; /repo restored ($(git -C /repo status --porcelain --untracked-files=no | wc -l) dirty files)"
exit $rc
