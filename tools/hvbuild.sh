#!/bin/sh
# hvbuild.sh <Cxx> <bin> [features] — edit-loop build of one harness binary into a PRIVATE cargo target dir
# (/verif/.work/priv/<Cxx>/target, seeded from the shared one at first use), so parallel workers never wait
# for each other's cargo lock.  Prints the path of the binary.  ./check itself uses harness/target.
set -u
id=$1; bin=$2; feat=${3:-}
t=/verif/.work/priv/$id/target
if [ ! -d "$t" ]; then mkdir -p "$(dirname "$t")"; cp -a /verif/harness/target "$t" 2>/dev/null || mkdir -p "$t"; fi
cd /verif/harness || exit 2
[ -f Cargo.lock ] || cp /repo/Cargo.lock Cargo.lock
export CARGO_NET_OFFLINE=true CARGO_TARGET_DIR="$t" CARGO_INCREMENTAL=0   # private dirs: no incremental cache (2 GB each)
if [ -n "$feat" ]; then cargo build --offline --bin "$bin" --features "$feat" 2>&1 | tail -n "${TAIL:-40}"
else cargo build --offline --bin "$bin" 2>&1 | tail -n "${TAIL:-40}"; fi
echo "binary: $t/debug/$bin"
