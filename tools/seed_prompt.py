#!/usr/bin/env python3
"""seed_prompt.py PID [suffix] — create a scratch worktree /tmp/seed-<pid>[suffix] of /repo and write TASK.txt into it
(the property text + anchors only; nothing from /verif's machinery)."""
import json, sys, subprocess, os
pid = sys.argv[1]; suf = sys.argv[2] if len(sys.argv) > 2 else ""
wt = "/tmp/seed-%s%s" % (pid.lower(), suf)
if not os.path.isdir(wt):
    subprocess.check_call(["git", "-C", "/repo", "worktree", "add", "--detach", wt, "HEAD"], stdout=subprocess.DEVNULL, stderr=subprocess.DEVNULL)
p = [json.loads(l) for l in open("/verif/properties.jsonl") if json.loads(l)["id"] == pid][0]
text = '"%s. %s"\n(It is meant to hold for: %s.)\nCode it is anchored in: %s.' % (
    p["title"], p["statement"], p["quantifier"]["text"], ", ".join(p["anchors"]["files"]))
extra = sys.argv[3] if len(sys.argv) > 3 else ""
t = open("/verif/notes/SEED_BRIEF.txt").read().replace("WT", wt).replace("PROPERTY", text + ("\n" + extra if extra else "")).replace("PID", pid)
open(os.path.join(wt, "TASK.txt"), "w").write(t)
print(wt)
