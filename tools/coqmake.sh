#!/bin/sh
# coqmake.sh <target...> — the ONLY way to build Coq files while several people work in /verif/coq.
#   COQ_PRIV=C17 tools/coqmake.sh Properties/C17.vo     proof iteration: the .v files of /verif/coq are mirrored
#        into a PRIVATE build dir /verif/.work/priv/C17/coq and built there (no lock, nobody disturbed;
#        extraction output lands in /verif/.work/priv/C17/ocaml/gen/)
#   tools/coqmake.sh Properties/C17.vo Extract/ExC17.vo  integration: builds in /verif/coq itself under the
#        lock shared with ./check (do this before ./check, not in your edit loop)
# TAIL=200 for more output, COQ_TIMEOUT=seconds.
mkdir -p /verif/.work
if [ -n "${COQ_PRIV:-}" ]; then
  d=/verif/.work/priv/$COQ_PRIV
  mkdir -p "$d/coq" "$d/ocaml/gen"
  rsync -a --delete --include='*/' --include='*.v' --include='mkproject.sh' --exclude='*' /verif/coq/ "$d/coq/"
  cd "$d/coq" || exit 2
  sh mkproject.sh
  timeout "${COQ_TIMEOUT:-1500}" make -j6 "$@" 2>&1 | tail -n "${TAIL:-60}"
else
  cd /verif/coq || exit 2
  exec 9>>../.work/coq.lock
  flock -x 9
  sh mkproject.sh
  timeout "${COQ_TIMEOUT:-1500}" make -j16 "$@" 2>&1 | tail -n "${TAIL:-60}"
fi
