#!/bin/sh
# coqmake.sh <target...> — the ONLY way to build Coq files in /verif/coq while several people work in
# the tree: takes the same lock as ./check, regenerates _CoqProject/Makefile, runs make -j16.
# e.g.  tools/coqmake.sh Properties/C17.vo Extract/ExC17.vo      (TAIL=200 for more output)
cd /verif/coq || exit 2
mkdir -p ../.work
exec 9>>../.work/coq.lock
flock -x 9
sh mkproject.sh
timeout "${COQ_TIMEOUT:-1500}" make -j16 "$@" 2>&1 | tail -n "${TAIL:-60}"
