#!/usr/bin/env python3
"""mkmanifest.py — regenerate /verif/MANIFEST.json from props/*.json (+ properties.jsonl for the
not_applicable list) and validate it against the schema when jsonschema is importable."""
import json, glob, os, sys
root = os.path.dirname(os.path.dirname(os.path.abspath(__file__)))
props = {}
for f in sorted(glob.glob(os.path.join(root, "props", "C*.json"))):
    d = json.load(open(f)); props[d["id"]] = d
all_ids = [json.loads(l)["id"] for l in open(os.path.join(root, "properties.jsonl"))]
na_file = os.path.join(root, "props", "not_applicable.json")
na = json.load(open(na_file)) if os.path.exists(na_file) else {}
m = {
 "version": 1,
 "setup_cmd": "sh setup.sh",
 "hooks": {"guard": "harper_verif",
           "enable": "no hooks are committed: checks build /repo unmodified (RUSTFLAGS=\"--cfg harper_verif\" is reserved); private cores are reached through public API, harper-ls sources are compiled into harness/lsx with #[path]",
           "baseline_off_cmd": "cd /repo && RUSTUP_TOOLCHAIN=stable-x86_64-unknown-linux-gnu cargo nextest run --workspace --no-fail-fast --test-threads 8 --offline || (cd /repo && RUSTUP_TOOLCHAIN=stable-x86_64-unknown-linux-gnu cargo test --workspace --no-fail-fast --offline)",
           "source_commits": [], "add_only": True},
 "engines": [{"name": "coq-proof+correspondence", "path": "check", "serves_properties": sorted(p for p in props if props[p].get("ready") and props[p].get("manifest")),
              "kind_free_text": "Coq 8.16 theorems over hand-written executable Gallina models (coq/), tied to /repo by tables regenerated from the Rust sources (tools/gen_tables.py) and by a differential run of the extracted models (ocaml/) against the implementation (harness/); the property oracle on the implementation is the failing-input search"}],
 "checks": [], "notes": "DESIGN.md explains the approach; known_findings.json lists recorded findings and fixed: lines; AGENTS.md documents the layout.",
 "not_applicable": []}
for pid in all_ids:
    if pid in props and props[pid].get("manifest") and props[pid].get("ready"):
        mf = props[pid]["manifest"]
        m["checks"].append({
            "property_id": pid, "quick_cmd": "./check %s --tier quick" % pid, "thorough_cmd": "./check %s --tier thorough" % pid,
            "evidence_file": "/verif/evidence/%s.json" % pid, "replay_cmd_template": "./check %s --replay {path}" % pid,
            "engine": "coq-proof+correspondence",
            "level_claimed": {"category": "proof", "text": mf["text"], "design_ref": mf.get("design_ref", "DESIGN.md §5 " + pid)},
            "level_note": mf["note"], "technique": mf.get("technique", "machine-checked proof in Coq + extracted-model/implementation correspondence")})
    else:
        m["not_applicable"].append({"property_id": pid, "reason": na.get(pid, "check not yet built in this commit (work in progress; DESIGN.md §5 gives the design — this is not a claim that the technique cannot apply)")})
json.dump(m, open(os.path.join(root, "MANIFEST.json"), "w"), indent=1, ensure_ascii=False)
try:
    import jsonschema
    jsonschema.validate(m, json.load(open("/root/.vp/MANIFEST.schema.json")))
    print("MANIFEST.json valid: %d checks, %d not_applicable" % (len(m["checks"]), len(m["not_applicable"])))
except ImportError:
    print("MANIFEST.json written (%d checks); run with python3-vt to validate" % len(m["checks"]))
