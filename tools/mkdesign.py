#!/usr/bin/env python3
"""mkdesign.py — regenerate the generated tail of DESIGN.md (everything after the marker line):
§10 as-built section per property (notes/Cxx.md, written by whoever built the check),
§11 seeded breaking changes and which checks catch them (seeded/*/meta.json + detect.json),
§12 known findings and fixed: lines (known_findings.json)."""
import json, glob, os, re
root = os.path.dirname(os.path.dirname(os.path.abspath(__file__)))
MARK = "<!-- GENERATED BELOW: tools/mkdesign.py; edit notes/Cxx.md, seeded/*/meta.json, known/*.json instead -->"
p = os.path.join(root, "DESIGN.md")
head = open(p, encoding="utf-8").read().split(MARK)[0].rstrip() + "\n\n" + MARK + "\n\n"
out = [head, "-" * 99, "\n\n## 10. As built, per property (one section per check; written when the check was built)\n\n"]
ids = [json.loads(l)["id"] for l in open(os.path.join(root, "properties.jsonl"))]
# summary table from the committed evidence, known findings and seeded detection results
out.append("### 10.0 Summary (generated from evidence/*.json, known_findings.json, seeded/*/detect.json)\n\n")
out.append("| Property | pinned theorems (all discharged) | axioms | correspondence cases (last run, tier) | disagreements | open known findings | seeded changes caught / run |\n|---|---|---|---|---|---|---|\n")
_k = json.load(open(os.path.join(root, "known_findings.json")))
for pid in ids:
    ef = os.path.join(root, "evidence", pid + ".json")
    if not os.path.exists(ef):
        out.append("| %s | (no evidence) | | | | | |\n" % pid)
        continue
    e = json.load(open(ef)); c = e["coverage"]
    ax = [t for t in c.get("trusted_base", []) if t.startswith("axioms reported by Print Assumptions")]
    ax = ax[-1].split(":", 1)[1].strip() if ax else "?"
    kf = [f["id"] for f in _k["findings"] if f["property"] == pid]
    caught = run = 0
    for d in glob.glob(os.path.join(root, "seeded", "*")):
        try:
            m = json.load(open(os.path.join(d, "meta.json")))
            if m.get("retired"):
                continue
            r = json.load(open(os.path.join(d, "detect.json")))["results"]
        except Exception:
            continue
        for x in r:
            if x["property"] == pid:
                run += 1
                caught += 1 if x["caught"] else 0
    out.append("| %s | %d / %d | %s | %d (%s) | %d | %s | %d / %d |\n" % (pid, c["discharged"], c["obligations"], ax[:80], c.get("traces_validated_against_impl", 0), e["tier"], c.get("correspondence_disagreements", 0), ", ".join(kf) or "none", caught, run))
out.append("\n")
for pid in ids:
    f = os.path.join(root, "notes", pid + ".md")
    if os.path.exists(f):
        body = open(f, encoding="utf-8").read().strip()
        body = re.sub(r"^(#+) ", lambda m: "#" * min(6, len(m.group(1)) + 2) + " ", body, flags=re.M)
        out.append("\n" + body + "\n")
    else:
        out.append("\n### %s\n\n(no as-built section yet)\n" % pid)
out.append("\n" + "-" * 99 + "\n\n## 11. Seeded breaking changes and which checks catch them\n\n")
out.append("Each change was written by a sub-agent that saw only the property text and a scratch worktree, and was "
           "confirmed by the lead in a separate scratch worktree (tools/confirm_seed.sh: demo passes on the clean tree, "
           "fails on the patched tree, the whole pinned suite still passes). Detection = `tools/run_seeded.sh` "
           "(the registered quick check of the property run on the patched tree in an isolated mount namespace).\n\n")
out.append("| Seed | Property | What it changes / what it needs to manifest | Confirmed | Caught by quick check |\n|---|---|---|---|---|\n")
for d in sorted(glob.glob(os.path.join(root, "seeded", "*"))):
    mf = os.path.join(d, "meta.json")
    if not os.path.exists(mf):
        continue
    m = json.load(open(mf))
    conf = "?"
    cl = os.path.join(d, "confirm.log")
    if os.path.exists(cl):
        t = open(cl).read()
        conf = "yes" if "\nCONFIRMED" in t or t.startswith("CONFIRMED") else "NO"
    det = "not run"
    df = os.path.join(d, "detect.json")
    if os.path.exists(df):
        r = json.load(open(df))["results"]
        det = "; ".join("%s: %s" % (x["property"], {True: "caught" + (" (no-failing-input-found)" if any("no-failing-input-found" in v for v in x.get("violations", [])) and not any(v and "no-failing-input-found" not in v for v in x.get("violations", [])) else ""), False: "MISSED", None: "no check"}[x["caught"]]) for x in r)
    s = (m.get("summary", "")[:260] + " — needs: " + m.get("needs_to_manifest", "")[:200]).replace("|", "/").replace("\n", " ")
    if m.get("retired"):
        det += " — RETIRED: " + m["retired"][:220].replace("|", "/")
    out.append("| %s | %s | %s | %s | %s |\n" % (os.path.basename(d), m.get("breaks"), s, conf, det + (" — " + m["lead_note"] if m.get("lead_note") else "")))
out.append("\n" + "-" * 99 + "\n\n## 12. Known findings and repaired defects (known_findings.json)\n\n")
k = json.load(open(os.path.join(root, "known_findings.json")))
out.append("| Id | Property | What fails (one line) | Proposed patch |\n|---|---|---|---|\n")
for f in k["findings"]:
    out.append("| %s | %s | %s | %s |\n" % (f["id"], f["property"], f.get("summary", "").replace("|", "/"), f.get("patch", "")))
out.append("\nRepaired by `fix:` commits in /repo:\n\n")
for l in k["fixed"]:
    out.append("* " + l + "\n")
open(p, "w", encoding="utf-8").write("".join(out))
print("DESIGN.md regenerated: %d bytes" % len("".join(out)))
