#!/usr/bin/env python3
"""merge_known.py — regenerate /verif/known_findings.json from the fragments in /verif/known/*.json.
Run by hand after editing a fragment; never run by a check (the file is committed, read-only at run time)."""
import json, glob, os
root = os.path.dirname(os.path.dirname(os.path.abspath(__file__)))
out = {"findings": [], "fixed": []}
for f in sorted(glob.glob(os.path.join(root, "known", "*.json"))):
    d = json.load(open(f))
    out["findings"] += d.get("findings", [])
    out["fixed"] += d.get("fixed", [])
ids = [x["id"] for x in out["findings"]]
assert len(ids) == len(set(ids)), "duplicate finding ids"
json.dump(out, open(os.path.join(root, "known_findings.json"), "w"), indent=1, ensure_ascii=False)
print("known_findings.json: %d findings, %d fixed" % (len(out["findings"]), len(out["fixed"])))
