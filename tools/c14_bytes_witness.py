#!/usr/bin/env python3
"""c14_bytes_witness.py <cases.txt> <impl.txt> — writes coq/Proofs/C14BytesWitness.v: two B cases (stream B of the C14 check:
the byte stream derive(Hash) of LintContext feeds to the hasher and the hash IgnoredLints stored, BOTH RECORDED FROM THE
IMPLEMENTATION) over the document `1st 22nd 3rd 4th 0.250 1e3 ¥7 ...` of harness/src/bin/c14.rs B_TEXTS, as Coq terms.
The same inputs are run against the implementation on every check (B_TEXTS is swept in both tiers)."""
import sys
cases = open(sys.argv[1]).read().split("\n"); impl = open(sys.argv[2]).read().split("\n")
def nlist(ws): return "[" + "; ".join(ws) + "]"
def kind(ws):
    o = lambda w: "None" if w == "-" else "(Some %s)" % num(w)
    t = ws[0]
    if t == "W": return "KWord %s" % o(ws[1])
    if t == "P": return "KPunct %s" % ws[1]
    if t == "Q": return "KQuote %s" % ("None" if ws[1] == "-" else "(Some %s%%nat)" % ws[1])
    if t == "N": return "KNumber %s %s %s %s%%nat" % (num(ws[1]), o(ws[2]), ws[3], ws[4])
    if t == "S": return "KSpace %s%%nat" % ws[1]
    if t == "L": return "KNewline %s%%nat" % ws[1]
    return {"D": "KDecade", "E": "KEmail", "U": "KUrl", "H": "KHostname", "X": "KUnlintable", "B": "KParagraphBreak", "R": "KRegexish"}[t]
def num(w): return str(int(w[1:], 2)) if w.startswith("b") else w
def lint(s):
    parts = [p.strip() for p in s.split(";")]
    a, b, k, p = parts[0].split()
    sg = []
    for x in (parts[2].split(",") if len(parts) > 2 and parts[2] else []):
        x = x.strip().split()
        sg.append({"R": "ReplaceWith %s", "I": "InsertAfter %s"}[x[0]] % nlist(x[1:]) if x[0] in "RI" else "Remove")
    return "mkilint (mkspan %s %s) %s [%s] %s %s" % (a, b, k, "; ".join(sg), nlist(parts[1].split()), p)
def doc(s):
    src, toks = [p.strip() for p in s.split(";")][:2]
    ts = []
    for t in toks.split(","):
        w = t.split()
        ts.append("mktok (mkspan %s %s) (%s)" % (w[0], w[1], kind(w[2:])))
    return "mkdoc %s\n  [%s]" % (nlist(src.split()), ";\n   ".join(ts))
def hexbytes(h): return nlist([str(int(h[i:i + 2], 16)) for i in range(0, len(h), 2)])
picked = {}
for c, i in zip(cases, impl):
    if not c.startswith("B ") or not i.startswith("wf "): continue
    l, d = c[2:].split("|")
    if d.split(";")[0].split()[:4] != ["49", "115", "116", "32"]: continue
    head = l.split(";")[0].split()
    key = (int(head[0]), int(head[1]))
    if key in ((2, 4), (27, 29)) and key not in picked: picked[key] = (l, d, i)
if len(picked) != 2: raise SystemExit("witness cases not found: %r" % list(picked))
out = ["(* GENERATED ONCE by tools/c14_bytes_witness.py from a run of the C14 harness: the byte streams and the hashes below were",
       "   RECORDED FROM THE IMPLEMENTATION (a recording Hasher fed by the derived Hash; the hash IgnoredLints exported). *)",
       "Require Import Base Suggestion Ignore C14Bytes.", "Local Open Scope N_scope.", ""]
(l1, d1, i1), (l2, d2, i2) = picked[(2, 4)], picked[(27, 29)]
out.append("Definition bw_doc : doc :=\n  %s." % doc(d1))
for n, (l, i) in enumerate(((l1, i1), (l2, i2)), 1):
    _, st, h = i.split()
    out.append("Definition bw_lint%d : ilint := %s." % (n, lint(l)))
    out.append("Definition bw_stream%d : bytes :=\n  %s." % (n, hexbytes(st)))
    out.append("Definition bw_hash%d : N := %d." % (n, int.from_bytes(bytes.fromhex(h), "little")))
open("/verif/coq/Proofs/C14BytesWitness.v", "w").write("\n".join(out) + "\n")
