#!/bin/sh
# mutcheck.sh <patch.diff> <Cxx> [check args...]
# Isolated mutation test of the machinery: in a PRIVATE MOUNT NAMESPACE, /repo is replaced by a scratch
# copy of /repo's working tree with the patch applied and /verif by a scratch copy of /verif (build
# caches included), then `./check Cxx ...` runs there.  The real /repo and /verif are never touched,
# so any number of these can run in parallel with ordinary work.  New replay files are copied to
# /verif/.work/mut-replays/ (printed); everything else is deleted afterwards.
# Use `-` as the patch to run the check on an unmodified copy (control run).
set -u
patch=$1; pid=$2; shift 2
[ "$patch" = "-" ] || patch=$(readlink -f "$patch")
d=$(mktemp -d /tmp/mut.XXXXXX)
trap 'rm -rf "$d"' EXIT INT TERM
mkdir -p "$d/repo" "$d/verif" /verif/.work/mut-replays
rsync -a --exclude /target --exclude node_modules /repo/ "$d/repo/"
rsync -a --exclude /.work --exclude /replays --exclude /.git --exclude /harness/target/debug/incremental /verif/ "$d/verif/"
mkdir -p "$d/verif/.work" "$d/verif/replays"
if [ "$patch" != "-" ]; then
  ( cd "$d/repo" && git apply "$patch" ) || { echo "mutcheck: patch does not apply"; exit 3; }
fi
args=""; prev=""
for a in "$@"; do
  if [ "$prev" = "--replay" ] && [ -f "$a" ]; then   # replay files under /verif/.work are not in the scratch copy: hand a copy in
    mkdir -p "$d/verif/.work/replay-in"; cp "$a" "$d/verif/.work/replay-in/"; a="/verif/.work/replay-in/$(basename "$a")"
  fi
  args="$args '$a'"; prev="$a"
done
unshare -m sh -c "mount --bind '$d/repo' /repo && mount --bind '$d/verif' /verif && cd /verif && CHECK_NOLOCK=1 timeout 3000 ./check $pid $args"
rc=$?
for f in "$d"/verif/replays/*.json; do
  [ -f "$f" ] || continue
  cp "$f" /verif/.work/mut-replays/
  echo "mutcheck: replay kept as /verif/.work/mut-replays/$(basename "$f")"
done
echo "mutcheck: check exit=$rc (real /repo and /verif untouched)"
exit $rc
