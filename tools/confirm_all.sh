#!/bin/sh
# confirm_all.sh — confirm every seeded change that has no verdict yet, three scratch worktrees in parallel
cd /verif
i=0
for d in seeded/*; do
  grep -q "CONFIRMED" $d/confirm.log 2>/dev/null && continue
  i=$((i+1)); n=$((i % 3)); case $n in 0) wt=/tmp/seedconfirm;; 1) wt=/tmp/seedconfirm2;; 2) wt=/tmp/seedconfirm3;; esac
  echo "$wt $d"
done > /tmp/confirm-queue.txt
for wt in /tmp/seedconfirm /tmp/seedconfirm2 /tmp/seedconfirm3; do
  ( grep "^$wt " /tmp/confirm-queue.txt | while read w d; do SEEDWT=$w tools/confirm_seed.sh $d 2>&1 | grep "CONFIRMED" | sed "s|^|$d |"; done ) >> /tmp/confirm-all.log 2>&1 &
done
wait
