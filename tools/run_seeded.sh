#!/bin/sh
# run_seeded.sh [seeded-id ...] — run the registered check(s) of each seeded change's property against the
# patched tree (isolated: tools/mutcheck.sh) and record whether it is caught in seeded/<id>/detect.json.
# Extra properties to try can be listed in meta.json as "also_check": ["C16", ...].
cd /verif || exit 2
[ $# -gt 0 ] || set -- $(ls seeded)
for id in "$@"; do
  d=seeded/$id
  [ -f $d/patch.diff ] || continue
  props=$(python3 -c "import json;m=json.load(open('$d/meta.json'));print(' '.join([m['breaks']]+m.get('also_check',[])))")
  res=""
  for p in $props; do
    [ -f props/$p.json ] || { res="$res{\"property\":\"$p\",\"caught\":null,\"note\":\"no check yet\"},"; continue; }
    out=$(tools/mutcheck.sh $d/patch.diff $p --tier quick 2>&1); rc=$?
    v=$(echo "$out" | grep '^VIOLATION' | head -5 | python3 -c "import sys,json;print(json.dumps(sys.stdin.read().strip().split('\n')))")
    s=$(echo "$out" | grep "tier=quick" | tail -1 | python3 -c "import sys,json;print(json.dumps(sys.stdin.read().strip()))")
    if [ $rc = 1 ]; then c=true; else c=false; fi
    res="$res{\"property\":\"$p\",\"caught\":$c,\"exit\":$rc,\"violations\":$v,\"summary\":$s},"
    echo "$id $p caught=$c"
  done
  echo "{\"seed\":\"$id\",\"results\":[${res%,}]}" | python3 -m json.tool > $d/detect.json
done
