"""masks — the literal tables C04's theorems mention, re-read from the Rust sources on every run:
  * the ignore markers of CommentMasker::new (harper-comments/src/masker.rs): every
    `text.contains("…")` and `text.starts_with("…")` of the closure, in order; the shebang prefix and the
    shape of the filter_map of CommentMasker::create_mask;
  * the comment-leader characters of is_comment_character (harper-comments/src/comment_parsers/mod.rs);
  * the node conditions (CommentParser: kind contains "comment"; HtmlParser: kind == "text");
  * the two LaTeX fences of the Literate Haskell masker;
  * the guard of Markdown::parse's event loop (harper-core/src/parsers/markdown.rs: behind_cursor, the cursor
    advance, covered_until, the list of guarded events — 8b26ba4 / b736ef8) and the empty-body skip of the
    Code / Math arm (a37d1cc), statement by statement.
Raises when a table no longer has the shape it knows."""
import os, re

def cps(s):
    return "[" + "; ".join(str(ord(c)) for c in s) + "]%N"

def unescape(s):
    return bytes(s, "utf-8").decode("unicode_escape") if "\\" in s else s

def generate(repo):
    # ---- ignore condition ----
    src = open(os.path.join(repo, "harper-comments/src/masker.rs"), encoding="utf-8").read()
    m = re.search(r"Box::new\(\|text\|\s*\{(.*?)\}\)", src, re.S)
    if not m:
        raise RuntimeError("masker.rs: cannot find the ignore-condition closure")
    body = m.group(1)
    terms = [t.strip() for t in body.split("||")]
    markers, prefixes = [], []
    for t in terms:
        mc = re.fullmatch(r'text\.contains\("((?:[^"\\]|\\.)*)"\)', t)
        mp = re.fullmatch(r'text\.starts_with\("((?:[^"\\]|\\.)*)"\)', t)
        if mc:
            markers.append(unescape(mc.group(1)))
        elif mp:
            prefixes.append(unescape(mp.group(1)))
        else:
            raise RuntimeError("masker.rs: unrecognised term in the ignore condition: %r" % t)
    if not markers:
        raise RuntimeError("masker.rs: no ignore markers found")
    # the closure must be the one create_mask filters with; since 075dccb the shebang is handled in
    # create_mask itself: a span starting with the shebang prefix loses its first line, the rest (or any
    # other span) is kept iff the closure is false
    body2 = src[src.index("fn create_mask"):]
    shape = [
        r"\.iter_allowed\(source\)\s*\.map\(\|\(span, chars\)\| \(span, chars\.iter\(\)\.collect::<String>\(\)\)\)\s*\.filter_map\(\|\(span, text\)\| \{",
        r"let line_len = text\.chars\(\)\.position\(\|c\| c == '\\n'\)\? \+ 1;",
        r"let rest: String = text\.chars\(\)\.skip\(line_len\)\.collect\(\);",
        r"let rest_span = harper_core::Span::new\(span\.start \+ line_len, span\.end\);",
        r"return \(!\(self\.ignore_condition\)\(&rest\)\)\.then_some\(rest_span\);",
        r"\(!\(self\.ignore_condition\)\(&text\)\)\.then_some\(span\)\s*\}\)\s*\.collect\(\)",
    ]
    pos = 0
    for pat in shape:
        mm = re.compile(pat).search(body2, pos)
        if not mm:
            raise RuntimeError("masker.rs: create_mask no longer has the shebang/ignore filter_map shape (%s)" % pat)
        pos = mm.end()
    sheb = re.findall(r'if text\.starts_with\("((?:[^"\\]|\\.)*)"\) \{', body2)
    if len(sheb) != 1 or body2.count("starts_with") != 1:
        raise RuntimeError("masker.rs: create_mask: expected exactly one starts_with (the shebang prefix): %r" % sheb)
    shebang = unescape(sheb[0])
    # ---- comment characters ----
    src2 = open(os.path.join(repo, "harper-comments/src/comment_parsers/mod.rs"), encoding="utf-8").read()
    m2 = re.search(r"fn is_comment_character\(c: char\) -> bool \{\s*matches!\(c,\s*(.*?)\)\s*\}", src2, re.S)
    if not m2:
        raise RuntimeError("comment_parsers/mod.rs: cannot find is_comment_character")
    chars = []
    for t in m2.group(1).split("|"):
        mc = re.fullmatch(r"'(\\?.)'", t.strip())
        if not mc:
            raise RuntimeError("is_comment_character: unrecognised pattern %r" % t)
        chars.append(unescape(mc.group(1)))
    m3 = re.search(r"\.position\(\|c\| !is_comment_character\(\*c\) && !c\.is_whitespace\(\)\)", src2)
    if not m3 or src2.count("!is_comment_character(*c) && !c.is_whitespace()") != 2:
        raise RuntimeError("without_initiators no longer scans with !is_comment_character && !is_whitespace from both ends")
    # ---- node conditions ----
    src3 = open(os.path.join(repo, "harper-comments/src/comment_parser.rs"), encoding="utf-8").read()
    m4 = re.search(r'fn node_condition\(n: &Node\) -> bool \{\s*n\.kind\(\)\.contains\("([^"]*)"\)\s*\}', src3)
    if not m4:
        raise RuntimeError("comment_parser.rs: node_condition changed shape")
    src4 = open(os.path.join(repo, "harper-html/src/lib.rs"), encoding="utf-8").read()
    m5 = re.search(r'fn node_condition\(n: &Node\) -> bool \{\s*n\.kind\(\) == "([^"]*)"\s*\}', src4)
    if not m5:
        raise RuntimeError("harper-html: node_condition changed shape")
    langs = re.findall(r'^\s*"(\w+)" => tree_sitter_\w+::language\w*\(\),', src3, re.M)
    if len(langs) < 10:
        raise RuntimeError("comment_parser.rs: language table not recognised")
    # ---- LHS fences ----
    src5 = open(os.path.join(repo, "harper-literate-haskell/src/masker.rs"), encoding="utf-8").read()
    fences = re.findall(r'trimmed == r"([^"]*)"', src5)
    if sorted(set(fences)) != sorted({"\\begin{code}", "\\end{code}"}):
        raise RuntimeError("LHS masker: fences changed: %r" % fences)
    # ---- Markdown::parse: the guard of the event loop ----
    src6 = open(os.path.join(repo, "harper-core/src/parsers/markdown.rs"), encoding="utf-8").read()
    if "fn parse(&self, source: &[char])" not in src6:
        raise RuntimeError("markdown.rs: Markdown::parse not found")
    body6 = src6[src6.index("fn parse(&self, source: &[char])"):]
    md_shape = [
        r"let mut traversed_bytes = 0;\s*let mut traversed_chars = 0;",
        r"let mut covered_until = 0;",
        r"for \(event, range\) in md_parser\.into_offset_iter\(\) \{",
        r"let behind_cursor = range\.start < traversed_bytes;",
        r"if range\.start > traversed_bytes \{\s*traversed_chars \+= source_str\[traversed_bytes\.\.range\.start\]\.chars\(\)\.count\(\);\s*traversed_bytes = range\.start;\s*\}",
        r"if let Some\(last\) = tokens\.last\(\) \{\s*covered_until = covered_until\.max\(last\.span\.end\);\s*\}",
        r"if \(behind_cursor \|\| traversed_chars < covered_until\)\s*&& matches!\(\s*event,(?P<evs>[^)]*(?:\(_\)[^)]*)*)\)\s*\{\s*continue;\s*\}",
        r"match event \{",
        r"pulldown_cmark::Event::InlineMath\(code\)\s*\| pulldown_cmark::Event::DisplayMath\(code\)\s*\| pulldown_cmark::Event::Code\(code\) => \{\s*let chunk_len = code\.chars\(\)\.count\(\);\s*(?://[^\n]*\s*)*if chunk_len == 0 \{\s*continue;\s*\}",
    ]
    pos = 0
    guarded = None
    for pat in md_shape:
        mm = re.compile(pat).search(body6, pos)
        if not mm:
            raise RuntimeError("markdown.rs: the event loop of Markdown::parse no longer has the guard shape (%s)" % pat)
        if "evs" in mm.groupdict():
            guarded = mm.group("evs")
        pos = mm.end()
    names = []
    for t in guarded.split("|"):
        mt = re.fullmatch(r"pulldown_cmark::Event::(\w+)(\(_\))?", t.strip())
        if not mt:
            raise RuntimeError("markdown.rs: unrecognised pattern in the guard's event list: %r" % t)
        names.append(mt.group(1))
    known_events = {"SoftBreak", "HardBreak", "InlineMath", "DisplayMath", "Code", "Text", "Html", "InlineHtml"}
    if set(names) - known_events or len(names) != len(set(names)):
        raise RuntimeError("markdown.rs: the guard names an event the model does not know or repeats one: %r" % names)
    code6 = re.sub(r"//[^\n]*", "", body6)
    if code6.count("covered_until") != 4 or code6.count("behind_cursor") != 2:
        raise RuntimeError("markdown.rs: covered_until / behind_cursor are used elsewhere than in the guard")
    out = ["(* GENERATED by tools/tables/masks.py from /repo — do not edit. *)",
           "From Coq Require Import List NArith String.", "Import ListNotations.", "",
           "(* CommentMasker::new: text.contains(m) for m in ignore_markers || text.starts_with(p) for p in ignore_prefixes *)",
           "Definition ignore_markers : list (list N) := ["]
    out.append(";\n".join("  %s  (* %s *)" % (cps(s), s) for s in markers))
    out.append("].")
    out.append("Definition ignore_prefixes : list (list N) := [")
    out.append(";\n".join("  %s  (* %s *)" % (cps(s), s) for s in prefixes))
    out.append("].")
    out.append("(* CommentMasker::create_mask: a span whose text starts_with(shebang_prefix) loses its first line *)")
    out.append("Definition shebang_prefix : list N := %s.  (* %s *)" % (cps(shebang), shebang))
    out.append("(* is_comment_character *)")
    out.append("Definition comment_characters : list N := %s." % cps("".join(chars)))
    out.append("(* node conditions: CommentParser `kind().contains(..)`, HtmlParser `kind() == ..` *)")
    out.append('Definition comment_kind_substring : string := "%s"%%string.' % m4.group(1))
    out.append('Definition html_kind : string := "%s"%%string.' % m5.group(1))
    out.append("Definition n_comment_languages : nat := %d." % len(langs))
    out.append("(* Literate Haskell fences *)")
    out.append("Definition lhs_begin_code : list N := %s." % cps("\\begin{code}"))
    out.append("Definition lhs_end_code : list N := %s." % cps("\\end{code}"))
    out.append("(* Markdown::parse: `if (behind_cursor || traversed_chars < covered_until) && matches!(event, ..) { continue; }` *)")
    out.append("Definition md_guarded_events : list string := [%s]." % "; ".join('"%s"%%string' % n for n in names))
    out.append("Definition md_guard_has_behind_cursor : bool := true.")
    return "\n".join(out) + "\n"
