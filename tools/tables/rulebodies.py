"""rulebodies — every `impl PatternLinter for <Rule>` of harper-core/src/linting/**/*.rs: the pattern the rule
is built with (as a term of the inductive `pat` of Model/Pattern.v, as far as it is built from the constructors
this module knows) and the uses its `match_to_lint` makes of the matched slice with LITERAL positions
(`matched_tokens[k]`, `[a..b]`, `[a..=b]`, `[a..]`, `[..b]`, `matched_tokens[matched_tokens.len() - k]`,
`match matched_tokens.len() { n => .., _ => panic!() }`).  `.first()`, `.last()`, `.get(..)`, iterators and
`.span()` return Options / cannot go out of range and are not uses.

Emits coq/Model/Tables_rulebodies.v:

  rule_table            : list rule_row      rules with pattern AND uses understood ("classified"); Proofs/C01RuleBodies.v
                                             proves by computation that every use is below the least match length
  rules_nothing_to_check: list (string*string)   rules whose match_to_lint has no index/slice/panic site at all
                                             (nothing can go out of range whatever the pattern is)
  rules_unclassified    : list (string*string*string)  (rule, file, reason) — listed BY NAME in the evidence
  rule_impl_count       : nat                 number of `impl PatternLinter for` sites found (= the three lists together)

Raises when no PatternLinter impl is found, when a `then_*` method of SequencePattern is used that
sequence_pattern.rs does not define, or when match_to_lint cannot be located in an impl."""
import os, re

# ----------------------------------------------------------------------------- lexer for Rust expressions
TOK = re.compile(r"""
    (?P<ws>\s+)
  | (?P<lc>//[^\n]*)
  | (?P<bc>/\*.*?\*/)
  | (?P<str>b?"(?:\\.|[^"\\])*")
  | (?P<chr>'(?:\\.|[^'\\])')
  | (?P<life>'[A-Za-z_]\w*)
  | (?P<num>\d[\d_]*(?:usize|u8|u32|i32)?)
  | (?P<id>[A-Za-z_]\w*)
  | (?P<op>::|\.\.=|\.\.|->|=>|==|!=|<=|>=|&&|\|\||[-+*/%=<>!&|.,;:(){}\[\]#?@^~$])
""", re.X | re.S)


def lex(src):
    out, i = [], 0
    while i < len(src):
        m = TOK.match(src, i)
        if not m:
            raise RuntimeError("rulebodies: cannot lex %r" % src[i:i + 30])
        i = m.end()
        k = m.lastgroup
        if k in ("ws", "lc", "bc"):
            continue
        out.append((k, m.group(k)))
    return out


class Unknown(Exception):
    pass


def unstr(s):
    body = s[s.index('"') + 1:-1]
    return bytes(body, "utf-8").decode("unicode_escape").encode("latin-1").decode("utf-8") if "\\" in body else body


# ----------------------------------------------------------------------------- expression parser -> small AST
# AST: ('path', [names]) | ('call', f, [args]) | ('method', recv, name, [args]) | ('str', s) | ('num', n)
#      | ('closure',) | ('array', [items]) | ('macro', name, [args]) | ('ref', e) | ('field', recv, name) | ('other',)
class P:
    def __init__(self, toks):
        self.t, self.i = toks, 0

    def peek(self, k=0):
        return self.t[self.i + k] if self.i + k < len(self.t) else ("eof", "")

    def eat(self, v=None):
        tk = self.peek()
        if v is not None and tk[1] != v:
            raise Unknown("expected %s, found %s" % (v, tk[1]))
        self.i += 1
        return tk

    def skip_balanced(self, stop):
        """skip tokens up to (not including) a top-level token in `stop`"""
        depth = 0
        while True:
            k, v = self.peek()
            if k == "eof":
                return
            if depth == 0 and v in stop:
                return
            if v in "([{" and k == "op":
                depth += 1
            elif v in ")]}" and k == "op":
                if depth == 0:
                    return
                depth -= 1
            self.i += 1

    def args(self, close):
        res = []
        while self.peek()[1] != close:
            res.append(self.expr())
            if self.peek()[1] == ",":
                self.eat()
            elif self.peek()[1] != close:
                raise Unknown("argument list: unexpected %s" % self.peek()[1])
        self.eat(close)
        return res

    def skip_type(self):
        depth = 0
        while True:
            k, v = self.peek()
            if k == "eof":
                return
            if v == "<":
                depth += 1
            elif v == ">":
                depth -= 1
            elif depth == 0 and (v in (",", ")", ";", "]", "}", ".", "=") ):
                return
            self.i += 1

    def primary(self):
        k, v = self.peek()
        if v == "move":
            self.eat(); k, v = self.peek()
        if v == "|" or v == "||":
            if v == "|":
                self.eat()
                while self.peek()[1] != "|":
                    if self.peek()[0] == "eof":
                        raise Unknown("closure parameters")
                    self.i += 1
                self.eat("|")
            else:
                self.eat()
            if self.peek()[1] == "{":
                self.eat("{"); self.skip_balanced(()); self.eat("}")
            else:
                self.skip_balanced((",", ";"))
            return ("closure",)
        if v == "(":
            self.eat()
            e = self.expr()
            self.eat(")")
            return e
        if v == "&":
            self.eat()
            if self.peek()[1] == "mut":
                self.eat()
            return ("ref", self.unary())
        if v == "[":
            self.eat()
            return ("array", self.args("]"))
        if k == "str":
            self.eat(); return ("str", unstr(v))
        if k == "num":
            self.eat(); return ("num", int(re.match(r"\d+", v.replace("_", "")).group(0)))
        if k == "id":
            names = [self.eat()[1]]
            while self.peek()[1] == "::":
                self.eat()
                if self.peek()[1] == "<":           # turbofish
                    self.skip_type_args()
                    continue
                names.append(self.eat()[1])
            if self.peek()[1] == "!":
                self.eat()
                op = self.eat()[1]
                close = {"(": ")", "[": "]", "{": "}"}[op]
                return ("macro", names[-1], self.args(close))
            if self.peek()[1] == "(":
                self.eat()
                return ("call", names, self.args(")"))
            return ("path", names)
        raise Unknown("expression starts with %s" % v)

    def skip_type_args(self):
        depth = 0
        while True:
            v = self.peek()[1]
            if v == "<":
                depth += 1
            elif v == ">":
                depth -= 1
                if depth == 0:
                    self.eat(); return
            elif self.peek()[0] == "eof":
                raise Unknown("type arguments")
            self.i += 1

    def unary(self):
        e = self.primary()
        while True:
            v = self.peek()[1]
            if v == ".":
                self.eat()
                name = self.eat()[1]
                if self.peek()[1] == "::":          # .collect::<T>()
                    self.eat(); self.skip_type_args()
                if self.peek()[1] == "(":
                    self.eat()
                    e = ("method", e, name, self.args(")"))
                else:
                    e = ("field", e, name)
            elif v == "?":
                self.eat()
            elif v == "as":
                self.eat(); self.skip_type()
            else:
                return e

    def expr(self):
        e = self.unary()
        # binary operators do not occur in pattern expressions; swallow them as 'other'
        if self.peek()[1] in ("+", "-", "*", "==", "!=", "&&", "||", "<", ">", "..", "..="):
            self.skip_balanced((",", ";"))
            return ("other",)
        return e


# ----------------------------------------------------------------------------- pattern values
# ('Seq', [..]) ('Either', [..]) ('All', [..]) ('Invert', p) ('Repeat', p, n) ('Ws',) ('Any',) ('Nominal',)
# ('AnyCap', word|None) ('ExactWord', word|None) ('WordSet', [words]) ('Pred',) ('FlagWord',) ('Implies',)
# ('IndefArticle',) ('Split',) ('ExactPhrase', [..]) ('WordGroup', [(word|None, [pats])])
def first_str(ast):
    if ast[0] == "str":
        return ast[1]
    for x in ast[1:]:
        if isinstance(x, tuple):
            s = first_str(x)
            if s is not None:
                return s
        elif isinstance(x, list):
            for y in x:
                if isinstance(y, tuple):
                    s = first_str(y)
                    if s is not None:
                        return s
    return None


PUNCT = set(",.?!:;-()[]{}\"/@#$%&*+=<>|\\^~`_")


def exact_phrase(text):
    """ExactPhrase::from_document on Document::new_markdown_default_curated(text) for the simple phrases the
    rules use: words (letters, inner apostrophes), single spaces, ASCII punctuation.  Anything else: Unknown."""
    parts, i = [], 0
    if not text or text != text.strip() and not text.strip():
        raise Unknown("ExactPhrase of an empty phrase")
    if re.search(r"[*_`\[\]<>#\\~|]|\.\.|\d|  |^\s|\s$|\n|\bet al\b|\b[A-Za-z]\.[A-Za-z]\.", text):
        raise Unknown("ExactPhrase::from_phrase(%r): Markdown / condensed tokens not modelled by the translator" % text)
    while i < len(text):
        c = text[i]
        m = re.match(r"[A-Za-z]+(?:['’][A-Za-z]+)*", text[i:])
        if m:
            parts.append(("AnyCap", m.group(0))); i += m.end(); continue
        if c == " ":
            parts.append(("Ws",)); i += 1; continue
        if c in PUNCT or c == "'":
            parts.append(("Pred",)); i += 1; continue
        raise Unknown("ExactPhrase::from_phrase(%r): character %r" % (text, c))
    return ("ExactPhrase", parts)


class Builder:
    def __init__(self, qualities):
        self.q = qualities
        self.env = {}

    def strs(self, ast):
        """a `&[..]` / array / bound name of string literals"""
        if ast[0] == "ref":
            return self.strs(ast[1])
        if ast[0] == "array":
            out = []
            for a in ast[1]:
                if a[0] != "str":
                    raise Unknown("word list with a non-literal element")
                out.append(a[1])
            return out
        if ast[0] == "macro" and ast[1] == "vec":
            return self.strs(("array", ast[2]))
        if ast[0] == "path" and len(ast[1]) == 1 and ast[1][0] in self.env and self.env[ast[1][0]][0] == "Strs":
            return list(self.env[ast[1][0]][1])
        raise Unknown("word list is not a literal array")

    def word(self, ast):
        if ast[0] == "str":
            return ast[1]
        if ast[0] == "path" and len(ast[1]) == 1 and ast[1][0] in self.env and self.env[ast[1][0]][0] == "Str":
            return self.env[ast[1][0]][1]
        s = first_str(ast)
        if s is not None and ast[0] in ("macro", "method", "call"):
            return s
        raise Unknown("word is not a literal")

    def pat(self, ast):
        k = ast[0]
        if k == "closure":
            return ("Pred",)
        if k == "ref":
            return self.pat(ast[1])
        if k == "path":
            n = ast[1]
            if len(n) == 1:
                if n[0] in self.env:
                    v = self.env[n[0]]
                    if v[0] in ("Strs", "Str"):
                        raise Unknown("%s is not a pattern" % n[0])
                    return v
                unit = {"NominalPhrase": ("Nominal",), "WhitespacePattern": ("Ws",), "AnyPattern": ("Any",),
                        "ImpliesQuantity": ("Implies",)}
                if n[0] in unit:
                    return unit[n[0]]
            raise Unknown("unknown name %s" % "::".join(n))
        if k == "call":
            n, a = ast[1], ast[2]
            f = "::".join(n[-2:])
            if f in ("Box::new", "Lrc::new", "Arc::new", "Rc::new"):
                return self.pat(a[0])
            if f == "SequencePattern::default":
                return ("Seq", [])
            if f in ("SequencePattern::aco", "SequencePattern::any_capitalization_of"):
                return ("Seq", [("AnyCap", self.word(a[0]))])
            if f == "WordSet::new":
                return ("WordSet", self.strs(a[0]))
            if f in ("AnyCapitalization::of", "AnyCapitalization::new"):
                return ("AnyCap", self.word(a[0]))
            if f in ("EitherPattern::new", "All::new"):
                kids = a[0]
                if not (kids[0] == "macro" and kids[1] == "vec"):
                    raise Unknown("%s of a computed vector" % f)
                return ("Either" if f.startswith("Either") else "All", [self.pat(x) for x in kids[2]])
            if f in ("All::default", "EitherPattern::default"):
                return ("All" if f.startswith("All") else "Either", [])
            if f == "WordPatternGroup::default":
                return ("WordGroup", [])
            if f == "Invert::new":
                return ("Invert", self.pat(a[0]))
            if f == "RepeatingPattern::new":
                if a[1][0] != "num":
                    raise Unknown("RepeatingPattern with a computed count")
                return ("Repeat", self.pat(a[0]), a[1][1])
            if f == "IndefiniteArticle::default":
                return ("IndefArticle",)
            if f == "SplitCompoundWord::new":
                return ("Split",)
            if f == "ExactPhrase::from_phrase":
                if a[0][0] != "str":
                    raise Unknown("ExactPhrase::from_phrase of a computed phrase")
                return exact_phrase(a[0][1])
            raise Unknown("unknown constructor %s" % "::".join(n))
        if k == "method":
            recv, name, a = ast[1], ast[2], ast[3]
            if name == "clone" and not a:
                return self.pat(recv)
            r = self.pat(recv)
            if name == "or":
                return ("Either", [r, self.pat(a[0])])
            if r[0] != "Seq":
                raise Unknown("method .%s on a %s" % (name, r[0]))
            ps = list(r[1])
            if name == "then_whitespace":
                ps.append(("Ws",))
            elif name in ("t_aco", "then_any_capitalization_of"):
                ps.append(("AnyCap", self.word(a[0])))
            elif name == "then_exact_word":
                ps.append(("ExactWord", self.word(a[0])))
            elif name == "then_any_word":
                ps.append(("FlagWord",))
            elif name == "then_anything":
                ps.append(("Any",))
            elif name == "then_indefinite_article":
                ps.append(("IndefArticle",))
            elif name == "then_strict":
                ps.append(("Pred",))
            elif name == "then":
                ps.append(self.pat(a[0]))
            elif name == "then_one_or_more":
                ps.append(("Repeat", self.pat(a[0]), 0))
            elif name.startswith("then_one_or_more_") and name[len("then_one_or_more_"):-1] in self.q and name.endswith("s"):
                ps.append(("Repeat", ("Pred",), 0))
            elif name.startswith("then_anything_but_") and name[len("then_anything_but_"):] in self.q:
                ps.append(("Pred",))
            elif name.startswith("then_") and name[5:] in self.q:
                ps.append(("Pred",))
            elif name.startswith("then_"):
                raise RuntimeError("rulebodies: SequencePattern::%s is not defined by sequence_pattern.rs as this module reads it" % name)
            else:
                raise Unknown("method .%s on a SequencePattern" % name)
            return ("Seq", ps)
        raise Unknown("expression of kind %s is not a pattern" % k)


# ----------------------------------------------------------------------------- statements of the constructor
def split_statements(toks):
    """top-level statements of a block body (token list without the outer braces)"""
    out, cur, depth = [], [], 0
    for tk in toks:
        k, v = tk
        if k == "op" and v in "([{":
            depth += 1
        elif k == "op" and v in ")]}":
            depth -= 1
        cur.append(tk)
        if depth == 0 and k == "op" and (v == ";" or (v == "}" and cur and cur[0][1] in ("for", "if", "while", "loop", "match"))):
            out.append(cur); cur = []
    if cur:
        out.append(cur)
    return out


def block_after(toks, start):
    """tokens inside the `{ }` that opens at or after index start; returns (inner tokens, index after the block)"""
    i = start
    while toks[i][1] != "{":
        i += 1
    depth, j = 0, i
    while True:
        if toks[j][0] == "op" and toks[j][1] == "{":
            depth += 1
        elif toks[j][0] == "op" and toks[j][1] == "}":
            depth -= 1
            if depth == 0:
                return toks[i + 1:j], j + 1
        j += 1


def find_fn(toks, name, frm=0, to=None):
    to = len(toks) if to is None else to
    for i in range(frm, to - 1):
        if toks[i][1] == "fn" and toks[i + 1][1] == name:
            return i
    return None


PATTERNISH = ("Seq", "Either", "All", "Invert", "Repeat", "Ws", "Any", "Nominal", "AnyCap", "ExactWord", "WordSet",
              "Pred", "FlagWord", "Implies", "IndefArticle", "Split", "ExactPhrase", "WordGroup")


def wg_add(group, word, p):
    items = list(group[1])
    for idx, (w, ps) in enumerate(items):
        if w == word and word is not None:
            items[idx] = (w, ps + [p]); break
    else:
        items.append((word, [p]))
    return ("WordGroup", items)


def run_statements(b, stmts, field):
    """interpret the constructor; returns the pattern stored in the field `field`"""
    result = None
    for st in stmts:
        v0 = st[0][1]
        names_in = {v for k, v in st if k == "id"}
        if v0 == "let":
            i = 1
            if st[i][1] == "mut":
                i += 1
            if st[i][0] != "id":
                raise Unknown("destructuring let")
            name = st[i][1]; i += 1
            if st[i][1] == ":":
                while st[i][1] != "=":
                    i += 1
            if st[i][1] != "=":
                raise Unknown("let without initialiser")
            ex = st[i + 1:-1] if st[-1][1] == ";" else st[i + 1:]
            try:
                ast = P(ex).expr()
            except Unknown:
                ast = ("other",)
            val = None
            try:
                val = b.pat(ast)
            except Unknown as e:
                try:
                    val = ("Strs", b.strs(ast))
                except Unknown:
                    if ast[0] == "str":
                        val = ("Str", ast[1])
                    else:
                        val = ("Opaque", str(e))
            b.env[name] = val
            continue
        if v0 in ("Self", "return") or (st[0][0] == "id" and len(st) > 1 and st[1][1] == "{" and v0[0].isupper()):
            toks = st[1:] if v0 == "return" else st
            if toks[0][1] == "Self" and toks[1][1] == "::":
                raise Unknown("constructor delegates to %s" % "".join(t[1] for t in toks[:4]))
            inner, _ = block_after(toks, 0)
            # fields: name [: expr] , ...
            fields, cur, depth = [], [], 0
            for tk in inner:
                if tk[0] == "op" and tk[1] in "([{":
                    depth += 1
                elif tk[0] == "op" and tk[1] in ")]}":
                    depth -= 1
                if depth == 0 and tk[1] == ",":
                    fields.append(cur); cur = []
                else:
                    cur.append(tk)
            if cur:
                fields.append(cur)
            for f in fields:
                if f and f[0][1] == field:
                    ex = f[2:] if len(f) > 1 and f[1][1] == ":" else f[:1]
                    result = b.pat(P(ex).expr())
            if result is None:
                raise Unknown("field `%s` not set by the struct literal" % field)
            if result[0] == "Opaque":
                raise Unknown(result[1])
            return result
        # NAME.add(..) / NAME.add_word(..) on a mutable pattern value
        if st[0][0] == "id" and st[0][1] in b.env and len(st) > 3 and st[1][1] == "." and st[2][1] in ("add", "add_word", "push"):
            name = st[0][1]
            cur = b.env[name]
            ast = P(st[:-1] if st[-1][1] == ";" else st).expr()
            a = ast[3]
            if cur[0] in ("All", "Either") and ast[2] in ("add", "push"):
                b.env[name] = (cur[0], cur[1] + [b.pat(a[0])])
            elif cur[0] == "WordGroup" and ast[2] == "add":
                try:
                    w = b.word(a[0])
                except Unknown:
                    w = None
                b.env[name] = wg_add(cur, w, b.pat(a[1]))
            elif cur[0] == "WordGroup" and ast[2] == "add_word":
                w = b.word(a[0])
                b.env[name] = wg_add(cur, w, ("Seq", [("ExactWord", w)]))
            else:
                raise Unknown("%s.%s on a %s" % (name, ast[2], cur[0]))
            continue
        if v0 == "for":
            # for X in Y { body }  with Y a literal array of strings (or a bound one)
            i = 1
            if st[i][0] != "id" or st[i + 1][1] != "in":
                raise Unknown("for loop with a pattern binding")
            var = st[i][1]
            j = i + 2
            k = j
            while st[k][1] != "{":
                k += 1
            try:
                items = b.strs(P(st[j:k]).expr())
            except Unknown:
                raise Unknown("for loop over a computed collection")
            body, _ = block_after(st, k)
            for it in items:
                b.env[var] = ("Str", it)
                r = run_statements(b, split_statements(body), field)
                if r is not None:
                    return r
            b.env.pop(var, None)
            continue
        touched = [n for n in names_in if n in b.env and b.env[n][0] in PATTERNISH]
        if touched:
            raise Unknown("statement `%s …` changes or moves %s in a way the translator does not follow"
                          % (" ".join(t[1] for t in st[:6]), ", ".join(sorted(touched))))
    return result


# ----------------------------------------------------------------------------- match_to_lint uses
def body_uses(body, param):
    """(uses, problems) of the token list of the body"""
    uses, problems = [], []
    n = len(body)

    def lit(ts):
        return ts and len(ts) == 1 and ts[0][0] == "num"

    i = 0
    while i < n:
        k, v = body[i]
        # indexing: ident [ ... ]   (not `vec![`, not `#[`)
        if k == "op" and v == "[" and i > 0 and (body[i - 1][0] == "id" or body[i - 1][1] in (")", "]")) and body[i - 1][1] not in ("in", "return", "mut"):
            depth, j = 0, i
            while True:
                if body[j][1] == "[" and body[j][0] == "op":
                    depth += 1
                elif body[j][1] == "]" and body[j][0] == "op":
                    depth -= 1
                    if depth == 0:
                        break
                j += 1
            inner = body[i + 1:j]
            on_param = body[i - 1] == ("id", param)
            txt = " ".join(t[1] for t in inner)
            if not on_param:
                problems.append("indexes `%s[%s]` (not the matched slice itself)" % (body[i - 1][1], txt))
            else:
                vals = [t[1] for t in inner]
                num = lambda t: int(re.match(r"\d+", t[1]).group(0))
                if lit(inner):
                    uses.append(("UIdx", num(inner[0])))
                elif len(inner) == 3 and inner[0][0] == "num" and inner[1][1] in ("..", "..=") and inner[2][0] == "num":
                    uses.append(("USlice", num(inner[0]), num(inner[2]) + (1 if inner[1][1] == "..=" else 0)))
                elif len(inner) == 2 and inner[0][0] == "num" and inner[1][1] == "..":
                    uses.append(("USliceFrom", num(inner[0])))
                elif len(inner) == 2 and inner[0][1] in ("..", "..=") and inner[1][0] == "num":
                    uses.append(("USlice", 0, num(inner[1]) + (1 if inner[0][1] == "..=" else 0)))
                elif len(inner) == 7 and vals[:5] == [param, ".", "len", "(", ")"] and vals[5] == "-" and inner[6][0] == "num":
                    uses.append(("ULenMinus", num(inner[6])))
                else:
                    problems.append("indexes the matched slice with a computed position `[%s]`" % txt)
            i = j + 1
            continue
        # match param.len() { n => .., _ => panic!/unreachable! }
        if v == "match" and [t[1] for t in body[i + 1:i + 6]] == [param, ".", "len", "(", ")"]:
            inner, after = block_after(body, i + 6)
            arms, depth, panics = [], 0, False
            for idx, tk in enumerate(inner):
                if tk[0] == "op" and tk[1] in "([{":
                    depth += 1
                elif tk[0] == "op" and tk[1] in ")]}":
                    depth -= 1
                if depth == 0 and tk[1] == "=>":
                    pat = inner[idx - 1]
                    if pat[0] == "num" and (idx < 2 or inner[idx - 2][1] in (",", "}", "|") or idx == 1):
                        arms.append(int(pat[1]))
                        # or-patterns n | m
                        b = idx - 2
                        while b >= 1 and inner[b][1] == "|" and inner[b - 1][0] == "num":
                            arms.append(int(inner[b - 1][1])); b -= 2
                    elif pat[1] == "_":
                        nxt = [t[1] for t in inner[idx + 1:idx + 3]]
                        if nxt[:1] and nxt[0] in ("panic", "unreachable", "unimplemented", "todo"):
                            panics = True
                    else:
                        problems.append("`match %s.len()` with an arm the translator does not read" % param)
            if panics:
                uses.append(("ULenIn", sorted(set(arms))))
                # the panic of this `_` arm is accounted for: blank it so that the scan below does not count it again
                for idx in range(i, after):
                    if body[idx][1] in ("panic", "unreachable", "unimplemented", "todo"):
                        body[idx] = ("id", "_accounted_")
            i += 1
            continue
        i += 1
    for idx, (k, v) in enumerate(body):
        if k == "id" and v in ("panic", "unreachable", "unimplemented", "todo", "assert", "assert_eq") and idx + 1 < n and body[idx + 1][1] == "!":
            problems.append("`%s!` in match_to_lint" % v)
        if k == "id" and v in ("unwrap", "expect") and idx > 0 and body[idx - 1][1] == ".":
            # .first().unwrap() / .last().unwrap() on the matched slice: a match is never empty (run_on_chunk: match_len != 0)
            back = [t[1] for t in body[max(0, idx - 7):idx]]
            if back[-6:] in ([param, ".", "first", "(", ")", "."], [param, ".", "last", "(", ")", "."]):
                continue
            problems.append("`.%s()` in match_to_lint" % v)
    return uses, problems


# ----------------------------------------------------------------------------- Coq output
def coq_text(s):
    return "(ch [%s])" % "; ".join(str(ord(c)) for c in s)


class Emit:
    def __init__(self):
        self.npred = 0

    def pat(self, p):
        k = p[0]
        if k == "Seq":
            return "PSeq [%s]" % "; ".join(self.pat(x) for x in p[1])
        if k == "ExactPhrase":
            return "PExactPhrase [%s]" % "; ".join(self.pat(x) for x in p[1])
        if k == "Either":
            return "PEither [%s]" % "; ".join(self.pat(x) for x in p[1])
        if k == "All":
            return "PAll [%s]" % "; ".join(self.pat(x) for x in p[1])
        if k == "Invert":
            return "PInvert (%s)" % self.pat(p[1])
        if k == "Repeat":
            return "PRepeat (%s) %d" % (self.pat(p[1]), p[2])
        if k == "Ws":
            return "PWhitespace"
        if k == "Any":
            return "PAny"
        if k == "Nominal":
            return "PNominal"
        if k == "AnyCap":
            return "PAnyCap %s" % coq_text(p[1])
        if k == "ExactWord":
            return "PExactWord %s" % coq_text(p[1])
        if k == "WordSet":
            return "PWordSet [%s]" % "; ".join(coq_text(w) for w in p[1])
        if k == "Pred":
            self.npred += 1
            return "PPred %d" % (self.npred - 1)
        if k == "FlagWord":
            return "PFlag F_WORD"
        if k == "Implies":
            return "PImpliesQuantity"
        if k == "IndefArticle":
            return "PIndefArticle"
        if k == "Split":
            return "PSplitCompound 0"
        if k == "WordGroup":
            items = []
            for w, ps in p[1]:
                if w is None:
                    raise Unknown("WordPatternGroup key is not a literal")
                items.append("(%s, PNaive [%s])" % (coq_text(w), "; ".join(self.pat(x) for x in ps)))
            return "PWordGroup [%s]" % "; ".join(items)
        raise Unknown("value %s is not a pattern" % k)


def coq_use(u):
    if u[0] == "ULenIn":
        return "ULenIn [%s]" % "; ".join(str(x) for x in u[1])
    return "%s %s" % (u[0], " ".join(str(x) for x in u[1:]))


def qs(s):
    return '"%s"' % s.replace('"', '""')


def generate(repo):
    seqsrc = open(os.path.join(repo, "harper-core/src/patterns/sequence_pattern.rs"), encoding="utf-8").read()
    qualities = set(re.findall(r"gen_then_from_is!\((\w+)\);", seqsrc))
    if len(qualities) < 5 or "pub fn then_whitespace" not in seqsrc or "RepeatingPattern::new(Box::new(pat), 0)" not in seqsrc:
        raise RuntimeError("rulebodies: sequence_pattern.rs no longer has the shape this module knows")
    root = os.path.join(repo, "harper-core/src/linting")
    classified, nothing, unclassified, count = [], [], [], 0
    for d, dirs, files in sorted(os.walk(root)):
        dirs.sort()
        for fn in sorted(files):
            if not fn.endswith(".rs"):
                continue
            path = os.path.join(d, fn)
            rel = os.path.relpath(path, repo)
            src = open(path, encoding="utf-8").read()
            cut = src.find("#[cfg(test)]")
            code = src if cut < 0 else src[:cut]
            if not re.search(r"\bPatternLinter\s+for\b", code):
                continue
            toks = lex(code)
            for i in range(len(toks) - 2):
                if not (toks[i][1] == "PatternLinter" and toks[i + 1][1] == "for"):
                    continue
                # back to `impl`
                rule = toks[i + 2][1]
                count += 1
                impl_body, _ = block_after(toks, i + 2)
                f = find_fn(impl_body, "match_to_lint")
                if f is None:
                    raise RuntimeError("rulebodies: no match_to_lint in impl PatternLinter for %s (%s)" % (rule, rel))
                # first parameter after &self
                j = f
                while impl_body[j][1] != "self":
                    j += 1
                param = impl_body[j + 2][1]
                mbody, _ = block_after(impl_body, j)
                uses, problems = body_uses(list(mbody), param)
                # which field does pattern() return?
                pf = find_fn(impl_body, "pattern")
                pbody, _ = block_after(impl_body, pf)
                m = re.search(r"self \. (\w+)", " ".join(t[1] for t in pbody))
                field = m.group(1) if m else None
                pattern, why = None, None
                try:
                    if field is None:
                        raise Unknown("pattern() does not return a field")
                    pattern = find_pattern(toks, rule, field, qualities)
                except Unknown as e:
                    why = str(e)
                if problems:
                    unclassified.append((rule, rel, "; ".join(sorted(set(problems)))))
                elif not uses:
                    nothing.append((rule, rel))
                elif pattern is None:
                    unclassified.append((rule, rel, "pattern not understood: " + why))
                else:
                    try:
                        classified.append((rule, rel, Emit().pat(pattern), uses))
                    except Unknown as e:
                        unclassified.append((rule, rel, "pattern not understood: " + str(e)))
    if count < 10:
        raise RuntimeError("rulebodies: only %d `impl PatternLinter for` sites found" % count)
    out = ["(* GENERATED by tools/tables/rulebodies.py from /repo — do not edit. *)",
           "Require Import Base Overlap TokenSeq Pattern C01Len.",
           "From Coq Require Import List String.", "Import ListNotations.", "Open Scope string_scope.", "",
           "(* rules whose pattern and whose literal uses of the matched slice the translator understands *)",
           "Definition rule_table : list rule_row := ["]
    out.append(";\n".join("  mkrule (* %s %s *) %s\n    (%s)\n    [%s]" % (r, f, coq_text(r), p, "; ".join(coq_use(u) for u in us))
                          for r, f, p, us in classified))
    out += ["].", "", "(* rules whose match_to_lint neither indexes nor slices anything and has no panic site *)",
            "Definition rules_nothing_to_check : list (string * string) := ["]
    out.append(";\n".join("  (%s, %s)" % (qs(r), qs(f)) for r, f in nothing))
    out += ["].", "", "(* rules the translator cannot classify: (rule, file, reason) *)",
            "Definition rules_unclassified : list (string * string * string) := ["]
    out.append(";\n".join("  (%s, %s, %s)" % (qs(r), qs(f), qs(w)) for r, f, w in unclassified))
    out += ["].", "", "Definition rule_impl_count : nat := %d." % count]
    return "\n".join(out) + "\n"


def find_pattern(toks, rule, field, qualities):
    """the constructor: `fn default() -> Self` of `impl Default for Rule`, following `Self::new()` once"""
    def ctor(name, inside):
        # inside = name of the impl the fn must be in: search `impl ... Rule {` / `impl Default for Rule {`
        for i in range(len(toks) - 1):
            if toks[i][1] == "impl":
                j = i
                while toks[j][1] != "{":
                    j += 1
                head = [t[1] for t in toks[i:j]]
                if rule not in head or "PatternLinter" in head:
                    continue
                body, _ = block_after(toks, j)
                f = find_fn(body, name)
                if f is not None:
                    # parameters must be empty
                    k = f + 2
                    if [t[1] for t in body[k:k + 2]] != ["(", ")"]:
                        raise Unknown("constructor %s takes parameters (the pattern is an argument of the rule)" % name)
                    fb, _ = block_after(body, k)
                    return fb
        return None
    body = ctor("default", None)
    if body is None:
        body = ctor("new", None)
    if body is None:
        raise Unknown("no parameterless constructor found")
    flat = " ".join(t[1] for t in body)
    if flat.strip() in ("Self :: new ( )", "Self :: new ( ) ;"):
        body = ctor("new", None)
        if body is None:
            raise Unknown("Self::new() not found")
    b = Builder(qualities)
    r = run_statements(b, split_statements(body), field)
    if r is None:
        raise Unknown("constructor does not end in a struct literal")
    return r
