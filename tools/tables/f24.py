"""f24 — the table behind theorem C06_f24_entries_not_one_word (coq/Properties/C06.v).

Source: corpus/C06/multi_token_entries.json — the entries of the curated dictionary (harper-core/dictionary.dict
expanded by affixes.json; ground truth Dictionary::words_iter) that Document::new_plain_english does NOT cut into
exactly one Word token when written alone.  The list is not a table of the Rust sources (the expansion is code), so
it is pinned from the other side: harness/src/bin/c06.rs tokenises EVERY curated entry in every run (both tiers) and
fails (`f24_table_differs`) unless the set of multi-token entries equals this list exactly; the Unicode flags written
here for the characters of the entries are compared with Rust's char methods (`A` cases of the correspondence).

What is checked against /repo here: every stem-like prefix of an entry must occur in dictionary.dict (an entry whose
first word / first hyphen part no dictionary line starts with cannot come from that file), and every entry must
contain a character that is not an ASCII letter (an all-letter ASCII word is one Word token by theorem
C06_simple_word_alone_*).  Raises on any other shape.

Phase 4 — the table is now ALSO derived from the sources: tools/tables/_c06dict.py rebuilds the curated dictionary
from harper-core/dictionary.dict + harper-core/affixes.json (a port of parse_word_list / Matcher / expand_marked_word /
WordMap::insert whose Rust shapes are re-checked verbatim).  Written beside the committed list:
  dict_word_count, dict_digest     size and FNV-1a digest of the rebuilt word list — the correspondence case `D` requires
                                   them to equal those of FstDictionary::curated().words_iter() (tie of the port);
  dict_nonsimple_entries           every rebuilt entry that is NOT a simple word (letters, or letters ' letters — the
                                   shapes theorem C06_simple_word_one_word proves to be one Word token).
Theorem C06_f24_table_from_dictionary (vm_compute) then says: the entries of dict_nonsimple_entries the model lexer does
not cut into exactly one Word token ARE the committed list f24_entries — so a change of dictionary.dict / affixes.json
that adds or removes a multi-token entry breaks a PROOF OBLIGATION (not only the harness comparison).  The harness
requires dict_nonsimple_entries to equal its own classification of words_iter (cases `M`, `NC`).  This module raises
when a committed entry is not among the rebuilt non-simple entries."""
import json, os, re, unicodedata, importlib.util

HERE = os.path.dirname(os.path.abspath(__file__))
LIST = os.path.join(HERE, "..", "..", "corpus", "C06", "multi_token_entries.json")


def _flags(c):
    cp = ord(c)
    if cp < 128:
        ws = cp in (9, 10, 11, 12, 13, 32)
        num = c.isdigit()
        alpha = c.isalpha()
        return (ws, num, alpha, alpha)
    cat = unicodedata.category(c)
    ws = c.isspace()
    num = cat in ("Nd", "Nl", "No")
    alpha = cat.startswith("L") or cat == "Nl"
    try:
        name = unicodedata.name(c)
    except ValueError:
        raise ValueError("f24: character U+%04X has no Unicode name" % cp)
    # is_english_lingual: alphabetic, not numeric, Latin script (char_ext.rs); the script is read off the name and the
    # result is compared with the implementation by the harness (A cases)
    ling = alpha and not num and not ws and name.startswith("LATIN ")
    return (ws, num, alpha, ling)


def _dictmod():
    spec = importlib.util.spec_from_file_location("_c06dict", os.path.join(HERE, "_c06dict.py"))
    mod = importlib.util.module_from_spec(spec)
    spec.loader.exec_module(mod)
    return mod


def _lingual(c):
    return _flags(c)[3]


def is_simple(w):
    """simple_word of C06WordsProofs.v: non-empty letters, or letters + one apostrophe (' or U+2019) + letters"""
    if w and all(_lingual(c) for c in w):
        return True
    idx = [i for i, c in enumerate(w) if c in "'\u2019"]
    if len(idx) != 1:
        return False
    a, b = w[:idx[0]], w[idx[0] + 1:]
    return bool(a) and bool(b) and all(_lingual(c) for c in a + b)


def _b(x):
    return "true" if x else "false"


def generate(repo):
    data = json.load(open(LIST, encoding="utf-8"))
    inputs = data.get("inputs")
    if not (isinstance(inputs, list) and len(inputs) == 1 and inputs[0].get("kind") == "multi_token_entries"):
        raise ValueError("f24: corpus/C06/multi_token_entries.json: unknown shape")
    entries = inputs[0]["entries"]
    if not entries or entries != sorted(set(entries)) or not all(isinstance(e, str) and e for e in entries):
        raise ValueError("f24: entries must be a sorted list of distinct non-empty strings")
    dict_path = os.path.join(repo, "harper-core", "dictionary.dict")
    stems = set()
    for line in open(dict_path, encoding="utf-8"):
        line = line.rstrip("\n")
        if not line or line.startswith("#"):
            continue
        stems.add(re.split(r"/", line, 1)[0].strip())
    if len(stems) < 10000:
        raise ValueError("f24: dictionary.dict: unexpected shape (%d stems)" % len(stems))
    for e in entries:
        if all(c.isascii() and c.isalpha() for c in e):
            raise ValueError("f24: %r is all ASCII letters: it cannot be a multi-token entry" % e)
        if not any(s and e.startswith(s[: max(1, min(len(s), len(e)) - 3)]) for s in _near(stems, e)):
            raise ValueError("f24: %r: no line of dictionary.dict it could come from" % e)
    dm = _dictmod()
    words, n_marked = dm.expand(repo)
    if len(set(words)) != len(words):
        raise ValueError("f24: the rebuilt dictionary lists a spelling twice")
    nonsimple = [w for w in words if not is_simple(w)]
    missing = [e for e in entries if e not in set(nonsimple)]
    if missing:
        raise ValueError("f24: committed multi-token entries that dictionary.dict + affixes.json do not produce "
                         "(or that are simple words): %r" % missing[:10])
    digest = dm.fnv1a64(words)
    alphabet = sorted(set(c for e in entries for c in e) | set(c for e in nonsimple for c in e) | set("0123456789"))
    out = []
    out.append("(* Tables_f24.v — GENERATED by tools/tables/f24.py from corpus/C06/multi_token_entries.json (the curated")
    out.append("   entries that are not one Word token when written alone; the harness re-derives that set from the")
    out.append("   implementation in every run and fails unless it equals this table); do not edit. *)")
    out.append("From Coq Require Import List NArith Bool.")
    out.append("Import ListNotations.")
    out.append("Local Open Scope N_scope.")
    out.append("")
    out.append("(* %d entries *)" % len(entries))
    out.append("Definition f24_entries : list (list N) :=")
    rows = ["  [" + "; ".join(str(ord(c)) for c in e) + "]" for e in entries]
    out.append("  [\n  " + ";\n  ".join(rows) + "\n  ].")
    out.append("")
    out.append("(* code point, (is_whitespace, is_numeric, is_alphabetic, is_english_lingual) for every character of the entries *)")
    out.append("Definition f24_alphabet : list (N * (bool * bool * bool * bool)) :=")
    arows = []
    for c in alphabet:
        ws, num, alpha, ling = _flags(c)
        arows.append("  (%d, (%s, %s, %s, %s))" % (ord(c), _b(ws), _b(num), _b(alpha), _b(ling)))
    out.append("  [\n  " + ";\n  ".join(arows) + "\n  ].")
    out.append("Definition f24_entry_count : nat := %d." % len(entries))
    out.append("")
    out.append("(* ---- derived from harper-core/dictionary.dict + harper-core/affixes.json by tools/tables/_c06dict.py ---- *)")
    out.append("(* %d marked words expand to %d canonical spellings (Dictionary::words_iter); FNV-1a 64 of the sorted list," % (n_marked, len(words)))
    out.append("   each word followed by a newline, UTF-8 *)")
    out.append("Definition dict_word_count : N := %d." % len(words))
    out.append("Definition dict_digest : N := %d." % digest)
    out.append("(* the %d spellings that are not simple words (letters, or letters ' letters) *)" % len(nonsimple))
    out.append("Definition dict_nonsimple_entries : list (list N) :=")
    rows = ["  [" + "; ".join(str(ord(c)) for c in e) + "]" for e in nonsimple]
    out.append("  [\n  " + ";\n  ".join(rows) + "\n  ].")
    out.append("Definition dict_nonsimple_count : nat := %d." % len(nonsimple))
    return "\n".join(out) + "\n"


def _near(stems, e):
    """candidate stems: the dictionary lines that share the entry's first three characters (cheap filter)"""
    head = e[:3]
    return [s for s in stems if s.startswith(head[: min(3, len(s))]) and s[:1] == e[:1]]
