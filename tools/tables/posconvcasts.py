"""posconvcasts — the integer casts of harper-ls/src/pos_conv.rs and the severity mapping of
harper-ls/src/config.rs that Model/C08DocState.v mirrors, re-read from the sources on every run.

 * index_to_position builds `Position { line: lines as u32, character: cols as u32 }` (usize -> u32:
   truncation modulo 2^32); position_to_index reads `position.line as usize` and
   `position.character as usize` (u32 -> usize: lossless on the 64-bit targets harper-ls is built for);
   there is NO other `as` cast in the non-test part of the file.  The width is read from
   tower-lsp's lsp_types::Position (fields `line: u32`, `character: u32`).
 * DiagnosticSeverity::to_lsp maps the variants Error, Warning, Information, Hint (declaration order) to
   lsp_types::DiagnosticSeverity::{ERROR, WARNING, INFORMATION, HINT} = 1..4 (LSP 3.17).
Raises when a source no longer has the shape it knows."""
import os, re, glob

LSP_NUM = {"ERROR": 1, "WARNING": 2, "INFORMATION": 3, "HINT": 4}


def strip_comments(code):
    return re.sub(r"//[^\n]*", "", code)


def fn_body(code, rx, rel):
    m = re.search(rx, code)
    if not m:
        raise RuntimeError("cannot find %s in %s" % (rx, rel))
    i = code.find("{", m.end() - 1)
    depth, j = 0, i
    while j < len(code):
        if code[j] == "{":
            depth += 1
        elif code[j] == "}":
            depth -= 1
            if depth == 0:
                break
        j += 1
    return code[i:j + 1]


def position_bits(repo):
    """width of lsp_types::Position::{line, character} in the lsp-types version pinned by Cargo.lock"""
    lock = open(os.path.join(repo, "Cargo.lock"), encoding="utf-8").read()
    vs = re.findall(r'name = "lsp-types"\nversion = "([^"]+)"', lock)
    if len(vs) != 1:
        raise RuntimeError("expected exactly one lsp-types in Cargo.lock, found %r" % vs)
    home = os.environ.get("CARGO_HOME", os.path.expanduser("~/.cargo"))
    cands = glob.glob(os.path.join(home, "registry", "src", "*", "lsp-types-" + vs[0], "src", "lib.rs"))
    if not cands:
        raise RuntimeError("lsp-types-%s sources not found in the cargo registry" % vs[0])
    code = strip_comments(open(cands[0], encoding="utf-8").read())
    m = re.search(r"pub struct Position\s*\{(.*?)\}", code, re.S)
    if not m:
        raise RuntimeError("lsp-types: struct Position not found")
    fields = dict(re.findall(r"pub (\w+): (\w+),", m.group(1)))
    if set(fields) != {"line", "character"}:
        raise RuntimeError("lsp-types: Position has fields %r" % fields)
    bits = {}
    for f, ty in fields.items():
        mm = re.fullmatch(r"u(\d+)", ty)
        if not mm:
            raise RuntimeError("lsp-types: Position.%s has type %s" % (f, ty))
        bits[f] = int(mm.group(1))
    return vs[0], bits


def generate(repo):
    rel = "harper-ls/src/pos_conv.rs"
    code = strip_comments(open(os.path.join(repo, rel), encoding="utf-8").read())
    code = code.split("#[cfg(test)]")[0]
    ver, bits = position_bits(repo)
    i2p = fn_body(code, r"fn index_to_position\(source: &\[char\], index: usize\) -> Position", rel)
    p2i = fn_body(code, r"fn position_to_index\(source: &\[char\], position: Position\) -> usize", rel)
    if not re.search(r"Position\s*\{\s*line: lines as u%d,\s*character: cols as u%d,?\s*\}" % (bits["line"], bits["character"]), i2p):
        raise RuntimeError("index_to_position no longer ends in Position { line: lines as u32, character: cols as u32 }")
    if not re.search(r"let lines = newline_indices\.len\(\);", i2p) or not re.search(r"let cols: usize =", i2p):
        raise RuntimeError("index_to_position: lines / cols are no longer usize values")
    casts_i2p = re.findall(r"(\w+(?:\.\w+)*) as (\w+)", i2p)
    if sorted(casts_i2p) != sorted([("lines", "u%d" % bits["line"]), ("cols", "u%d" % bits["character"])]):
        raise RuntimeError("index_to_position: unexpected casts %r" % casts_i2p)
    casts_p2i = sorted(set(re.findall(r"(\w+(?:\.\w+)*) as (\w+)", p2i)))
    if casts_p2i != [("position.character", "usize"), ("position.line", "usize")]:
        raise RuntimeError("position_to_index: unexpected casts %r" % casts_p2i)
    all_casts = re.findall(r"\bas (\w+)", re.sub(r"use [^;]*;", "", code))
    if len(all_casts) != len(casts_i2p) + len(re.findall(r"\bas (\w+)", p2i)):
        raise RuntimeError("pos_conv.rs has casts outside index_to_position / position_to_index: %r" % all_casts)

    rel2 = "harper-ls/src/config.rs"
    cfg = strip_comments(open(os.path.join(repo, rel2), encoding="utf-8").read())
    m = re.search(r"pub enum DiagnosticSeverity\s*\{(.*?)\}", cfg, re.S)
    if not m:
        raise RuntimeError("config.rs: enum DiagnosticSeverity not found")
    variants = re.findall(r"(\w+),", m.group(1))
    body = fn_body(cfg, r"pub fn to_lsp\(self\) -> tower_lsp::lsp_types::DiagnosticSeverity", rel2)
    arms = dict(re.findall(r"DiagnosticSeverity::(\w+) =>\s*\{?\s*tower_lsp::lsp_types::DiagnosticSeverity::(\w+)", body))
    if sorted(arms) != sorted(variants):
        raise RuntimeError("to_lsp: arms %r do not cover the variants %r" % (arms, variants))
    rows = []
    for k, v in enumerate(variants):
        if arms[v] not in LSP_NUM:
            raise RuntimeError("to_lsp: unknown LSP severity %s" % arms[v])
        rows.append((k, LSP_NUM[arms[v]], v))

    out = ["(* GENERATED by tools/tables/posconvcasts.py from /repo (and lsp-types %s) - do not edit. *)" % ver,
           "From Coq Require Import List Arith.", "Import ListNotations.", "",
           "(* pos_conv.rs:index_to_position ends in Position { line: lines as uN, character: cols as uN };",
           "   position_to_index widens position.line / position.character with `as usize`; no other cast *)",
           "Definition position_line_bits : nat := %d." % bits["line"],
           "Definition position_character_bits : nat := %d." % bits["character"], "",
           "(* config.rs:DiagnosticSeverity::to_lsp - (variant index in declaration order, LSP number): %s *)"
           % ", ".join("%s" % v for _, _, v in rows),
           "Definition severity_to_lsp_table : list (nat * nat) := [%s]." % "; ".join("(%d, %d)" % (k, n) for k, n, _ in rows)]
    return "\n".join(out) + "\n"
