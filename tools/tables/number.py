"""number — translates the data of harper-core/src/number.rs into coq/Model/Tables_number.v:
  * enum NumberSuffix (variant order),
  * NumberSuffix::from_chars   : the `match (chars[0], chars[1])` table,
  * NumberSuffix::to_chars     : one row per variant,
  * NumberSuffix::correct_suffix_for : the three early-return guards (recognised verbatim), the
    `if let LO..=HI = integer % M` teens guard and the `match integer % D` rows.
and the two facts of the rule body (linting/correct_number_suffix.rs) and of condense_number_suffixes
(document.rs) that the model hard-wires: the suffix span expression and the `len() != 2` guard.
For the lexer path of Model/Number.v it also emits Punctuation::from_char (+ Currency::from_char) reduced to
the three classes the model distinguishes (apostrophe / period / other), the quote characters of lex_quote,
the float characters of lex_number, the hostname character class, and re-checks verbatim the dispatch order
of lex_token, the pass order of Document::parse and the contraction pattern.
Raises when a shape is not recognised (the check then reports a broken tie)."""
import os, re


def strip_tests(src):
    i = src.find("#[cfg(test)]")
    return src if i < 0 else src[:i]


def strip_comments(src):
    return re.sub(r"//[^\n]*", "", src)


def body_of(src, header_re):
    """text between the braces of the first item whose header matches header_re"""
    m = re.search(header_re, src)
    if not m:
        raise ValueError("cannot find %r" % header_re)
    i = src.index("{", m.end() - 1)
    depth, j = 0, i
    while j < len(src):
        if src[j] == "{":
            depth += 1
        elif src[j] == "}":
            depth -= 1
            if depth == 0:
                return src[i + 1:j]
        j += 1
    raise ValueError("unbalanced braces after %r" % header_re)


CHAR_RE = r"'(?:\\u\{[0-9A-Fa-f]+\}|\\.|[^'\\])'"
_ESC = {"n": 10, "t": 9, "r": 13, "0": 0, "\\": 92, "'": 39, '"': 34}


def char_lit(tok):
    body = tok[1:-1]
    if body.startswith("\\u{"):
        return int(body[3:-1], 16)
    if body.startswith("\\"):
        if len(body) != 2 or body[1] not in _ESC:
            raise ValueError("unknown escape " + tok)
        return _ESC[body[1]]
    if len(body) != 1:
        raise ValueError("bad char literal " + tok)
    return ord(body)


def fn_body(src, name):
    """body of `fn name`, braces inside char literals not counted"""
    m = re.search(r"fn\s+%s\b[^{]*\{" % re.escape(name), src)
    if not m:
        raise ValueError("fn %s not found" % name)
    i = j = m.end()
    depth = 1
    while depth > 0:
        if j >= len(src):
            raise ValueError("unbalanced body of " + name)
        mm = re.match(CHAR_RE, src[j:])
        if mm:
            j += mm.end()
            continue
        if src[j] == "{":
            depth += 1
        elif src[j] == "}":
            depth -= 1
        j += 1
    return src[i:j - 1]


EXPECTED_LEXERS = ["lex_regexish", "lex_punctuation", "lex_tabs", "lex_spaces", "lex_newlines", "lex_plural_digit",
                   "lex_hex_number", "lex_long_decade", "lex_number", "lex_url", "lex_email_address",
                   "lex_hostname_token", "lex_word", "lex_catch"]
# dcfd71f: condense_number_suffixes runs before condense_contractions (Number.doc_tokens follows this order)
EXPECTED_PASSES = ["condense_spaces", "condense_newlines", "newlines_to_breaks", "condense_number_suffixes",
                   "condense_contractions", "condense_dotted_initialisms", "condense_ellipsis", "condense_latin",
                   "match_quotes", "articles_imply_nouns"]


def lexer_tables(repo):
    """-> (punct rows [(cp, class)], quote chars, float extra chars)"""
    core = os.path.join(repo, "harper-core/src")
    rd = lambda rel: strip_tests(open(os.path.join(core, rel), encoding="utf-8").read())
    punct_src, cur_src, lex_src, host_src, doc_src = rd("punctuation.rs"), rd("currency.rs"), rd("lexing/mod.rs"), rd("lexing/hostname.rs"), rd("document.rs")
    fc = fn_body(punct_src, "from_char")
    rows = [(char_lit(m.group(1)), m.group(2)) for m in re.finditer(r"(%s)\s*=>\s*Punctuation::(\w+)\s*," % CHAR_RE, fc)]
    if not re.search(r"_\s*=>\s*Punctuation::Currency\(Currency::from_char\(c\)\?\)", fc):
        raise ValueError("Punctuation::from_char: fall-through arm is no longer Currency::from_char(c)?")
    if len(re.findall(r"=>", fc)) != len(rows) + 1:
        raise ValueError("Punctuation::from_char: unrecognised arms")
    cb = fn_body(cur_src, "from_char")
    crow = [char_lit(m.group(1)) for m in re.finditer(r"(%s)\s*=>\s*Self::\w+\s*," % CHAR_RE, cb)]
    if len(re.findall(r"=>", cb)) != len(crow) + 1 or not re.search(r"_\s*=>\s*return None", cb):
        raise ValueError("Currency::from_char: unrecognised arms")
    cls = {"Apostrophe": "PApostrophe", "Period": "PPeriod"}
    prow = [(cp, cls.get(v, "POther")) for cp, v in rows] + [(cp, "POther") for cp in crow]
    if len({cp for cp, _ in prow}) != len(prow):
        raise ValueError("punctuation table has a duplicate character")
    q = fn_body(lex_src, "lex_quote")
    m = re.search(r"if\s+((?:c\s*==\s*%s\s*(?:\|\|)?\s*)+)\{" % CHAR_RE, q)
    if not m:
        raise ValueError("lex_quote: condition not recognised")
    quotes = [char_lit(t) for t in re.findall(CHAR_RE, m.group(1))]
    b = fn_body(lex_src, "lex_number")
    m = re.search(r"position\(\|c\|\s*!\(c\.is_ascii_digit\(\)\s*\|\|\s*matches!\(c,\s*(.*?)\)\)\)", b, re.S)
    if not m:
        raise ValueError("lex_number: the bound on the candidate is not recognised")
    floats = [char_lit(t) for t in re.findall(CHAR_RE, m.group(1))]
    # b5c1992: only a FINITE parse is accepted (Number.longest_float: parses_f64 && finite_f64)
    for needle in ["if !source[0].is_numeric() {", "if let Some(n) = s.parse::<f64>().ok().filter(|n| n.is_finite()) {", "s.pop()", "next_index: s.len(),", "let mut s: String = source[0..end + 1].iter().collect();"]:
        if needle not in b:
            raise ValueError("lex_number: expected %r" % needle)
    if len(re.findall(r"parse::<f64>", b)) != 1:
        raise ValueError("lex_number: more than one f64 parse")
    # 7202fd4: lex_plural_digit tests its first character with is_ascii_alphanumeric and the look-ahead behind
    # the `s` with char::is_alphanumeric (Number.lex_plural_digit: is_ascii_alnum c0 / u_alnum U x)
    pd = re.sub(r"\s+", " ", strip_comments(fn_body(lex_src, "lex_plural_digit")))
    for needle in ["if src.is_empty() || !src[i].is_ascii_alphanumeric() { return None; }",
                   "if l > i && src[i] == '\\'' { i += 1; }",
                   "if l > i && src[i] == 's' { i += 1; if l == i || !src[i].is_alphanumeric() { return Some(FoundToken { token: TokenKind::Word(None), next_index: i, }); } } None"]:
        if needle not in pd:
            raise ValueError("lex_plural_digit: expected %r" % needle)
    if not re.search(r"'A'\.\.='Z' \| 'a'\.\.='z' \| '0'\.\.='9' \| '-'", fn_body(host_src, "lex_hostname")):
        raise ValueError("lex_hostname character class changed")
    b = fn_body(lex_src, "lex_token")
    m = re.search(r"let lexers = \[(.*?)\];", b, re.S)
    if not m:
        raise ValueError("lex_token: lexer list not found")
    names = [re.sub(r"//.*", "", l).strip().rstrip(",") for l in m.group(1).split("\n")]
    names = [n for n in names if n]
    if names != EXPECTED_LEXERS:
        raise ValueError("lex_token dispatch order changed: %r" % names)
    passes = re.findall(r"self\.(\w+)\(\);", fn_body(doc_src, "parse"))
    if passes != EXPECTED_PASSES:
        raise ValueError("Document::parse pass order changed: %r" % passes)
    b = fn_body(doc_src, "uncached_contraction_pattern")
    if re.sub(r"\s", "", b) != "Lrc::new(SequencePattern::default().then_any_word().then_apostrophe().then_any_word(),)":
        raise ValueError("contraction pattern not recognised")
    return prow, quotes, floats


def generate(repo):
    src = strip_comments(strip_tests(open(os.path.join(repo, "harper-core/src/number.rs"), encoding="utf-8").read()))
    # ---- enum
    enum = body_of(src, r"pub enum NumberSuffix\s*\{")
    variants = re.findall(r"^\s*(\w+),\s*$", re.sub(r"#\[[^\]]*\]", "", enum), re.M)
    if sorted(variants) != ["Nd", "Rd", "St", "Th"]:
        raise ValueError("NumberSuffix variants changed: %r" % variants)
    # ---- from_chars
    fc = body_of(src, r"pub fn from_chars\(chars: &\[char\]\) -> Option<Self>\s*\{")
    if not re.search(r"if chars\.len\(\) < 2\s*\{\s*return None;\s*\}", fc):
        raise ValueError("from_chars: length guard `chars.len() < 2` not found")
    m = re.search(r"match \(chars\[0\], chars\[1\]\)\s*\{(.*)\}", fc, re.S)
    if not m:
        raise ValueError("from_chars: `match (chars[0], chars[1])` not found")
    rows, seen_default = [], False
    for line in m.group(1).split("\n"):
        line = line.strip()
        if not line:
            continue
        r = re.fullmatch(r"\('(.)', '(.)'\) => Some\(NumberSuffix::(\w+)\),", line)
        if r:
            if seen_default:
                raise ValueError("from_chars: row after the default arm")
            if r.group(3) not in variants:
                raise ValueError("from_chars: unknown variant " + r.group(3))
            rows.append((ord(r.group(1)), ord(r.group(2)), r.group(3)))
        elif re.fullmatch(r"_ => None,", line):
            seen_default = True
        else:
            raise ValueError("from_chars: unrecognised arm %r" % line)
    if not seen_default or not rows:
        raise ValueError("from_chars: no rows / no default arm")
    # ---- to_chars
    tc = body_of(src, r"pub fn to_chars\(self\) -> Vec<char>\s*\{")
    to_rows = {}
    for r in re.finditer(r"NumberSuffix::(\w+) => vec!\[((?:'.',?\s*)+)\],", tc):
        to_rows[r.group(1)] = [ord(c) for c in re.findall(r"'(.)'", r.group(2))]
    if sorted(to_rows) != sorted(variants):
        raise ValueError("to_chars: rows do not cover the variants: %r" % to_rows)
    # ---- correct_suffix_for
    cs = body_of(src, r"pub fn correct_suffix_for\(number: impl Into<f64>\) -> Option<Self>\s*\{")
    flat = re.sub(r"\s+", " ", cs)
    if "if number < 0.0 || number - number.floor() > f64::EPSILON || number > u64::MAX as f64 { return None; }" not in flat:
        raise ValueError("correct_suffix_for: the three early-return guards changed shape")
    if "let integer = number as u64;" not in flat:
        raise ValueError("correct_suffix_for: `let integer = number as u64` not found")
    t = re.search(r"if let (\d+)\.\.=(\d+) = integer % (\d+) \{ return Some\(Self::(\w+)\); \}", flat)
    if not t:
        raise ValueError("correct_suffix_for: teens guard not recognised")
    lo, hi, tmod, tsuf = int(t.group(1)), int(t.group(2)), int(t.group(3)), t.group(4)
    if flat.index("if let") > flat.index("match integer %"):
        raise ValueError("correct_suffix_for: teens guard must precede the digit match")
    d = re.search(r"match integer % (\d+) \{(.*?)\}", flat)
    if not d:
        raise ValueError("correct_suffix_for: digit match not recognised")
    dmod = int(d.group(1))
    drows, arms = [], [a.strip() for a in d.group(2).split(",") if a.strip()]
    for a in arms:
        r = re.fullmatch(r"(\d+) => Some\(Self::(\w+)\)", a)
        if r:
            drows.append((int(r.group(1)), r.group(2)))
        elif a != "_ => None":
            raise ValueError("correct_suffix_for: unrecognised arm %r" % a)
    if arms[-1] != "_ => None":
        raise ValueError("correct_suffix_for: default arm is not last")
    for _, v in drows + [(0, tsuf)]:
        if v not in variants:
            raise ValueError("unknown variant " + v)
    # ---- the rule body and the condense guard (hard-wired in Number.v; recognised verbatim here)
    rule = strip_comments(strip_tests(open(os.path.join(repo, "harper-core/src/linting/correct_number_suffix.rs"), encoding="utf-8").read()))
    rflat = re.sub(r"\s+", " ", rule)
    for needle in ["for number_tok in document.iter_numbers() {",
                   "let Some(suffix_span) = Span::new_with_len(number_tok.span.end, 2).pulled_by(2) else { continue; };",
                   "if let TokenKind::Number(Number { value, suffix: Some(suffix), .. }) = number_tok.kind {",
                   "if let Some(correct_suffix) = NumberSuffix::correct_suffix_for(value) {",
                   "if suffix != correct_suffix {",
                   "span: suffix_span,",
                   "suggestions: vec![Suggestion::ReplaceWith(correct_suffix.to_chars())],"]:
        if needle not in rflat:
            raise ValueError("correct_number_suffix.rs: expected %r" % needle)
    doc = strip_comments(open(os.path.join(repo, "harper-core/src/document.rs"), encoding="utf-8").read())
    cn = re.sub(r"\s+", " ", body_of(doc, r"fn condense_number_suffixes\(&mut self\)\s*\{"))
    for needle in ["if self.tokens.len() < 2 { return; }",
                   "for idx in 0..self.tokens.len() - 1 {",
                   "if let (TokenKind::Number(..), TokenKind::Word(..)) = (&a.kind, &b.kind) {",
                   "if b.span.len() != 2 { continue; }",
                   "NumberSuffix::from_chars(self.get_span_content(&b.span))",
                   "self.condense_indices(&replace_starts, 2);"]:
        if needle not in cn:
            raise ValueError("document.rs condense_number_suffixes: expected %r" % needle)

    # condense_indices (Number.condense_indices: ci_spans, the first chunk, ci_mid, the last chunk; C17_lint_list runs it
    # with any number of merges): the whole body, verbatim up to white space
    ci = re.sub(r"\s+", " ", body_of(doc, r"fn condense_indices\(&mut self, indices: &\[usize\], stretch_len: usize\)\s*\{")).strip()
    ci_expected = ("for idx in indices { let end_tok = self.tokens[idx + stretch_len - 1].clone(); "
                   "let start_tok = &mut self.tokens[*idx]; start_tok.span.end = end_tok.span.end; } "
                   "let old = self.tokens.clone(); self.tokens.clear(); "
                   "self.tokens .extend_from_slice(&old[0..indices.first().copied().unwrap_or(indices.len())]); "
                   "let mut iter = indices.iter().peekable(); "
                   "while let (Some(a_idx), b) = (iter.next(), iter.peek()) { self.tokens.push(old[*a_idx].clone()); "
                   "if let Some(b_idx) = b { self.tokens .extend_from_slice(&old[a_idx + stretch_len..**b_idx]); } } "
                   "self.tokens.extend_from_slice( &old[indices .last() .map(|v| v + stretch_len) .unwrap_or(indices.len())..], );")
    if ci != ci_expected:
        raise ValueError("document.rs condense_indices: the body is not the one Number.condense_indices models: %r" % ci)

    # ---- the passes after condense_dotted_initialisms (Model/C17Later.v): pattern constants + verbatim bodies
    flat = lambda name: re.sub(r"\s+", " ", fn_body(doc, name)).strip()
    lat = re.sub(r"\s", "", fn_body(doc, "uncached_latin_pattern"))
    m = re.fullmatch(r'Lrc::new\(EitherPattern::new\(vec!\[Box::new\(SequencePattern::default\(\)\.then\(WordSet::new\(&\[((?:"[a-z]+",?)+)\]\)\)\.then_period\(\),\),'
                     r'Box::new\(SequencePattern::aco\("([a-z]+)"\)\.then_whitespace\(\)\.t_aco\("([a-z]+)"\)\.then_period\(\),\),\]\)\)', lat)
    if not m:
        raise ValueError("document.rs uncached_latin_pattern: shape not recognised: %r" % lat)
    latin_words = re.findall(r'"([a-z]+)"', m.group(1))
    latin_first, latin_second = m.group(2), m.group(3)
    m = re.fullmatch(r"let period = SequencePattern::default\(\)\.then_period\(\); Lrc::new\(RepeatingPattern::new\(Box::new\(period\), (\d+)\)\)",
                     flat("uncached_ellipsis_pattern"))
    if not m:
        raise ValueError("document.rs uncached_ellipsis_pattern: shape not recognised")
    ellipsis_min = int(m.group(1))
    later_expected = {
        "condense_pattern": "let matches = pattern.find_all_matches_in_doc(self); let mut remove_indices = VecDeque::with_capacity(matches.len()); "
                            "for m in matches { remove_indices.extend(m.start + 1..m.end); self.tokens[m.start].span = self.tokens[m.into_iter()].span().unwrap(); "
                            "edit(&mut self.tokens[m.start]); } self.tokens.remove_indices(remove_indices);",
        "condense_ellipsis": "let pattern = Self::ELLIPSIS_PATTERN.with(|v| v.clone()); self.condense_pattern(&pattern, |tok| { tok.kind = TokenKind::Punctuation(Punctuation::Ellipsis) });",
        "condense_latin": "self.condense_pattern(&Self::LATIN_PATTERN.with(|v| v.clone()), |_| {})",
        "condense_contractions": "let pattern = Self::CONTRACTION_PATTERN.with(|v| v.clone()); self.condense_pattern(&pattern, |_| {});",
        # the two passes that are the identity on the token abstraction of Number.v (they write Quote::twin_loc and
        # Word metadata only, members Number.kind does not carry):
        "match_quotes": "let quote_indices: Vec<usize> = self.tokens.iter_quote_indices().collect(); for i in 0..quote_indices.len() / 2 { "
                        "let a_i = quote_indices[i * 2]; let b_i = quote_indices[i * 2 + 1]; { let a = self.tokens[a_i].kind.as_mut_quote().unwrap(); a.twin_loc = Some(b_i); } "
                        "{ let b = self.tokens[b_i].kind.as_mut_quote().unwrap(); b.twin_loc = Some(a_i); } }",
        "articles_imply_nouns": "let pattern = Self::ARTICLE_PATTERN.with(|v| v.clone()); for m in pattern.find_all_matches_in_doc(self) { "
                                "if let TokenKind::Word(Some(metadata)) = &mut self.tokens[m.start + 2].kind { metadata.noun = None; metadata.verb = None; } }",
    }
    for name, want in later_expected.items():
        if flat(name) != want:
            raise ValueError("document.rs %s: the body is not the one Model/C17Later.v models: %r" % (name, flat(name)))
    tail = "self.articles_imply_nouns(); for token in self.tokens.iter_mut() { if let TokenKind::Word(meta) = &mut token.kind { " \
           "let word_source = token.span.get_content(&self.source); let found_meta = dictionary.get_word_metadata(word_source); *meta = found_meta.cloned() } }"
    if not flat("parse").endswith(tail):
        raise ValueError("document.rs Document::parse: the metadata loop is not the one C17Later.meta_loop models")
    pat_src = strip_comments(strip_tests(open(os.path.join(repo, "harper-core/src/patterns/mod.rs"), encoding="utf-8").read()))
    fam = re.sub(r"\s+", " ", fn_body(pat_src, "find_all_matches")).strip()
    fam_expected = ("let mut found = Vec::new(); for i in 0..tokens.len() { let len = self.matches(&tokens[i..], source); if len > 0 { found.push(Span::new_with_len(i, len)); } } "
                    "if found.len() < 2 { return found; } let mut remove_indices = VecDeque::new(); for i in 0..found.len() - 1 { let cur = &found[i]; let next = &found[i + 1]; "
                    "if cur.overlaps_with(*next) { remove_indices.push_back(i + 1); } } found.remove_indices(remove_indices); found")
    if fam_expected not in fam:
        raise ValueError("patterns/mod.rs find_all_matches: the body is not the one C17Later.find_all_matches_g models: %r" % fam)

    def coq_list(items):
        return "[" + "; ".join(items) + "]"

    out = []
    out.append("(* GENERATED by tools/tables/number.py from harper-core/src/number.rs on every `./check C17`.")
    out.append("   Do not edit: theorems over these tables are re-checked against what the code says now. *)")
    out.append("Require Import Base.")
    out.append("")
    out.append("(* enum NumberSuffix, declaration order *)")
    out.append("Inductive suffix := " + " | ".join(variants) + ".")
    out.append("Definition suffix_eqb (a b : suffix) : bool :=")
    out.append("  match a, b with " + " | ".join("%s, %s => true" % (v, v) for v in variants) + " | _, _ => false end.")
    out.append("")
    out.append("(* NumberSuffix::from_chars: rows of `match (chars[0], chars[1])`, in source order; default arm = None *)")
    out.append("Definition from_chars_table : list (N * N * suffix) :=")
    out.append("  " + coq_list("(%d, %d, %s)" % r for r in rows) + "%N.")
    out.append("")
    out.append("(* NumberSuffix::to_chars *)")
    out.append("Definition to_chars (s : suffix) : list N :=")
    out.append("  match s with " + " | ".join("%s => %s%%N" % (v, coq_list(str(c) for c in to_rows[v])) for v in variants) + " end.")
    out.append("")
    out.append("(* NumberSuffix::correct_suffix_for: `if let LO..=HI = integer % M { return Some(S) }`, then `match integer % D` *)")
    out.append("Definition teens_lo : N := %d%%N." % lo)
    out.append("Definition teens_hi : N := %d%%N." % hi)
    out.append("Definition teens_modulus : N := %d%%N." % tmod)
    out.append("Definition teens_suffix : suffix := %s." % tsuf)
    out.append("Definition digit_modulus : N := %d%%N." % dmod)
    out.append("Definition digit_table : list (N * suffix) :=")
    out.append("  " + coq_list("(%d, %s)" % r for r in drows) + "%N.")
    out.append("")
    prow, quotes, floats = lexer_tables(repo)
    out.append("(* Punctuation::from_char (with its Currency::from_char fall-through), reduced to the classes Number.v")
    out.append("   distinguishes; rows in source order; any other character is not punctuation *)")
    out.append("Inductive pclass := PApostrophe | PPeriod | POther.")
    out.append("Definition punct_table : list (N * pclass) :=")
    out.append("  " + coq_list("(%d, %s)" % r for r in prow) + "%N.")
    out.append("(* lex_quote *)")
    out.append("Definition quote_chars : list N := " + coq_list(str(c) for c in quotes) + "%N.")
    out.append("(* lex_number: besides ASCII digits, the characters a candidate may contain *)")
    out.append("Definition float_extra_chars : list N := " + coq_list(str(c) for c in floats) + "%N.")
    out.append("(* Document::uncached_latin_pattern / uncached_ellipsis_pattern (Model/C17Later.v): WordSet words, the two")
    out.append("   any-capitalisation words of `et al.`, RepeatingPattern's required repetitions *)")
    out.append("Definition latin_wordset : list (list N) := " + coq_list(coq_list(str(ord(c)) for c in w) for w in latin_words) + "%N.")
    out.append("Definition latin_first : list N := " + coq_list(str(ord(c)) for c in latin_first) + "%N.")
    out.append("Definition latin_second : list N := " + coq_list(str(ord(c)) for c in latin_second) + "%N.")
    out.append("Definition ellipsis_min_repetitions : nat := %d." % ellipsis_min)
    out.append("(* checked verbatim by the translator: the bodies of condense_pattern, condense_ellipsis, condense_latin,")
    out.append("   condense_contractions, match_quotes, articles_imply_nouns, the metadata loop of Document::parse and")
    out.append("   PatternExt::find_all_matches *)")
    out.append("(* checked verbatim by the translator: lex_token tries " + ", ".join(EXPECTED_LEXERS) + " in this order;")
    out.append("   Document::parse runs " + ", ".join(EXPECTED_PASSES) + " in this order;")
    out.append("   the contraction pattern is any_word, apostrophe, any_word; lex_hostname accepts [A-Za-z0-9-] *)")
    out.append("")
    return "\n".join(out)
