"""number — translates the data of harper-core/src/number.rs into coq/Model/Tables_number.v:
  * enum NumberSuffix (variant order),
  * NumberSuffix::from_chars   : the `match (chars[0], chars[1])` table,
  * NumberSuffix::to_chars     : one row per variant,
  * NumberSuffix::correct_suffix_for : the three early-return guards (recognised verbatim), the
    `if let LO..=HI = integer % M` teens guard and the `match integer % D` rows.
and the two facts of the rule body (linting/correct_number_suffix.rs) and of condense_number_suffixes
(document.rs) that the model hard-wires: the suffix span expression and the `len() != 2` guard.
Raises when a shape is not recognised (the check then reports a broken tie)."""
import os, re


def strip_tests(src):
    i = src.find("#[cfg(test)]")
    return src if i < 0 else src[:i]


def strip_comments(src):
    return re.sub(r"//[^\n]*", "", src)


def body_of(src, header_re):
    """text between the braces of the first item whose header matches header_re"""
    m = re.search(header_re, src)
    if not m:
        raise ValueError("cannot find %r" % header_re)
    i = src.index("{", m.end() - 1)
    depth, j = 0, i
    while j < len(src):
        if src[j] == "{":
            depth += 1
        elif src[j] == "}":
            depth -= 1
            if depth == 0:
                return src[i + 1:j]
        j += 1
    raise ValueError("unbalanced braces after %r" % header_re)


def generate(repo):
    src = strip_comments(strip_tests(open(os.path.join(repo, "harper-core/src/number.rs"), encoding="utf-8").read()))
    # ---- enum
    enum = body_of(src, r"pub enum NumberSuffix\s*\{")
    variants = re.findall(r"^\s*(\w+),\s*$", re.sub(r"#\[[^\]]*\]", "", enum), re.M)
    if sorted(variants) != ["Nd", "Rd", "St", "Th"]:
        raise ValueError("NumberSuffix variants changed: %r" % variants)
    # ---- from_chars
    fc = body_of(src, r"pub fn from_chars\(chars: &\[char\]\) -> Option<Self>\s*\{")
    if not re.search(r"if chars\.len\(\) < 2\s*\{\s*return None;\s*\}", fc):
        raise ValueError("from_chars: length guard `chars.len() < 2` not found")
    m = re.search(r"match \(chars\[0\], chars\[1\]\)\s*\{(.*)\}", fc, re.S)
    if not m:
        raise ValueError("from_chars: `match (chars[0], chars[1])` not found")
    rows, seen_default = [], False
    for line in m.group(1).split("\n"):
        line = line.strip()
        if not line:
            continue
        r = re.fullmatch(r"\('(.)', '(.)'\) => Some\(NumberSuffix::(\w+)\),", line)
        if r:
            if seen_default:
                raise ValueError("from_chars: row after the default arm")
            if r.group(3) not in variants:
                raise ValueError("from_chars: unknown variant " + r.group(3))
            rows.append((ord(r.group(1)), ord(r.group(2)), r.group(3)))
        elif re.fullmatch(r"_ => None,", line):
            seen_default = True
        else:
            raise ValueError("from_chars: unrecognised arm %r" % line)
    if not seen_default or not rows:
        raise ValueError("from_chars: no rows / no default arm")
    # ---- to_chars
    tc = body_of(src, r"pub fn to_chars\(self\) -> Vec<char>\s*\{")
    to_rows = {}
    for r in re.finditer(r"NumberSuffix::(\w+) => vec!\[((?:'.',?\s*)+)\],", tc):
        to_rows[r.group(1)] = [ord(c) for c in re.findall(r"'(.)'", r.group(2))]
    if sorted(to_rows) != sorted(variants):
        raise ValueError("to_chars: rows do not cover the variants: %r" % to_rows)
    # ---- correct_suffix_for
    cs = body_of(src, r"pub fn correct_suffix_for\(number: impl Into<f64>\) -> Option<Self>\s*\{")
    flat = re.sub(r"\s+", " ", cs)
    if "if number < 0.0 || number - number.floor() > f64::EPSILON || number > u64::MAX as f64 { return None; }" not in flat:
        raise ValueError("correct_suffix_for: the three early-return guards changed shape")
    if "let integer = number as u64;" not in flat:
        raise ValueError("correct_suffix_for: `let integer = number as u64` not found")
    t = re.search(r"if let (\d+)\.\.=(\d+) = integer % (\d+) \{ return Some\(Self::(\w+)\); \}", flat)
    if not t:
        raise ValueError("correct_suffix_for: teens guard not recognised")
    lo, hi, tmod, tsuf = int(t.group(1)), int(t.group(2)), int(t.group(3)), t.group(4)
    if flat.index("if let") > flat.index("match integer %"):
        raise ValueError("correct_suffix_for: teens guard must precede the digit match")
    d = re.search(r"match integer % (\d+) \{(.*?)\}", flat)
    if not d:
        raise ValueError("correct_suffix_for: digit match not recognised")
    dmod = int(d.group(1))
    drows, arms = [], [a.strip() for a in d.group(2).split(",") if a.strip()]
    for a in arms:
        r = re.fullmatch(r"(\d+) => Some\(Self::(\w+)\)", a)
        if r:
            drows.append((int(r.group(1)), r.group(2)))
        elif a != "_ => None":
            raise ValueError("correct_suffix_for: unrecognised arm %r" % a)
    if arms[-1] != "_ => None":
        raise ValueError("correct_suffix_for: default arm is not last")
    for _, v in drows + [(0, tsuf)]:
        if v not in variants:
            raise ValueError("unknown variant " + v)
    # ---- the rule body and the condense guard (hard-wired in Number.v; recognised verbatim here)
    rule = strip_comments(strip_tests(open(os.path.join(repo, "harper-core/src/linting/correct_number_suffix.rs"), encoding="utf-8").read()))
    rflat = re.sub(r"\s+", " ", rule)
    for needle in ["for number_tok in document.iter_numbers() {",
                   "let Some(suffix_span) = Span::new_with_len(number_tok.span.end, 2).pulled_by(2) else { continue; };",
                   "if let TokenKind::Number(Number { value, suffix: Some(suffix), .. }) = number_tok.kind {",
                   "if let Some(correct_suffix) = NumberSuffix::correct_suffix_for(value) {",
                   "if suffix != correct_suffix {",
                   "span: suffix_span,",
                   "suggestions: vec![Suggestion::ReplaceWith(correct_suffix.to_chars())],"]:
        if needle not in rflat:
            raise ValueError("correct_number_suffix.rs: expected %r" % needle)
    doc = strip_comments(open(os.path.join(repo, "harper-core/src/document.rs"), encoding="utf-8").read())
    cn = re.sub(r"\s+", " ", body_of(doc, r"fn condense_number_suffixes\(&mut self\)\s*\{"))
    for needle in ["if self.tokens.len() < 2 { return; }",
                   "for idx in 0..self.tokens.len() - 1 {",
                   "if let (TokenKind::Number(..), TokenKind::Word(..)) = (&a.kind, &b.kind) {",
                   "if b.span.len() != 2 { continue; }",
                   "NumberSuffix::from_chars(self.get_span_content(&b.span))",
                   "self.condense_indices(&replace_starts, 2);"]:
        if needle not in cn:
            raise ValueError("document.rs condense_number_suffixes: expected %r" % needle)

    def coq_list(items):
        return "[" + "; ".join(items) + "]"

    out = []
    out.append("(* GENERATED by tools/tables/number.py from harper-core/src/number.rs on every `./check C17`.")
    out.append("   Do not edit: theorems over these tables are re-checked against what the code says now. *)")
    out.append("Require Import Base.")
    out.append("")
    out.append("(* enum NumberSuffix, declaration order *)")
    out.append("Inductive suffix := " + " | ".join(variants) + ".")
    out.append("Definition suffix_eqb (a b : suffix) : bool :=")
    out.append("  match a, b with " + " | ".join("%s, %s => true" % (v, v) for v in variants) + " | _, _ => false end.")
    out.append("")
    out.append("(* NumberSuffix::from_chars: rows of `match (chars[0], chars[1])`, in source order; default arm = None *)")
    out.append("Definition from_chars_table : list (N * N * suffix) :=")
    out.append("  " + coq_list("(%d, %d, %s)" % r for r in rows) + "%N.")
    out.append("")
    out.append("(* NumberSuffix::to_chars *)")
    out.append("Definition to_chars (s : suffix) : list N :=")
    out.append("  match s with " + " | ".join("%s => %s%%N" % (v, coq_list(str(c) for c in to_rows[v])) for v in variants) + " end.")
    out.append("")
    out.append("(* NumberSuffix::correct_suffix_for: `if let LO..=HI = integer % M { return Some(S) }`, then `match integer % D` *)")
    out.append("Definition teens_lo : N := %d%%N." % lo)
    out.append("Definition teens_hi : N := %d%%N." % hi)
    out.append("Definition teens_modulus : N := %d%%N." % tmod)
    out.append("Definition teens_suffix : suffix := %s." % tsuf)
    out.append("Definition digit_modulus : N := %d%%N." % dmod)
    out.append("Definition digit_table : list (N * suffix) :=")
    out.append("  " + coq_list("(%d, %s)" % r for r in drows) + "%N.")
    out.append("")
    return "\n".join(out)
