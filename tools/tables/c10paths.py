"""c10paths — C10: the SHAPES of the path-handling code that coq/Model/EffectsConfig.v, EffectsSave.v and C10Cli.v
model by hand, read from the sources on every run, so that the models' structural claims are theorems about what the
code says now (Properties/C10.v: C10_path_code_shapes).

Emits coq/Model/Tables_c10paths.v with
  config_path_blocks   for userDictPath / fileDictPath / statsPath of Config::from_lsp_config (harper-ls/src/config.rs):
                       (key, field assigned, guarded by `!path.is_empty()`?, resolver method) — the model's
                       dict_setting (guard) vs stats_setting (no guard), both through try_resolve
  save_dict_refuses_no_file_name   does save_dict (harper-ls/src/dictionary_io.rs) return early when
                       `path.file_name()` is None?  (true since a91f3ee, the fix of finding FC10b: EffectsSave.save_dict_plan has
                       the guard; false would be the old code, modelled as *_old)
  ls_file_dict_name    (separator pushed after each component, is RootDir skipped, empty name refused?) of harper-ls
  cli_file_dict_name   (separator, RootDir skipped, empty name refused?) of harper-cli/src/main.rs
  cli_lint_loads       the argument expressions of the load_dict calls in harper-cli's `lint` arm, in order, with the
                       `let file_dict_path = …` shadowing resolved
Raises (Shape) on anything it does not recognise."""
import os, re, sys

HERE = os.path.dirname(os.path.abspath(__file__))
sys.path.insert(0, HERE)
import effects as E  # noqa: E402  (blank / norm / functions / match_paren)

Shape = E.Shape


def q(s):
    return '"' + s.replace('"', '""') + '"'


def read(repo, rel):
    p = os.path.join(repo, rel)
    if not os.path.exists(p):
        raise Shape("%s not found" % rel)
    src = open(p, encoding="utf-8").read()
    code, skel = E.blank(src)
    code, skel = E.blank_cfg_test(code, skel)
    return code, skel


def body_of(code, skel, name, pick_largest=False):
    fns = [f for f in E.functions(skel) if f[0] == name]
    if not fns:
        raise Shape("fn %s not found" % name)
    if len(fns) > 1 and not pick_largest:
        raise Shape("%d functions named %s" % (len(fns), name))
    n, a, b = max(fns, key=lambda f: f[2] - f[1])
    return code[a:b], skel[a:b]


def config_blocks(repo):
    code, skel = read(repo, "harper-ls/src/config.rs")
    c, s = body_of(code, skel, "from_lsp_config", pick_largest=True)
    rows = []
    for key in ["userDictPath", "fileDictPath", "statsPath"]:
        ms = [m for m in re.finditer(r'if\s+let\s+Some\(\s*(\w+)\s*\)\s*=\s*value\s*\.\s*get\(\s*"', s) if c[m.end():].startswith(key + '"')]
        if len(ms) != 1:
            raise Shape("config.rs: %d blocks read %s" % (len(ms), key))
        ob = s.index("{", ms[0].end())
        cb = E.match_paren(s, ob) if s[ob] == "(" else None
        # match the brace
        depth, j = 0, ob
        while True:
            depth += (s[j] == "{") - (s[j] == "}")
            if depth == 0:
                break
            j += 1
        blk = E.norm(c[ob:j + 1])
        v = ms[0].group(1)
        fields = sorted(set(re.findall(r"\bbase\.(\w+)=(?!=)", blk)))
        if len(fields) != 1:
            raise Shape("config.rs: the %s block assigns %r" % (key, fields))
        f = fields[0]
        guarded = ('{if!%s.is_string(){bail!("");}let path=%s.as_str().unwrap();if!path.is_empty(){base.%s=path.try_resolve()?.to_path_buf();}}' % (v, v, f))
        plain = ('{if let Value::String(path)=%s{base.%s=path.try_resolve()?.to_path_buf();}else{bail!("");}}' % (v, f))
        shape = re.sub(r'bail!\("[^"]*"\)', 'bail!("")', blk)
        if shape == guarded:
            rows.append((key, f, True, "try_resolve"))
        elif shape == plain:
            rows.append((key, f, False, "try_resolve"))
        else:
            raise Shape("config.rs: the %s block has a shape I do not know: %s" % (key, blk))
    return rows


def save_dict_guard(repo):
    code, skel = read(repo, "harper-ls/src/dictionary_io.rs")
    c, s = body_of(code, skel, "save_dict")
    b = E.norm(c)
    if "file_name()" not in b or "with_file_name(" not in b or "create_dir_all(" not in b:
        raise Shape("save_dict no longer computes its temporary sibling the way I know")
    guard = re.search(r"if path\.file_name\(\)\.is_none\(\)\{return Err\(", b) or re.search(r"let Some\(\w+\)=path\.file_name\(\)else\{return Err\(", b)
    if guard:
        if guard.start() > b.index("create_dir_all("):
            raise Shape("save_dict checks file_name() only after creating directories")
        if b.count("file_name()") != 2:
            raise Shape("save_dict (guarded, since a91f3ee) mentions file_name() %d times, expected the guard + the temporary name" % b.count("file_name()"))
        return True
    if b.count("file_name()") != 1:
        raise Shape("save_dict mentions file_name() %d times in a shape I do not know" % b.count("file_name()"))
    return False


def name_fn(repo, rel, it_re):
    code, skel = read(repo, rel)
    c, s = body_of(code, skel, "file_dict_name")
    b = E.norm(c)
    m = re.search(r"for seg in " + it_re + r"\{if!matches!\(seg,Component::RootDir\)\{rewritten\.push_str\(&seg\.as_os_str\(\)\.to_string_lossy\(\)\);rewritten\.push\('(.)'\);\}\}", b)
    if not m:
        raise Shape("%s: file_dict_name has a shape I do not know: %s" % (rel, b))
    rest = b[m.end():]
    if re.fullmatch(r"(Ok\(rewritten\.into\(\)\)|rewritten\.into\(\))\}?", rest):
        refuses = False
    elif re.fullmatch(r'if rewritten\.is_empty\(\)\{return Err\(anyhow!\("[^"]*"\)\);\}Ok\(rewritten\.into\(\)\)\}?', rest):
        refuses = True
    else:
        raise Shape("%s: file_dict_name ends in a shape I do not know: %s" % (rel, rest))
    return (m.group(1), True, refuses)


def cli_lint(repo):
    code, skel = read(repo, "harper-cli/src/main.rs")
    c, s = body_of(code, skel, "main")
    a = s.find("Args::Lint")
    if a < 0:
        raise Shape("harper-cli: no Args::Lint arm")
    ob = s.index("=>", a)
    ob = s.index("{", ob)
    depth, j = 0, ob
    while True:
        depth += (s[j] == "{") - (s[j] == "}")
        if depth == 0:
            break
        j += 1
    arm = E.norm(c[ob:j + 1])
    loads = re.findall(r"load_dict\(([^()]*)\)", arm)
    lets = dict(re.findall(r"let (\w+)=([^;]*);", arm))
    out = []
    for l in loads:
        ident = l.lstrip("&")
        out.append(lets.get(ident, l) if arm.index("let %s=" % ident) < arm.index("load_dict(%s)" % l) else l) if ("let %s=" % ident) in arm else out.append(l)
    if len(out) != 2:
        raise Shape("harper-cli lint: %d load_dict calls" % len(out))
    for w in ["File::create", "fs::write", "OpenOptions", "create_dir", "fs::rename", "fs::remove"]:
        if w in arm:
            raise Shape("harper-cli lint mentions %s" % w)
    return out


def generate(repo):
    blocks = config_blocks(repo)
    guard = save_dict_guard(repo)
    ls = name_fn(repo, "harper-ls/src/dictionary_io.rs", r'url\.to_file_path\(\)\.map_err\(\|_\|anyhow!\("[^"]*"\)\)\?\.components\(\)')
    cli = name_fn(repo, "harper-cli/src/main.rs", r"path\.components\(\)")
    loads = cli_lint(repo)
    b = lambda x: "true" if x else "false"
    o = ["(* GENERATED by tools/tables/c10paths.py from /repo (harper-ls/src/config.rs, dictionary_io.rs, harper-cli/src/main.rs)",
         "   — do not edit.  Regenerated on every ./check C10. *)",
         "From Coq Require Import List String.", "Import ListNotations.", "Open Scope string_scope.", "",
         "(* settings key, Config field, guarded by `!path.is_empty()`, resolver *)",
         "Definition config_path_blocks : list (string * string * bool * string) := [%s].\n" % "; ".join("(%s, %s, %s, %s)" % (q(k), q(f), b(g), q(r)) for k, f, g, r in blocks),
         "Definition save_dict_refuses_no_file_name : bool := %s.\n" % b(guard),
         "(* separator pushed after each component, RootDir skipped, empty name refused *)",
         "Definition ls_file_dict_name_shape : string * bool * bool := (%s, %s, %s)." % (q(ls[0]), b(ls[1]), b(ls[2])),
         "Definition cli_file_dict_name_shape : string * bool * bool := (%s, %s, %s).\n" % (q(cli[0]), b(cli[1]), b(cli[2])),
         "Definition cli_lint_loads : list string := [%s]." % "; ".join(q(x) for x in loads)]
    return "\n".join(o) + "\n"


if __name__ == "__main__":
    sys.stdout.write(generate(os.environ.get("VERIF_REPO", "/repo")))
