"""spellnorm — the data the C06 model (coq/Model/SpellDecision.v) takes from the sources:
  * char_string.rs  `fn char_to_normalized`: the rows `'x' => 'y'` of its match (default arm `_ => c`);
  * spell_check.rs  `cached_suggest_correct_spelling`: the start distance of the back-off loop, its exclusive
    upper bound, the result limit handed to suggest_correct_spelling; `lint`: the number of suggestions kept;
  * the shapes the model hard-wires, re-checked verbatim: the accept condition of SpellCheck::lint, the
    dialect filter of the suggestions, the first-letter capitalisation, `to_lower`'s shortcut, the WordId
    recipe (normalise, then lower-case, then hash), `contains_exact_word` of MutableDictionary and the metadata
    attachment loop of Document::parse.
Raises when a shape is not recognised (the check then reports a broken tie)."""
import os, re


def _read(repo, rel):
    src = open(os.path.join(repo, rel), encoding="utf-8").read()
    i = src.find("#[cfg(test)]")
    src = src if i < 0 else src[:i]
    return re.sub(r"//[^\n]*", "", src)


def _squash(s):
    return re.sub(r"\s+", "", s)


def _need(src, snippet, what):
    if _squash(snippet) not in _squash(src):
        raise ValueError("shape changed: %s — expected to find `%s`" % (what, snippet))


def _char(tok):
    body = tok[1:-1]
    if body.startswith("\\u{"):
        return int(body[3:-1], 16)
    if body == "\\'":
        return 39
    if len(body) != 1:
        raise ValueError("unrecognised char literal " + tok)
    return ord(body)


def generate(repo):
    cs = _read(repo, "harper-core/src/char_string.rs")
    m = re.search(r"fn char_to_normalized\(c: char\) -> char \{\s*match c \{(.*?)\n    \}\s*\}", cs, re.S)
    if not m:
        raise ValueError("cannot find fn char_to_normalized(c: char) -> char { match c {..} }")
    rows, default = [], False
    for arm in [a.strip() for a in m.group(1).split(",") if a.strip()]:
        am = re.fullmatch(r"('(?:\\u\{[0-9A-Fa-f]+\}|\\.|[^'\\])')\s*=>\s*('(?:\\u\{[0-9A-Fa-f]+\}|\\.|[^'\\])')", arm)
        if am:
            rows.append((_char(am.group(1)), _char(am.group(2))))
        elif re.fullmatch(r"_\s*=>\s*c", arm):
            default = True
        else:
            raise ValueError("unrecognised arm in char_to_normalized: " + arm)
    if not default or not rows:
        raise ValueError("char_to_normalized: no rows or no identity default arm")
    _need(cs, "if self.iter().all(|c| c.is_lowercase()) { return Cow::Borrowed(self); }", "to_lower shortcut")
    _need(cs, "out.extend(self.iter().flat_map(|v| v.to_lowercase()));", "to_lower body")
    _need(cs, ".map(char_to_normalized)", "normalized maps char_to_normalized over the characters")

    wid = _read(repo, "harper-core/src/spell/word_id.rs")
    _need(wid, "let normalized = chars.as_ref().normalized(); let lower = normalized.to_lower(); let hash = FixedState::default().hash_one(lower);", "WordId::from_word_chars")

    md = _read(repo, "harper-core/src/spell/mutable_dictionary.rs")
    _need(md, """fn contains_exact_word(&self, word: &[char]) -> bool {
        let normalized = word.normalized();
        if let Some(found) = self.word_map.get_with_chars(normalized.as_ref()) {
            if found.canonical_spelling.as_slice().normalized().as_ref() == normalized.as_ref() { return true; }
        }
        false
    }""", "MutableDictionary::contains_exact_word")
    _need(md, "fn get_word_metadata(&self, word: &[char]) -> Option<&WordMetadata> { self.word_map.get_with_chars(word).map(|v| &v.metadata) }", "MutableDictionary::get_word_metadata")

    doc = _read(repo, "harper-core/src/document.rs")
    _need(doc, """for token in self.tokens.iter_mut() {
            if let TokenKind::Word(meta) = &mut token.kind {
                let word_source = token.span.get_content(&self.source);
                let found_meta = dictionary.get_word_metadata(word_source);
                *meta = found_meta.cloned()
            }
        }""", "Document::parse metadata attachment")

    sc = _read(repo, "harper-core/src/linting/spell_check.rs")
    _need(sc, """if let Some(metadata) = word.kind.as_word().unwrap() {
                if metadata.dialect.is_none_or(|d| d == self.dialect)
                    && (self.dictionary.contains_exact_word(word_chars)
                        || self.dictionary.contains_exact_word(&word_chars.to_lower()))
                {
                    continue;
                }
            };""", "accept condition of SpellCheck::lint")
    _need(sc, "for word in document.iter_words() { let word_chars = document.get_span_content(&word.span);", "SpellCheck::lint iterates the word tokens")
    _need(sc, """suggestions.retain(|v| {
            self.dictionary.get_word_metadata(v).unwrap().dialect.is_none_or(|d| d == self.dialect)
        });""", "dialect filter of the suggestions")
    _need(sc, """if let Some(mis_f) = word_chars.first() {
                if mis_f.is_uppercase() {
                    for sug_f in possibilities.iter_mut().filter_map(|w| w.first_mut()) {
                        *sug_f = sug_f.to_uppercase().next().unwrap();
                    }
                }
            }""", "first-letter capitalisation of the suggestions")
    _need(sc, "span: word.span,", "the lint's span is the word token's span")
    m1 = re.search(r"let mut dist = (\d+);\s*while suggestions\.is_empty\(\) && dist < (\d+) \{\s*suggestions = suggest_correct_spelling\(word, (\d+), dist, &self\.dictionary\)", sc)
    if not m1:
        raise ValueError("shape changed: back-off loop of cached_suggest_correct_spelling")
    _need(sc, "dist += 1;", "back-off increment")
    m2 = re.search(r"if possibilities\.len\(\) > (\d+) \{\s*possibilities\.resize_with\((\d+), \|\| panic!\(\)\);", sc)
    if not m2 or m2.group(1) != m2.group(2):
        raise ValueError("shape changed: truncation of the suggestions")

    wm = _read(repo, "harper-core/src/word_metadata.rs")
    dm = re.search(r"pub enum Dialect \{(.*?)\}", wm, re.S)
    if not dm:
        raise ValueError("cannot find enum Dialect")
    dialects = [d.strip() for d in dm.group(1).split(",") if d.strip()]
    if dialects != ["American", "Canadian", "Australian", "British"]:
        raise ValueError("enum Dialect changed: %r (SpellDecision.v lists American, Canadian, Australian, British)" % dialects)

    out = ["(* GENERATED by tools/tables/spellnorm.py from harper-core/src/{char_string.rs,linting/spell_check.rs} on every",
           "   `./check C06`.  Do not edit: theorems over these tables are re-checked against what the code says now. *)",
           "Require Import Base.", "",
           "(* fn char_to_normalized: rows `'x' => 'y'` in source order; default arm: identity *)",
           "Definition normalize_table : list (N * N) :=",
           "  [" + "; ".join("(%d, %d)" % r for r in rows) + "]%N.", "",
           "(* cached_suggest_correct_spelling: `let mut dist = START; while suggestions.is_empty() && dist < BOUND`,",
           "   result limit handed to suggest_correct_spelling; lint: `if possibilities.len() > KEEP { resize_with(KEEP, ..) }` *)",
           "Definition backoff_start : nat := %s." % m1.group(1),
           "Definition backoff_bound : nat := %s." % m1.group(2),
           "Definition fuzzy_result_limit : nat := %s." % m1.group(3),
           "Definition suggestions_kept : nat := %s." % m2.group(1), ""]
    return "\n".join(out)
