"""c05statics — pins what is per thread / per process in /repo (C05, Model/C05Thread.v).

Scans every crate's src/ (code after `#[cfg(test)]` dropped) for statics of any kind (thread_local!, lazy_static!,
`static`, OnceLock/OnceCell/LazyLock/Lazy, static mut, atomics) and RAISES when the set differs from the one the
model knows, or when the code that reads / writes them no longer has the shape the model follows:
  * the five pattern cells are only ever read as `.with(|v| v.clone())`, Document::parse reads them in the order
    contractions, ellipsis, latin, articles;
  * the two curated dictionaries are lazy_static DICTs read as `(*DICT).clone()`, the FST one initialised from
    MutableDictionary::curated();
  * AUTOMATON_BUILDERS starts as vec![(EXPECTED_DISTANCE, new(EXPECTED_DISTANCE, ..))] and is touched by build_dfa only:
    conditional push of (max_distance, new(max_distance)), then find(.. == max_distance).unwrap().1.build_dfa(query);
    fuzzy_match makes exactly two build_dfa calls with the max_distance it was given;
  * BUFFERS is touched by WithinEditDistance::matches only, which hands both halves to edit_distance_min_alloc; that
    function's statements are the ones ed_min_alloc models.
Emits the constants the model depends on (EXPECTED_DISTANCE, the u8-row threshold) and the classified list."""
import os, re

KNOWN = {
    ("harper-core/src/document.rs", "ARTICLE_PATTERN"): "OnceCell",
    ("harper-core/src/document.rs", "LATIN_PATTERN"): "OnceCell",
    ("harper-core/src/document.rs", "ELLIPSIS_PATTERN"): "OnceCell",
    ("harper-core/src/document.rs", "CONTRACTION_PATTERN"): "OnceCell",
    ("harper-core/src/parsers/collapse_identifiers.rs", "WORD_OR_NUMBER"): "OnceCell",
    ("harper-core/src/spell/mutable_dictionary.rs", "DICT"): "OnceCell",
    ("harper-core/src/spell/fst_dictionary.rs", "DICT"): "OnceCell",
    ("harper-core/src/spell/fst_dictionary.rs", "AUTOMATON_BUILDERS"): "BuilderVec",
    ("harper-core/src/patterns/within_edit_distance.rs", "BUFFERS"): "ScratchBuf",
    # a lazily built constant set inside make_title_case (not reached by LintGroup::lint's cached paths; a once cell all the same)
    ("harper-core/src/title_case.rs", "SPECIAL_CONJUNCTIONS"): "OnceCell",
    # an immutable string constant
    ("harper-ls/src/main.rs", "DEFAULT_ADDRESS"): "Const",
}
STATIC_RE = re.compile(r"\bstatic\s+(?:ref\s+|mut\s+)?([A-Z_][A-Z0-9_]*)\s*:")
OTHER_RE = re.compile(r"\b(OnceLock|OnceCell|LazyLock|Lazy\s*<|static\s+mut|Atomic(?:U|I)\d+|AtomicBool|AtomicUsize|AtomicIsize)\b")

def strip_tests(text):
    i = text.find("#[cfg(test)]")
    return text if i < 0 else text[:i]

def need(cond, what):
    if not cond:
        raise Exception("c05statics: " + what)

def norm(s):
    return re.sub(r"\s+", " ", s)

def generate(repo):
    found = {}
    for crate in sorted(os.listdir(repo)):
        src = os.path.join(repo, crate, "src")
        if not crate.startswith("harper-") or not os.path.isdir(src):
            continue
        for dp, _, fs in os.walk(src):
            for f in sorted(fs):
                if not f.endswith(".rs"):
                    continue
                path = os.path.join(dp, f)
                rel = os.path.relpath(path, repo)
                text = strip_tests(open(path, encoding="utf-8").read())
                code = "\n".join(l for l in text.split("\n") if not l.lstrip().startswith("//"))
                for m in STATIC_RE.finditer(code):
                    found[(rel, m.group(1))] = True
                m = OTHER_RE.search(code)
                need(m is None, "%s uses %s outside tests — a kind of process/thread state the model does not know" % (rel, m.group(1) if m else ""))
    unknown = sorted(k for k in found if k not in KNOWN)
    missing = sorted(k for k in KNOWN if k not in found)
    need(not unknown, "statics the model does not know: %r" % (unknown,))
    need(not missing, "statics the model knows are gone: %r" % (missing,))

    rd = lambda p: strip_tests(open(os.path.join(repo, p), encoding="utf-8").read())
    doc = rd("harper-core/src/document.rs")
    for name in ("ARTICLE_PATTERN", "LATIN_PATTERN", "ELLIPSIS_PATTERN", "CONTRACTION_PATTERN"):
        uses = [m.start() for m in re.finditer(r"\b%s\b" % name, doc)]
        need(len(uses) == 2, "document.rs: %s is expected to occur exactly twice (definition, one read): %d" % (name, len(uses)))
        need(re.search(r"Self::%s\s*\.with\(\|v\| v\.clone\(\)\)" % name, doc), "document.rs: %s is no longer read as .with(|v| v.clone())" % name)
        need(re.search(r"static %s: Lrc<\w+> = Document::uncached_\w+\(\)" % name, doc), "document.rs: %s is no longer initialised by an uncached_* constructor" % name)
    m = re.search(r"fn parse\(&mut self, dictionary: &impl Dictionary\) \{(.*?)\n    \}", doc, re.S)
    need(m, "document.rs: Document::parse not found")
    order = re.findall(r"self\.(condense_contractions|condense_ellipsis|condense_latin|articles_imply_nouns)\(\)", m.group(1))
    need(order == ["condense_contractions", "condense_ellipsis", "condense_latin", "articles_imply_nouns"], "Document::parse reads the pattern cells in another order: %r" % (order,))
    ci = rd("harper-core/src/parsers/collapse_identifiers.rs")
    need(len(re.findall(r"\bWORD_OR_NUMBER\b", ci)) == 2 and re.search(r"WORD_OR_NUMBER\s*\.with\(\|v\| v\.clone\(\)\)", ci), "collapse_identifiers.rs: WORD_OR_NUMBER is no longer read once as .with(|v| v.clone())")

    md = rd("harper-core/src/spell/mutable_dictionary.rs")
    need("static ref DICT: Arc<MutableDictionary> = uncached_inner_new();" in md, "mutable_dictionary.rs: DICT initialiser changed")
    need(len(re.findall(r"\bDICT\b", md)) == 2 and "(*DICT).clone()" in md, "mutable_dictionary.rs: DICT is no longer read once as (*DICT).clone()")
    fd = rd("harper-core/src/spell/fst_dictionary.rs")
    need("static ref DICT: Arc<FstDictionary> = Arc::new((*MutableDictionary::curated()).clone().into());" in fd, "fst_dictionary.rs: DICT initialiser changed")
    need(len(re.findall(r"\bDICT\b", fd)) == 2 and "(*DICT).clone()" in fd, "fst_dictionary.rs: DICT is no longer read once as (*DICT).clone()")

    m = re.search(r"const EXPECTED_DISTANCE: u8 = (\d+);", fd)
    need(m, "fst_dictionary.rs: EXPECTED_DISTANCE not found")
    expected = int(m.group(1))
    nfd = norm(fd)
    need("static AUTOMATON_BUILDERS: RefCell<Vec<(u8, LevenshteinAutomatonBuilder)>> = RefCell::new(vec![( EXPECTED_DISTANCE, LevenshteinAutomatonBuilder::new(EXPECTED_DISTANCE, TRANSPOSITION_COST_ONE), )]);" in nfd,
         "fst_dictionary.rs: the initial AUTOMATON_BUILDERS is no longer [(EXPECTED_DISTANCE, new(EXPECTED_DISTANCE))]")
    m = re.search(r"fn build_dfa\(max_distance: u8, query: &str\) -> DFA \{(.*?)\n\}", fd, re.S)
    need(m, "fst_dictionary.rs: build_dfa not found")
    body = norm(re.sub(r"//[^\n]*", "", m.group(1))).strip()
    want = ("AUTOMATON_BUILDERS.with_borrow_mut(|v| { if !v.iter().any(|t| t.0 == max_distance) { v.push(( max_distance, "
            "LevenshteinAutomatonBuilder::new(max_distance, TRANSPOSITION_COST_ONE), )); } }); "
            "AUTOMATON_BUILDERS.with_borrow(|v| { v.iter() .find(|a| a.0 == max_distance) .unwrap() .1 .build_dfa(query) })")
    need(body == want, "fst_dictionary.rs: build_dfa's body changed:\n  %s" % body)
    need(len(re.findall(r"\bAUTOMATON_BUILDERS\b", fd)) == 3, "fst_dictionary.rs: AUTOMATON_BUILDERS is touched outside build_dfa")
    calls = re.findall(r"build_dfa\(([^)]*)\)", fd.split("fn fuzzy_match(")[1].split("fn fuzzy_match_str(")[0]) if "fn fuzzy_match(" in fd else []
    need([c.split(",")[0].strip() for c in calls] == ["max_distance", "max_distance"], "fst_dictionary.rs: fuzzy_match no longer makes two build_dfa(max_distance, ..) calls: %r" % (calls,))
    need(len(re.findall(r"\bbuild_dfa\(", fd)) == 4, "fst_dictionary.rs: build_dfa is called outside fuzzy_match")

    we = rd("harper-core/src/patterns/within_edit_distance.rs")
    need(len(re.findall(r"\bBUFFERS\b", we)) == 2, "within_edit_distance.rs: BUFFERS is touched more than once")
    need("BUFFERS.with_borrow_mut(|(buffer_a, buffer_b)| { if edit_distance_min_alloc( &content.to_lower(), &self.word.to_lower(), buffer_a, buffer_b, ) <= self.max_edit_dist { 1 } else { 0 } })" in norm(we),
         "within_edit_distance.rs: WithinEditDistance::matches changed")
    ed = rd("harper-core/src/edit_distance.rs")
    m = re.search(r"pub fn edit_distance_min_alloc\((.*?)\n\}", ed, re.S)
    need(m, "edit_distance.rs: edit_distance_min_alloc not found")
    body = norm(re.sub(r"//[^\n]*", "", m.group(1)))
    stmts = ["source: &[char], target: &[char], previous_row: &mut Vec<u8>, current_row: &mut Vec<u8>, ) -> u8 {",
             "return edit_distance_long(source, target).min(u8::MAX as usize) as u8;",
             "let row_width = source.len(); let col_height = target.len();",
             "previous_row.clear(); previous_row.extend(0u8..=row_width as u8);",
             "current_row.resize(row_width + 1, 0);",
             "for j in 1..=col_height { current_row[0] = j as u8; for i in 1..=row_width { let cost = if source[i - 1] == target[j - 1] { 0 } else { 1 }; "
             "current_row[i] = (previous_row[i] + 1) .min(current_row[i - 1] + 1) .min(previous_row[i - 1] + cost); } std::mem::swap(previous_row, current_row); }",
             "previous_row[row_width]"]
    pos = -1
    for st in stmts:
        k = body.find(st, pos + 1)
        need(k > pos, "edit_distance.rs: edit_distance_min_alloc no longer contains, in order: %s" % st)
        pos = k
    m = re.search(r"if source\.len\(\) > (\d+) \|\| target\.len\(\) > (\d+) \{", body)
    need(m and m.group(1) == m.group(2), "edit_distance.rs: the u8-row threshold test changed")
    threshold = int(m.group(1))

    # ---- the LIFETIME of a LintGroup (Model/C05Life.v): its caches and its RandomState live and die with the instance ----
    lg = rd("harper-core/src/linting/lint_group.rs")
    lgc = "\n".join(l for l in lg.split("\n") if not l.lstrip().startswith("//"))
    nlg = norm(lgc)
    need("use foldhash::quality::RandomState;" in lgc, "lint_group.rs: RandomState is no longer foldhash::quality::RandomState")
    m = re.search(r"((?:#\[[^\]]*\]\s*)*)pub struct LintGroup \{(.*?)\n\}", lgc, re.S)
    need(m, "lint_group.rs: struct LintGroup not found")
    need("Clone" not in m.group(1), "lint_group.rs: LintGroup became Clone (a clone would share the seed and copy the caches)")
    fields = norm(m.group(2))
    need("chunk_pattern_cache: LruCache<(CharString, u64, u64), Vec<Lint>>, hasher_builder: RandomState," in fields,
         "lint_group.rs: the fields chunk_pattern_cache / hasher_builder of LintGroup changed")
    need(len(re.findall(r"\bhasher_builder\b", lgc)) == 4, "lint_group.rs: hasher_builder is expected exactly 4 times (field, RandomState::default() in empty(), hash_one(&self.config), build_hasher())")
    need(len(re.findall(r"\bchunk_pattern_cache\b", lgc)) == 4, "lint_group.rs: chunk_pattern_cache is expected exactly 4 times (field, LruCache::new in empty(), get, put)")
    need(re.search(r"pub fn empty\(\) -> Self \{ Self \{ config: LintGroupConfig::default\(\), linters: BTreeMap::new\(\), pattern_linters: BTreeMap::new\(\), chunk_pattern_cache: LruCache::new\(NonZero::new\(\d+\)\.unwrap\(\)\), hasher_builder: RandomState::default\(\), \} \}", nlg),
         "lint_group.rs: LintGroup::empty() no longer builds an empty cache and a RandomState::default()")
    need(len(re.findall(r"\bhasher_builder:", lgc)) == 2 and len(re.findall(r"\bchunk_pattern_cache:", lgc)) == 2,
         "lint_group.rs: LintGroup is constructed by a struct literal outside empty()")
    need("let config_hash = self.hasher_builder.hash_one(&self.config);" in nlg and "let mut hasher = self.hasher_builder.build_hasher();" in nlg,
         "lint_group.rs: the two key hashes no longer go through self.hasher_builder")
    wl = rd("harper-wasm/src/lib.rs")
    need("fn synchronize_lint_dict(&mut self) { let mut lint_config = self.lint_group.config.clone(); self.dictionary = Self::construct_merged_dict(self.user_dictionary.clone()); "
         "self.lint_group = LintGroup::new_curated_empty_config(self.dictionary.clone(), self.dialect.into()); self.lint_group.config.merge_from(&mut lint_config); }" in norm(re.sub(r"//[^\n]*", "", wl)),
         "harper-wasm lib.rs: synchronize_lint_dict no longer builds a NEW LintGroup over the new merged dictionary and merges the old configuration")

    kinds = sorted(KNOWN.items())
    lines = ["(* GENERATED by tools/tables/c05statics.py from the Rust sources of /repo — do not edit.",
             "   Every static (thread_local!, lazy_static!, static) outside #[cfg(test)] in the harper-* crates, classified; the",
             "   generator raises when a static appears or disappears, or when the code touching one changes shape. *)",
             "Require Import Base.",
             "Inductive static_kind := OnceCell | BuilderVec | ScratchBuf | Const.",
             "(* (index, kind); names in the comments *)",
             "Definition c05_statics : list (nat * static_kind) :=", "  ["]
    for i, ((f, n), k) in enumerate(kinds):
        lines.append("   (%d, %s)%s   (* %s :: %s *)" % (i, k, ";" if i + 1 < len(kinds) else " ", f, n))
    lines += ["  ].",
              "(* const EXPECTED_DISTANCE: u8 (fst_dictionary.rs): the distance of the one builder a fresh thread holds *)",
              "Definition c05_expected_distance : nat := %d." % expected,
              "(* edit_distance_min_alloc: inputs longer than this take edit_distance_long, which does not touch the buffers *)",
              "Definition c05_u8_row_threshold : nat := %d." % threshold,
              "(* lint_group.rs: LintGroup holds `hasher_builder: RandomState`, set to RandomState::default() by the one constructor empty();",
              "   both key hashes go through it; LintGroup is not Clone; harper-wasm's synchronize_lint_dict assigns a new LintGroup:",
              "   number of places that read the instance's hasher (hash_one(&self.config), build_hasher()) *)",
              "Definition c05_hasher_per_instance : bool := true.",
              "Definition c05_hasher_uses : nat := 2.", ""]
    return "\n".join(lines)
