"""wasmapi — the shape of the code Model/Wasm.v and Model/LintJson.v transcribe (C16):
  * the order of the steps inside harper_wasm::Linter::lint (config overlay, LintGroup::lint, config
    restore, remove_overlaps, remove_ignored, problem text),
  * the condition under which import_words re-synchronises, the steps of synchronize_lint_dict,
    the order "record, then apply" in apply_suggestion, append-vs-replace in import_ignored_lints,
  * the variants / fields serde derives the JSON from: LintKind, Suggestion, Language, core Lint,
    wasm Lint, Span — and any #[serde(...)] attribute on them.
Raises when a function or type can no longer be found."""
import os, re

def strip_comments(code):
    return re.sub(r"//[^\n]*", "", code)

def fn_body(code, header_rx, what):
    m = re.search(header_rx, code)
    if not m:
        raise RuntimeError("cannot find %s" % what)
    i = code.find("{", m.end() - 1)
    depth, j = 0, i
    while j < len(code):
        if code[j] == "{":
            depth += 1
        elif code[j] == "}":
            depth -= 1
            if depth == 0:
                break
        j += 1
    return code[i:j + 1]

def events(body, table):
    found = []
    for rx, name in table:
        for m in re.finditer(rx, body):
            found.append((m.start(), name))
    return [n for _, n in sorted(found)]

def item(code, rx, what):
    """(attribute block + body) of `pub enum X {..}` / `pub struct X {..}`"""
    m = re.search(rx, code)
    if not m:
        raise RuntimeError("cannot find %s" % what)
    # attributes directly above
    pre = code[:m.start()]
    attrs = []
    lines = pre.rstrip().split("\n")
    while lines and (lines[-1].strip().startswith("#[") or lines[-1].strip().startswith("///") or lines[-1].strip() == ""):
        if lines[-1].strip().startswith("#["):
            attrs.append(lines[-1].strip())
        lines.pop()
    body = fn_body(code, rx, what)
    return attrs, body

def variants(body):
    inner = strip_comments(body[1:-1])
    inner = re.sub(r"#\[[^\]]*\]", lambda m: " @ATTR(" + m.group(0) + ") ", inner)
    out, attrs = [], []
    for part in re.split(r",(?![^(]*\))", inner):
        p = part.strip()
        if not p:
            continue
        for a in re.findall(r"@ATTR\((#\[[^\]]*\])\)", p):
            if "serde" in a:
                attrs.append(a)
        p = re.sub(r"@ATTR\(#\[[^\]]*\]\)", "", p).strip()
        m = re.match(r"(\w+)", p)
        if m:
            out.append(m.group(1))
    return out, attrs

def fields(body):
    inner = strip_comments(body[1:-1])
    attrs = [a for a in re.findall(r"#\[[^\]]*\]", inner) if "serde" in a]
    inner = re.sub(r"#\[[^\]]*\]", "", inner)
    out = []
    for part in inner.split(","):
        m = re.match(r"\s*(?:pub(?:\([^)]*\))?\s+)?(\w+)\s*:", part.strip())
        if m:
            out.append(m.group(1))
    return out, attrs

def coq_list(xs):
    return "[" + "; ".join('"%s"' % x.replace('"', '""') for x in xs) + "]"

def generate(repo):
    wasm_raw = open(os.path.join(repo, "harper-wasm/src/lib.rs"), encoding="utf-8").read()
    wasm = strip_comments(re.sub(r"///[^\n]*", "", wasm_raw))
    lint_body = fn_body(wasm, r"pub fn lint\(&mut self, text: String, language: Language\)", "Linter::lint")
    pipeline = events(lint_body, [
        (r"let\s+temp\s*=\s*self\.lint_group\.config\.clone\(\)", "save_config"),
        (r"self\.lint_group\.config\.fill_with_curated\(\)", "fill_with_curated"),
        (r"self\.lint_group\.lint\(&document\)", "lint_group_lint"),
        (r"self\.lint_group\.config\s*=\s*temp", "restore_config"),
        (r"remove_overlaps\(&mut lints\)", "remove_overlaps"),
        (r"self\.ignored_lints\.remove_ignored\(&mut lints, &document\)", "remove_ignored"),
        (r"\.span\.get_content_string\(&source\)", "problem_text_of_span"),
        (r"Lint::new\(l, problem_text, language\)", "wrap"),
    ])
    imp_body = fn_body(wasm, r"pub fn import_words\(&mut self, additional_words: Vec<String>\)", "Linter::import_words")
    m = re.search(r"if\s+(.*?)\s*\{\s*self\.synchronize_lint_dict\(\)", imp_body, re.S)
    if not m:
        raise RuntimeError("import_words no longer has the shape `if <cond> { self.synchronize_lint_dict() }`")
    cond = re.sub(r"\s+", " ", m.group(1)).strip()
    # shape since fix ba0a239: `let before = self.user_dictionary.clone(); extend_words(..);
    # if self.user_dictionary != before { synchronize }` (the older `let init_len = ..word_count()` shape
    # is no longer accepted: the model compares the dictionaries)
    init = re.search(r"let\s+before\s*=\s*(.*?);", imp_body, re.S)
    if not init:
        raise RuntimeError("import_words no longer starts with `let before = <expr>;`")
    init_expr = re.sub(r"\s+", " ", init.group(1)).strip()
    imp_steps = events(imp_body, [
        (r"let\s+before\s*=", "snapshot_before"),
        (r"self\.user_dictionary\s*\.extend_words\(", "extend_words"),
        (r"WordMetadata::default\(\)", "default_metadata"),
        (r"if\s+self\.user_dictionary\s*!=\s*before", "compare_with_snapshot"),
        (r"self\.synchronize_lint_dict\(\)", "synchronize"),
    ])
    # set_lint_config_from_json / _from_object: parse (error returns early), clear, merge
    def setcfg(header, what, parse_rx):
        body = fn_body(wasm, header, what)
        ev = events(body, [
            (parse_rx, "parse_or_return_err"),
            (r"self\.lint_group\.config\.clear\(\)", "clear"),
            (r"self\.lint_group\s*\.config\s*\.merge_from\(&mut new_config\)", "merge_new_config"),
            (r"\.merge_from\(&mut serde", "merge_parsed_directly"),
        ])
        return ev
    setcfg_json = setcfg(r"pub fn set_lint_config_from_json\(&mut self, json: String\)", "Linter::set_lint_config_from_json",
                         r"let\s+mut\s+new_config\s*=\s*serde_json::from_str\(&json\)\.map_err\(\|v\| v\.to_string\(\)\)\?")
    setcfg_obj = setcfg(r"pub fn set_lint_config_from_object\(&mut self, object: JsValue\)", "Linter::set_lint_config_from_object",
                        r"let\s+mut\s+new_config\s*=\s*serde_wasm_bindgen::from_value\(object\)\.map_err\(\|v\| v\.to_string\(\)\)\?")
    sync_body = fn_body(wasm, r"fn synchronize_lint_dict\(&mut self\)", "synchronize_lint_dict")
    sync = events(sync_body, [
        (r"let\s+mut\s+lint_config\s*=\s*self\.lint_group\.config\.clone\(\)", "save_config"),
        (r"self\.dictionary\s*=\s*Self::construct_merged_dict\(self\.user_dictionary\.clone\(\)\)", "dictionary_from_user_dictionary"),
        (r"LintGroup::new_curated_empty_config\(self\.dictionary\.clone\(\),\s*self\.dialect\.into\(\)\)", "new_curated_empty_config"),
        (r"self\.lint_group\.config\.merge_from\(&mut lint_config\)", "merge_saved_config"),
    ])
    apply_body = fn_body(wasm, r"pub fn apply_suggestion\(", "Linter::apply_suggestion")
    apply = events(apply_body, [
        (r"\.records\s*\.push\(Record::now\(RecordKind::from_lint\(&lint\.inner, &doc\)\)\)", "push_record"),
        (r"suggestion\.inner\.apply\(lint\.inner\.span, &mut source\)", "apply_to_lint_span"),
    ])
    impign_body = fn_body(wasm, r"pub fn import_ignored_lints\(&mut self, json: String\)", "Linter::import_ignored_lints")
    impign = events(impign_body, [
        (r"self\.ignored_lints\.append\(list\)", "append"),
        (r"self\.ignored_lints\s*=\s*", "replace"),
    ])
    ign_body = fn_body(wasm, r"pub fn ignore_lint\(&mut self, source_text: String, lint: Lint\)", "Linter::ignore_lint")
    ign = events(ign_body, [
        (r"&lint\.language\.create_parser\(\)", "parser_of_lint_language"),
        (r"&self\.dictionary", "linter_dictionary"),
        (r"self\.ignored_lints\.ignore_lint\(&lint\.inner, &document\)", "ignore_inner_on_document"),
    ])
    # what the premise "the context of an ignored lint does not depend on the dictionary" rests on:
    # LintContext::from_lint blanks the dictionary metadata of word tokens (and the quote twin index), and
    # Document::parse uses the dictionary for nothing but that metadata; the two wasm parsers take no dictionary
    core_raw = lambda rel: open(os.path.join(repo, rel), encoding="utf-8").read()
    lc = strip_comments(core_raw("harper-core/src/ignored_lints/lint_context.rs"))
    lc_body = fn_body(lc, r"pub fn from_lint\(lint: &Lint, document: &Document\)", "LintContext::from_lint")
    ctx_steps = events(lc_body, [
        (r"document\.token_indices_intersecting\(lint\.span\)", "problem_tokens"),
        (r"lint\.span\.start\.saturating_sub\(2\),\s*lint\.span\.start", "prequel_two_before_start"),
        (r"Span::new_with_len\(lint\.span\.end,\s*2\)", "sequel_two_after_end"),
        (r"\.with_len\(2\)", "OLD_window_relative_to_start"),
        (r"t\.to_fat\(document\.get_source\(\)\)", "to_fat"),
        (r"quote\.twin_loc\s*=\s*None", "blank_quote_twin_loc"),
        (r"if\s+let\s+TokenKind::Word\(metadata\)\s*=\s*&mut\s+fat\.kind\s*\{\s*\*metadata\s*=\s*None;?\s*\}", "blank_word_metadata"),
    ])
    doc = strip_comments(re.sub(r"///[^\n]*", "", core_raw("harper-core/src/document.rs")))
    parse_body = fn_body(doc, r"fn parse\(&mut self, dictionary: &impl Dictionary\)", "Document::parse")
    dict_uses = []
    for m in re.finditer(r"\bdictionary\b[^;\n]*", parse_body):
        dict_uses.append(re.sub(r"\s+", " ", m.group(0)).strip())
    parser_body = fn_body(wasm, r"fn create_parser\(&self\)", "Language::create_parser")
    parser_ctors = re.findall(r"Box::new\(([^;\n]*?)\),?\s*(?:\n|$)", parser_body)
    parser_ctors = [re.sub(r"\s+", " ", x).strip() for x in parser_ctors]
    serde_attrs = []
    a, b = item(wasm_raw, r"pub struct Lint\s*\{", "wasm Lint"); wl_fields, fa = fields(b); serde_attrs += fa + [x for x in a if "serde" in x]
    a, b = item(wasm_raw, r"pub struct Span\s*\{", "wasm Span"); ws_fields, fa = fields(b); serde_attrs += fa + [x for x in a if "serde" in x]
    a, b = item(wasm_raw, r"pub struct Suggestion\s*\{", "wasm Suggestion"); wg_fields, fa = fields(b); serde_attrs += fa + [x for x in a if "serde" in x]
    a, b = item(wasm_raw, r"pub enum Language\s*\{", "wasm Language"); lang_vars, fa = variants(b); serde_attrs += fa + [x for x in a if "serde" in x]
    core = lambda rel: open(os.path.join(repo, rel), encoding="utf-8").read()
    a, b = item(core("harper-core/src/linting/lint.rs"), r"pub struct Lint\s*\{", "core Lint"); cl_fields, fa = fields(b); serde_attrs += fa + [x for x in a if "serde" in x]
    a, b = item(core("harper-core/src/span.rs"), r"pub struct Span\s*\{", "core Span"); cs_fields, fa = fields(b); serde_attrs += fa + [x for x in a if "serde" in x]
    a, b = item(core("harper-core/src/linting/suggestion.rs"), r"pub enum Suggestion\s*\{", "core Suggestion"); sug_vars, fa = variants(b); serde_attrs += fa + [x for x in a if "serde" in x]
    a, b = item(core("harper-core/src/linting/lint_kind.rs"), r"pub enum LintKind\s*\{", "LintKind"); kind_vars, fa = variants(b); serde_attrs += fa + [x for x in a if "serde" in x]
    a, b = item(core("harper-core/src/ignored_lints/mod.rs"), r"pub struct IgnoredLints\s*\{", "IgnoredLints"); il_fields, fa = fields(b); serde_attrs += fa + [x for x in a if "serde" in x]
    out = ["(* GENERATED by tools/tables/wasmapi.py from /repo — do not edit. *)",
           "From Coq Require Import List String.", "Import ListNotations.", "Open Scope string_scope.", "",
           "(* steps of harper_wasm::Linter::lint, in source order *)",
           "Definition wasm_lint_pipeline : list string := %s." % coq_list(pipeline),
           "(* import_words: `let before = <expr>`, the condition guarding synchronize_lint_dict, the order of its steps *)",
           "Definition wasm_import_words_before : string := \"%s\"." % init_expr.replace('"', '""'),
           "Definition wasm_import_words_steps : list string := %s." % coq_list(imp_steps),
           "Definition wasm_set_config_json_steps : list string := %s." % coq_list(setcfg_json),
           "Definition wasm_set_config_object_steps : list string := %s." % coq_list(setcfg_obj),
           "Definition wasm_import_words_sync_condition : string := \"%s\"." % cond.replace('"', '""'),
           "Definition wasm_synchronize_steps : list string := %s." % coq_list(sync),
           "Definition wasm_apply_suggestion_steps : list string := %s." % coq_list(apply),
           "Definition wasm_import_ignored_steps : list string := %s." % coq_list(impign),
           "Definition wasm_ignore_lint_steps : list string := %s." % coq_list(ign),
           "(* the ignore context: windows and what LintContext::from_lint blanks; how Document::parse uses the dictionary; the parsers harper-wasm constructs *)",
           "Definition lint_context_steps : list string := %s." % coq_list(ctx_steps),
           "Definition document_parse_dictionary_uses : list string := %s." % coq_list(dict_uses),
           "Definition wasm_parser_constructors : list string := %s." % coq_list(parser_ctors),
           "(* what serde derives the JSON from *)",
           "Definition lint_kind_variants : list string := %s." % coq_list(kind_vars),
           "Definition suggestion_variants : list string := %s." % coq_list(sug_vars),
           "Definition language_variants : list string := %s." % coq_list(lang_vars),
           "Definition core_lint_fields : list string := %s." % coq_list(cl_fields),
           "Definition core_span_fields : list string := %s." % coq_list(cs_fields),
           "Definition wasm_lint_fields : list string := %s." % coq_list(wl_fields),
           "Definition wasm_span_fields : list string := %s." % coq_list(ws_fields),
           "Definition wasm_suggestion_fields : list string := %s." % coq_list(wg_fields),
           "Definition ignored_lints_fields : list string := %s." % coq_list(il_fields),
           "Definition serde_attributes_on_these_types : list string := %s." % coq_list(serde_attrs)]
    return "\n".join(out) + "\n"
