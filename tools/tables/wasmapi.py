"""wasmapi — the shape of the code Model/Wasm.v and Model/LintJson.v transcribe (C16):
  * the order of the steps inside harper_wasm::Linter::lint (config overlay, LintGroup::lint, config
    restore, remove_overlaps, remove_ignored, problem text),
  * the condition under which import_words re-synchronises, the steps of synchronize_lint_dict,
    the order "record, then apply" in apply_suggestion, append-vs-replace in import_ignored_lints,
  * the variants / fields serde derives the JSON from: LintKind, Suggestion, Language, core Lint,
    wasm Lint, Span — and any #[serde(...)] attribute on them.
Raises when a function or type can no longer be found."""
import os, re

def strip_comments(code):
    return re.sub(r"//[^\n]*", "", code)

def fn_body(code, header_rx, what):
    m = re.search(header_rx, code)
    if not m:
        raise RuntimeError("cannot find %s" % what)
    i = code.find("{", m.end() - 1)
    depth, j = 0, i
    while j < len(code):
        if code[j] == "{":
            depth += 1
        elif code[j] == "}":
            depth -= 1
            if depth == 0:
                break
        j += 1
    return code[i:j + 1]

def events(body, table):
    found = []
    for rx, name in table:
        for m in re.finditer(rx, body):
            found.append((m.start(), name))
    return [n for _, n in sorted(found)]

def item(code, rx, what):
    """(attribute block + body) of `pub enum X {..}` / `pub struct X {..}`"""
    m = re.search(rx, code)
    if not m:
        raise RuntimeError("cannot find %s" % what)
    # attributes directly above
    pre = code[:m.start()]
    attrs = []
    lines = pre.rstrip().split("\n")
    while lines and (lines[-1].strip().startswith("#[") or lines[-1].strip().startswith("///") or lines[-1].strip() == ""):
        if lines[-1].strip().startswith("#["):
            attrs.append(lines[-1].strip())
        lines.pop()
    body = fn_body(code, rx, what)
    return attrs, body

def variants(body):
    inner = strip_comments(body[1:-1])
    inner = re.sub(r"#\[[^\]]*\]", lambda m: " @ATTR(" + m.group(0) + ") ", inner)
    out, attrs = [], []
    for part in re.split(r",(?![^(]*\))", inner):
        p = part.strip()
        if not p:
            continue
        for a in re.findall(r"@ATTR\((#\[[^\]]*\])\)", p):
            if "serde" in a:
                attrs.append(a)
        p = re.sub(r"@ATTR\(#\[[^\]]*\]\)", "", p).strip()
        m = re.match(r"(\w+)", p)
        if m:
            out.append(m.group(1))
    return out, attrs

def fields(body):
    inner = strip_comments(body[1:-1])
    attrs = [a for a in re.findall(r"#\[[^\]]*\]", inner) if "serde" in a]
    inner = re.sub(r"#\[[^\]]*\]", "", inner)
    out = []
    for part in inner.split(","):
        m = re.match(r"\s*(?:pub(?:\([^)]*\))?\s+)?(\w+)\s*:", part.strip())
        if m:
            out.append(m.group(1))
    return out, attrs

def coq_list(xs):
    return "[" + "; ".join('"%s"' % x.replace('"', '""') for x in xs) + "]"

def generate(repo):
    wasm_raw = open(os.path.join(repo, "harper-wasm/src/lib.rs"), encoding="utf-8").read()
    wasm = strip_comments(re.sub(r"///[^\n]*", "", wasm_raw))
    lint_body = fn_body(wasm, r"pub fn lint\(&mut self, text: String, language: Language\)", "Linter::lint")
    pipeline = events(lint_body, [
        (r"let\s+temp\s*=\s*self\.lint_group\.config\.clone\(\)", "save_config"),
        (r"self\.lint_group\.config\.fill_with_curated\(\)", "fill_with_curated"),
        (r"self\.lint_group\.lint\(&document\)", "lint_group_lint"),
        (r"self\.lint_group\.config\s*=\s*temp", "restore_config"),
        (r"remove_overlaps\(&mut lints\)", "remove_overlaps"),
        (r"self\.ignored_lints\.remove_ignored\(&mut lints, &document\)", "remove_ignored"),
        (r"\.span\.get_content_string\(&source\)", "problem_text_of_span"),
        (r"Lint::new\(l, problem_text, language\)", "wrap"),
    ])
    imp_body = fn_body(wasm, r"pub fn import_words\(&mut self, additional_words: Vec<String>\)", "Linter::import_words")
    m = re.search(r"if\s+(.*?)\s*\{\s*self\.synchronize_lint_dict\(\)", imp_body, re.S)
    if not m:
        raise RuntimeError("import_words no longer has the shape `if <cond> { self.synchronize_lint_dict() }`")
    cond = re.sub(r"\s+", " ", m.group(1)).strip()
    init = re.search(r"let\s+init_len\s*=\s*(.*?);", imp_body, re.S)
    init_expr = re.sub(r"\s+", " ", init.group(1)).strip() if init else "?"
    sync_body = fn_body(wasm, r"fn synchronize_lint_dict\(&mut self\)", "synchronize_lint_dict")
    sync = events(sync_body, [
        (r"let\s+mut\s+lint_config\s*=\s*self\.lint_group\.config\.clone\(\)", "save_config"),
        (r"self\.dictionary\s*=\s*Self::construct_merged_dict\(self\.user_dictionary\.clone\(\)\)", "dictionary_from_user_dictionary"),
        (r"LintGroup::new_curated_empty_config\(self\.dictionary\.clone\(\),\s*self\.dialect\.into\(\)\)", "new_curated_empty_config"),
        (r"self\.lint_group\.config\.merge_from\(&mut lint_config\)", "merge_saved_config"),
    ])
    apply_body = fn_body(wasm, r"pub fn apply_suggestion\(", "Linter::apply_suggestion")
    apply = events(apply_body, [
        (r"\.records\s*\.push\(Record::now\(RecordKind::from_lint\(&lint\.inner, &doc\)\)\)", "push_record"),
        (r"suggestion\.inner\.apply\(lint\.inner\.span, &mut source\)", "apply_to_lint_span"),
    ])
    impign_body = fn_body(wasm, r"pub fn import_ignored_lints\(&mut self, json: String\)", "Linter::import_ignored_lints")
    impign = events(impign_body, [
        (r"self\.ignored_lints\.append\(list\)", "append"),
        (r"self\.ignored_lints\s*=\s*", "replace"),
    ])
    ign_body = fn_body(wasm, r"pub fn ignore_lint\(&mut self, source_text: String, lint: Lint\)", "Linter::ignore_lint")
    ign = events(ign_body, [
        (r"&lint\.language\.create_parser\(\)", "parser_of_lint_language"),
        (r"&self\.dictionary", "linter_dictionary"),
        (r"self\.ignored_lints\.ignore_lint\(&lint\.inner, &document\)", "ignore_inner_on_document"),
    ])
    serde_attrs = []
    a, b = item(wasm_raw, r"pub struct Lint\s*\{", "wasm Lint"); wl_fields, fa = fields(b); serde_attrs += fa + [x for x in a if "serde" in x]
    a, b = item(wasm_raw, r"pub struct Span\s*\{", "wasm Span"); ws_fields, fa = fields(b); serde_attrs += fa + [x for x in a if "serde" in x]
    a, b = item(wasm_raw, r"pub struct Suggestion\s*\{", "wasm Suggestion"); wg_fields, fa = fields(b); serde_attrs += fa + [x for x in a if "serde" in x]
    a, b = item(wasm_raw, r"pub enum Language\s*\{", "wasm Language"); lang_vars, fa = variants(b); serde_attrs += fa + [x for x in a if "serde" in x]
    core = lambda rel: open(os.path.join(repo, rel), encoding="utf-8").read()
    a, b = item(core("harper-core/src/linting/lint.rs"), r"pub struct Lint\s*\{", "core Lint"); cl_fields, fa = fields(b); serde_attrs += fa + [x for x in a if "serde" in x]
    a, b = item(core("harper-core/src/span.rs"), r"pub struct Span\s*\{", "core Span"); cs_fields, fa = fields(b); serde_attrs += fa + [x for x in a if "serde" in x]
    a, b = item(core("harper-core/src/linting/suggestion.rs"), r"pub enum Suggestion\s*\{", "core Suggestion"); sug_vars, fa = variants(b); serde_attrs += fa + [x for x in a if "serde" in x]
    a, b = item(core("harper-core/src/linting/lint_kind.rs"), r"pub enum LintKind\s*\{", "LintKind"); kind_vars, fa = variants(b); serde_attrs += fa + [x for x in a if "serde" in x]
    a, b = item(core("harper-core/src/ignored_lints/mod.rs"), r"pub struct IgnoredLints\s*\{", "IgnoredLints"); il_fields, fa = fields(b); serde_attrs += fa + [x for x in a if "serde" in x]
    out = ["(* GENERATED by tools/tables/wasmapi.py from /repo — do not edit. *)",
           "From Coq Require Import List String.", "Import ListNotations.", "Open Scope string_scope.", "",
           "(* steps of harper_wasm::Linter::lint, in source order *)",
           "Definition wasm_lint_pipeline : list string := %s." % coq_list(pipeline),
           "(* import_words: `let init_len = <expr>` and the condition guarding synchronize_lint_dict *)",
           "Definition wasm_import_words_init_len : string := \"%s\"." % init_expr.replace('"', '""'),
           "Definition wasm_import_words_sync_condition : string := \"%s\"." % cond.replace('"', '""'),
           "Definition wasm_synchronize_steps : list string := %s." % coq_list(sync),
           "Definition wasm_apply_suggestion_steps : list string := %s." % coq_list(apply),
           "Definition wasm_import_ignored_steps : list string := %s." % coq_list(impign),
           "Definition wasm_ignore_lint_steps : list string := %s." % coq_list(ign),
           "(* what serde derives the JSON from *)",
           "Definition lint_kind_variants : list string := %s." % coq_list(kind_vars),
           "Definition suggestion_variants : list string := %s." % coq_list(sug_vars),
           "Definition language_variants : list string := %s." % coq_list(lang_vars),
           "Definition core_lint_fields : list string := %s." % coq_list(cl_fields),
           "Definition core_span_fields : list string := %s." % coq_list(cs_fields),
           "Definition wasm_lint_fields : list string := %s." % coq_list(wl_fields),
           "Definition wasm_span_fields : list string := %s." % coq_list(ws_fields),
           "Definition wasm_suggestion_fields : list string := %s." % coq_list(wg_fields),
           "Definition ignored_lints_fields : list string := %s." % coq_list(il_fields),
           "Definition serde_attributes_on_these_types : list string := %s." % coq_list(serde_attrs)]
    return "\n".join(out) + "\n"
