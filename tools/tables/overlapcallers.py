"""overlapcallers — the call sites of harper_core::remove_overlaps that C13's consequence rests on:
the JS-facing Linter::lint (harper-wasm), the CLI lint command (harper-cli), CurrencyPlacement and the
merge_linters! macro.  For each site the table records whether, inside the enclosing function, the
call `remove_overlaps(&mut lints)` is still applied to the lint vector that is afterwards returned /
printed.  Raises if a file is missing.

Deepening (phase 3):
* census: every `.rs` file of /repo is scanned for calls of remove_overlaps; the set of (file, number of
  calls) must be exactly CENSUS — the module RAISES when a new caller appears or a known one disappears
  (the models of Model/C13Callers.v would no longer cover "the callers").
* skeletons: for each site the ordered list of statements that touch the lint vector `lints`, each
  classified by shape; a statement touching `lints` that matches no known shape RAISES; the order is
  emitted and compared in Coq with the order the models of C13Callers.v compose
  (Proofs/OverlapCallers.v: overlap_call_skeletons_ok)."""
import os, re

SITES = [
    ("harper-wasm/src/lib.rs", r"pub fn lint\(&mut self, text: String, language: Language\)", "wasm_lint"),
    ("harper-cli/src/main.rs", r"Args::Lint\s*\{[^}]*\}\s*=>\s*", "cli_lint"),
    ("harper-core/src/linting/currency_placement.rs", r"fn lint\(&mut self, document: &Document\)", "currency_placement"),
    ("harper-core/src/linting/merge_linters.rs", r"fn lint\(&mut self, document: &Document\)", "merge_linters_macro"),
]

# file -> number of call expressions `remove_overlaps(` (the definition `fn remove_overlaps(` is not a call)
CENSUS = {
    "harper-wasm/src/lib.rs": 1,
    "harper-cli/src/main.rs": 1,
    "harper-core/src/linting/currency_placement.rs": 1,
    "harper-core/src/linting/merge_linters.rs": 1,
    "harper-core/src/lib.rs": 1,          # the unit test keeps_space_lint next to the definition
}

# statement shapes that may touch `lints` inside a call site, in no particular order
SHAPES = [
    (r"let\s+mut\s+lints\s*=\s*(?:self\.lint_group|linter)\.lint\(&\w+\)\s*;", "lint_group"),
    (r"let\s+mut\s+lints\s*=\s*Vec::new\(\)\s*;", "new"),
    (r"if\s+count\s*\{\s*println!\(\s*\"\{\}\"\s*,\s*lints\.len\(\)\s*\)\s*;\s*return\s+Ok\(\(\)\)\s*;\s*\}", "count_len_return"),
    (r"if\s+lints\.is_empty\(\)\s*\{\s*println!\(\s*\"No lints found\"\s*\)\s*;\s*return\s+Ok\(\(\)\)\s*;\s*\}", "empty_return"),
    (r"lints\.extend\(\s*generate_lint_for_tokens\(\s*a\s*,\s*b\s*,\s*document\s*\)\s*\)\s*;", "extend_ab"),
    (r"lints\.extend\(\s*generate_lint_for_tokens\(\s*a\s*,\s*c\s*,\s*document\s*\)\s*\)\s*;", "extend_ac"),
    (r"lints\.extend\(\s*self\.\[<\s*\$linter:snake\s*>\]\.lint\(document\)\s*\)\s*;", "extend_sub"),
    (r"remove_overlaps\(&mut lints\)\s*;", "remove_overlaps"),
    (r"self\.ignored_lints\.remove_ignored\(&mut lints\s*,\s*&document\)\s*;", "remove_ignored"),
    (r"\blints\s*\.into_iter\(\)\s*\.map\(", "map_each"),
    (r"for\s+lint\s+in\s+lints\s*\{", "label_each"),
    (r"\blints\s*\}\s*$", "return"),
]

def census(repo):
    found = {}
    for root, dirs, files in os.walk(repo):
        dirs[:] = [d for d in dirs if d not in ("target", "node_modules", ".git")]
        for f in files:
            if not f.endswith(".rs"):
                continue
            p = os.path.join(root, f)
            code = open(p, encoding="utf-8", errors="replace").read()
            code = re.sub(r"//[^\n]*", "", code)
            n = len(re.findall(r"(?<!fn )\bremove_overlaps\s*\(", code))
            if n:
                found[os.path.relpath(p, repo)] = n
    if found != CENSUS:
        new = sorted(set(found) - set(CENSUS)); gone = sorted(set(CENSUS) - set(found))
        diff = sorted(k for k in set(found) & set(CENSUS) if found[k] != CENSUS[k])
        raise RuntimeError("callers of remove_overlaps changed: new files %s, gone %s, different number of calls %s "
                           "(found %s) — extend Model/C13Callers.v and this table" % (new, gone, diff, found))
    return sorted(found.items())

def skeleton(body, name):
    hits = []
    for rx, tag in SHAPES:
        for m in re.finditer(rx, body):
            hits.append((m.start(), m.end(), tag))
    hits.sort()
    for (s1, e1, _), (s2, e2, _) in zip(hits, hits[1:]):
        if s2 < e1:
            raise RuntimeError("overlapping statement shapes in %s" % name)
    for m in re.finditer(r"\blints\b", body):
        if not any(s <= m.start() < e for s, e, _ in hits):
            line = body[:m.start()].count("\n") + 1
            raise RuntimeError("%s: a statement touching `lints` has a shape this table does not know "
                               "(line %d of the function body: %r)" % (name, line, body[max(0, m.start() - 40):m.start() + 40]))
    return [t for _, _, t in hits]

def body_after(code, m):
    i = code.find("{", m.end() - 1)
    depth, j = 0, i
    while j < len(code):
        if code[j] == "{":
            depth += 1
        elif code[j] == "}":
            depth -= 1
            if depth == 0:
                break
        j += 1
    return code[i:j + 1]

def generate(repo):
    rows = []
    cens = census(repo)
    skels = []
    for rel, fn_rx, name in SITES:
        p = os.path.join(repo, rel)
        code = open(p, encoding="utf-8").read()
        code = re.sub(r"//[^\n]*", "", code)
        m = re.search(fn_rx, code)
        if not m:
            raise RuntimeError("cannot find %s in %s" % (fn_rx, rel))
        body = body_after(code, m)
        lint_call = re.search(r"\.lint\(&?\w+\)|lints\.extend\(", body)
        ro = re.search(r"remove_overlaps\(&mut lints\)\s*;", body)
        ok = bool(lint_call and ro and ro.start() > lint_call.start())
        # the call must not sit behind a condition that can skip it while lints are still reported
        guarded = False
        if ro:
            pre = body[:ro.start()]
            last_if = max(pre.rfind("if "), pre.rfind("match "))
            if last_if >= 0:
                seg = pre[last_if:]
                guarded = seg.count("{") > seg.count("}")
        rows.append((name, rel, ok and not guarded))
        skels.append((name, skeleton(body, name)))
    out = ["(* GENERATED by tools/tables/overlapcallers.py from /repo — do not edit. *)",
           "From Coq Require Import List String Bool.", "Import ListNotations.", "Open Scope string_scope.", "",
           "(* (site, file, remove_overlaps is applied unconditionally to the lints before they leave) *)",
           "Definition overlap_call_sites : list (string * string * bool) := ["]
    out.append(";\n".join('  ("%s", "%s", %s)' % (n, r, "true" if ok else "false") for n, r, ok in rows))
    out.append("].")
    out += ["", "(* every .rs file of the repository that calls remove_overlaps, with the number of calls",
            "   (the generator raises when this set changes) *)",
            "Definition overlap_call_census : list (string * nat) := ["]
    out.append(";\n".join('  ("%s", %d)' % (f, n) for f, n in cens))
    out.append("].")
    out += ["", "(* per site: the statements that touch the lint vector, in source order, by shape *)",
            "Definition overlap_call_skeletons : list (string * list string) := ["]
    out.append(";\n".join('  ("%s", [%s])' % (n, "; ".join('"%s"' % t for t in sk)) for n, sk in skels))
    out.append("].")
    return "\n".join(out) + "\n"
