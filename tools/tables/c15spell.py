"""c15spell — reads the statements of harper-core/src/spell/mod.rs (score_suggestion, order_suggestions,
suggest_correct_spelling) and the post-processing of FstDictionary::fuzzy_match (fst_dictionary.rs) that
Model/C15Suggest.v / Model/Fuzzy.v hard-wire, and writes the constants to coq/Model/Tables_c15spell.v.
Proofs/C15SpellTable.v proves that the model's score is the score built from these constants.
In particular it pins: `matches.sort_by_key(..)` (the STABLE sort of std — `sort_unstable_by_key` or any other
call raises), the single `fuzzy_match(misspelled_word, max_edit_dist, result_limit)` call, the field
`sug.metadata.common`, TRANSPOSITION_COST_ONE = false (plain Levenshtein distance), the `dist_u <= dist_l` choice of
the zip loop and the sort / dedup / sort / truncate sequence.  Raises when a shape is not recognised."""
import os, re


def strip(src):
    i = src.find("#[cfg(test)]")
    src = src if i < 0 else src[:i]
    src = re.sub(r"//[^\n]*", "", src)
    return src


def body_of(src, header_re):
    m = re.search(header_re, src, re.S)
    if not m:
        raise ValueError("cannot find %r" % header_re)
    i = src.index("{", m.end() - 1)
    depth, j = 0, i
    while j < len(src):
        if src[j] == "{":
            depth += 1
        elif src[j] == "}":
            depth -= 1
            if depth == 0:
                return src[i + 1:j]
        j += 1
    raise ValueError("unbalanced braces after %r" % header_re)


def norm(s):
    return re.sub(r"\s+", " ", s).strip()


def char_code(lit):
    if lit == "\\'":
        return 39
    if len(lit) == 1:
        return ord(lit)
    raise ValueError("unrecognised char literal %r" % lit)


def generate(repo):
    src = strip(open(os.path.join(repo, "harper-core/src/spell/mod.rs"), encoding="utf-8").read())
    # ---- score_suggestion: the exact statement sequence ----
    sc = norm(body_of(src, r"fn score_suggestion\(misspelled_word: &\[char\], sug: &FuzzyMatchResult\) -> i32\s*\{"))
    pat = (r"^if misspelled_word\.is_empty\(\) \|\| sug\.word\.is_empty\(\) \{ return i32::MAX; \} "
           r"let mut score = sug\.edit_distance as i32 \* (\d+); "
           r"if misspelled_word\.first\(\)\.unwrap\(\) == sug\.word\.first\(\)\.unwrap\(\) \{ score -= (\d+); \} "
           r"if \*misspelled_word\.last\(\)\.unwrap\(\) == '(\\'|[^'\\])' && \*sug\.word\.last\(\)\.unwrap\(\) == '(\\'|[^'\\])' \{ score -= (\d+); \} "
           r"if sug\.metadata\.common \{ score -= (\d+); \} "
           r"if sug\.word\.iter\(\)\.filter\(\|c\| \*\*c == '(\\'|[^'\\])'\)\.count\(\) == (\d+) \{ score -= (\d+); \} "
           r"score$")
    m = re.match(pat, sc)
    if not m:
        raise ValueError("score_suggestion: unrecognised statement sequence: %r" % sc)
    w_dist, w_first, pl1, pl2, w_plural, w_common, apo, apo_n, w_apo = m.groups()
    if pl1 != pl2:
        raise ValueError("score_suggestion: the plural heuristic compares two different characters")
    # ---- order_suggestions: a stable sort by the score, then the words ----
    od = norm(body_of(src, r"fn order_suggestions<'b>\(\s*misspelled_word: &\[char\],\s*mut matches: Vec<FuzzyMatchResult<'b>>,?\s*\) -> Vec<&'b \[char\]>\s*\{"))
    if od != "matches.sort_by_key(|v| score_suggestion(misspelled_word, v)); matches.into_iter().map(|v| v.word).collect()":
        raise ValueError("order_suggestions: not `sort_by_key(score) ; map word`: %r" % od)
    # ---- suggest_correct_spelling: ONE fuzzy_match call with (word, max_edit_dist, result_limit) ----
    sg = norm(body_of(src, r"pub fn suggest_correct_spelling<'a>\(\s*misspelled_word: &\[char\],\s*result_limit: usize,\s*max_edit_dist: u8,\s*dictionary: &'a impl Dictionary,?\s*\) -> Vec<&'a \[char\]>\s*\{"))
    if sg != ("let matches: Vec<FuzzyMatchResult> = dictionary .fuzzy_match(misspelled_word, max_edit_dist, result_limit) "
              ".into_iter() .collect(); order_suggestions(misspelled_word, matches)"):
        raise ValueError("suggest_correct_spelling: unrecognised body: %r" % sg)
    # ---- FuzzyMatchResult's order is by edit_distance ----
    if not re.search(r"impl PartialOrd for FuzzyMatchResult<'_> \{\s*fn partial_cmp\(&self, other: &Self\) -> Option<std::cmp::Ordering> \{\s*self\.edit_distance\.partial_cmp\(&other\.edit_distance\)\s*\}\s*\}", src):
        raise ValueError("FuzzyMatchResult: PartialOrd is not by edit_distance")
    # ---- fst_dictionary.rs: plain Levenshtein, zip choice, post-processing ----
    fsrc = strip(open(os.path.join(repo, "harper-core/src/spell/fst_dictionary.rs"), encoding="utf-8").read())
    mt = re.search(r"const TRANSPOSITION_COST_ONE: bool = (true|false);", fsrc)
    if not mt:
        raise ValueError("fst_dictionary.rs: TRANSPOSITION_COST_ONE not found")
    if len(re.findall(r"LevenshteinAutomatonBuilder::new\(", fsrc)) != len(re.findall(r"LevenshteinAutomatonBuilder::new\(\s*(?:EXPECTED_DISTANCE|max_distance),\s*TRANSPOSITION_COST_ONE\s*,?\s*\)", fsrc)):
        raise ValueError("fst_dictionary.rs: a LevenshteinAutomatonBuilder is built with other arguments")
    fz = norm(body_of(fsrc, r"fn fuzzy_match\(\s*&self,\s*word: &\[char\],\s*max_distance: u8,\s*max_results: usize,?\s*\) -> Vec<FuzzyMatchResult>\s*\{"))
    need = [
        "let misspelled_word_charslice = word.normalized(); let misspelled_word_string = misspelled_word_charslice.to_string();",
        "let dfa = build_dfa(max_distance, &misspelled_word_string); let dfa_lowercase = build_dfa(max_distance, &misspelled_word_string.to_lowercase());",
        "for ((i_u, dist_u), (i_l, dist_l)) in upper_dists.into_iter().zip(lower_dists.into_iter()) { let (chosen_index, edit_distance) = if dist_u <= dist_l { (i_u, dist_u) } else { (i_l, dist_l) }; let (word, metadata) = &self.words[chosen_index as usize];",
        "merged.sort_unstable_by_key(|v| v.word); merged.dedup_by_key(|v| v.word); merged.sort_unstable_by_key(|v| v.edit_distance); merged.truncate(max_results); merged",
    ]
    pos = 0
    for frag in need:
        k = fz.find(frag, pos)
        if k < 0:
            raise ValueError("FstDictionary::fuzzy_match: fragment not found (in order): %r" % frag)
        pos = k + len(frag)
    if not fz.endswith(need[-1]):
        raise ValueError("FstDictionary::fuzzy_match: statements after the final truncate")
    sd = norm(body_of(fsrc, r"fn stream_distances_vec\(stream: &mut StreamWithState<&DFA>, dfa: &DFA\) -> Vec<\(u64, u8\)>\s*\{"))
    if sd != "let mut word_index_pairs = Vec::new(); while let Some((_, v, s)) = stream.next() { word_index_pairs.push((v, dfa.distance(s).to_u8())); } word_index_pairs":
        raise ValueError("stream_distances_vec: unrecognised body: %r" % sd)
    out = []
    out.append("(* GENERATED by tools/tables/c15spell.py from harper-core/src/spell/{mod,fst_dictionary}.rs — do not edit.")
    out.append("   The constants of score_suggestion, and shape facts pinned by the translator (it raises otherwise):")
    out.append("   order_suggestions = `matches.sort_by_key(score)` (std's STABLE sort) then `.map(|v| v.word)`;")
    out.append("   suggest_correct_spelling = one `fuzzy_match(misspelled_word, max_edit_dist, result_limit)` call;")
    out.append("   FstDictionary::fuzzy_match = two DFAs (normalised query, its String::to_lowercase), zip with `dist_u <= dist_l`,")
    out.append("   sort_unstable_by_key(word), dedup_by_key(word), sort_unstable_by_key(edit_distance), truncate(max_results). *)")
    out.append("From Coq Require Import ZArith NArith.")
    out.append("")
    out.append("Definition spell_w_distance : Z := %s%%Z.        (* sug.edit_distance as i32 * _ *)" % w_dist)
    out.append("Definition spell_w_first_letter : Z := %s%%Z.    (* same first character: score -= _ *)" % w_first)
    out.append("Definition spell_w_plural : Z := %s%%Z.          (* both end in the plural character: score -= _ *)" % w_plural)
    out.append("Definition spell_w_common : Z := %s%%Z.          (* sug.metadata.common: score -= _ *)" % w_common)
    out.append("Definition spell_w_apostrophe : Z := %s%%Z.      (* exactly spell_apostrophe_count apostrophes: score -= _ *)" % w_apo)
    out.append("Definition spell_plural_char : N := %d%%N." % char_code(pl1))
    out.append("Definition spell_apostrophe_char : N := %d%%N." % char_code(apo))
    out.append("Definition spell_apostrophe_count : nat := %s." % apo_n)
    out.append("Definition spell_sort_stable : bool := true.          (* Vec::sort_by_key *)")
    out.append("Definition fst_transposition_cost_one : bool := %s.  (* LevenshteinAutomatonBuilder::new(_, TRANSPOSITION_COST_ONE) *)" % mt.group(1))
    out.append("")
    return "\n".join(out)
