"""typst — which arm of harper-typst/src/typst_translator.rs::parse_expr does what, re-read on every run:
  * every `Expr::X(..) =>` arm of the final `match expr` with its class: Text (parse_english on text.get()),
    Str (PlainEnglish on the raw text between the quotes, shifted by char + 1), Leaf (nothing but token!(<the expression>, kind)),
    Recurse (anything that calls recurse! / iter_recurse / parse_* / merge!); the default arm must be
    `a => token!(a, TokenKind::Unlintable)`;
  * the function-call table of parse_func_call (callee text -> ignore positional args?, ignored named args);
  * the emission ORDER of the arms that were out of source order before 3103238 (F34): Expr::Set = target, args, condition;
    Expr::Show = selector, transform; parse_args_ignored keeps the call arguments in text order (one filter_map over
    func.args().items(), a dead argument = token!(a, Unlintable), a live one = parse_args(once(a)));
  * the retain filter at the end of Typst::parse (harper-typst/src/lib.rs, b629a93): collect, `let mut covered = 0;`,
    `tokens.retain(|t| { if t.span.start < covered { return false; } covered = covered.max(t.span.end); true });`, return;
  * the shape of def_token! and of the prelude of parse_expr (range check with `?`, push_to_span) that Model/C04Typst.v mirrors.
Raises when an arm, the macro or the prelude no longer has the shape it knows (a NEW arm raises: its class decides
whether its text is offered as prose)."""
import os, re

KNOWN = {
    "Text": "ArmText", "Str": "ArmStr",
    "Space": "ArmLeaf", "Linebreak": "ArmLeaf", "Parbreak": "ArmLeaf", "SmartQuote": "ArmLeaf", "Link": "ArmLeaf",
    "Strong": "ArmRecurse", "Emph": "ArmRecurse", "Heading": "ArmRecurse", "List": "ArmRecurse", "Enum": "ArmRecurse",
    "Term": "ArmRecurse", "Content": "ArmRecurse", "Parenthesized": "ArmRecurse", "Array": "ArmRecurse", "Dict": "ArmRecurse",
    "FieldAccess": "ArmRecurse", "Let": "ArmRecurse", "DestructAssign": "ArmRecurse", "Set": "ArmRecurse", "Show": "ArmRecurse",
    "Contextual": "ArmRecurse", "Conditional": "ArmRecurse", "While": "ArmRecurse", "For": "ArmRecurse", "Code": "ArmRecurse",
    "Closure": "ArmRecurse", "FuncCall": "ArmRecurse",
}

def norm(s):
    return re.sub(r"\s+", " ", s).strip()

def split_arms(body):
    """top-level arms of a match body: `pattern => expr,` / `pattern => { .. }`"""
    arms, depth, i, start = [], 0, 0, 0
    n = len(body)
    in_str = False
    while i < n:
        c = body[i]
        if in_str:
            if c == "\\":
                i += 1
            elif c == '"':
                in_str = False
        elif c == '"':
            in_str = True
        elif c == "'" and i + 2 < n and body[i + 2] == "'":
            i += 2
        elif c == "'" and i + 3 < n and body[i + 1] == "\\" and body[i + 3] == "'":
            i += 3
        elif c in "([{":
            depth += 1
        elif c in ")]}":
            depth -= 1
            if depth == 0 and c == "}":
                # a block arm ends here when followed by optional comma
                j = i + 1
                while j < n and body[j] in " \t\r\n":
                    j += 1
                if "=>" in body[start:i] and (j >= n or body[j] == "," or re.match(r"(Expr::|a =>)", body[j:])):
                    arms.append(body[start:i + 1])
                    start = j + 1 if j < n and body[j] == "," else j
                    i = start - 1
        elif c == "," and depth == 0:
            arms.append(body[start:i])
            start = i + 1
        i += 1
    if body[start:].strip():
        arms.append(body[start:])
    return [a.strip() for a in arms if a.strip()]

def classify(name, binder, rhs):
    r = norm(rhs)
    if "parse_english(" in r:
        if r != "self.parse_english(%s.get(), offset.push_to_span(%s.span()))" % (binder, binder):
            raise RuntimeError("typst_translator.rs: the Text arm changed shape: %r" % r)
        return "ArmText"
    if "parse_str(" in r:
        want = ("{ let offset = offset.push_to_span(%s.span()).char + 1; let string = %s.to_untyped().text(); "
                "Some( PlainEnglish .parse_str(&string[1..string.len() - 1]) .into_iter() .map(|mut t| { t.span.push_by(offset); t }) "
                ".collect_vec(), ) }") % (binder, binder)
        if r != want:
            raise RuntimeError("typst_translator.rs: the Str arm changed shape: %r" % r)
        return "ArmStr"
    # a leaf: every token!(..) is about the bound expression itself and nothing recurses
    toks = re.findall(r"token!\(\s*(\w+)\s*,", r)
    recursing = re.search(r"recurse!|iter_recurse|parse_pattern|parse_ident|parse_spread|parse_args|parse_params|parse_func_call|merge!|parse_expr", r)
    if toks and not recursing:
        if any(t != binder for t in toks):
            raise RuntimeError("typst_translator.rs: arm %s emits a token for something else than its expression: %r" % (name, r))
        return "ArmLeaf"
    if recursing:
        return "ArmRecurse"
    raise RuntimeError("typst_translator.rs: cannot classify arm %s: %r" % (name, r))

def generate(repo):
    src = open(os.path.join(repo, "harper-typst/src/typst_translator.rs"), encoding="utf-8").read()
    # ---- def_token! ----
    m = re.search(r"macro_rules! def_token \{(.*?)\n\}\n", src, re.S)
    if not m:
        raise RuntimeError("typst_translator.rs: def_token! not found")
    want = ("($doc:expr, $a:expr, $kind:expr, $offset:ident) => {{ let range = $doc.range($a.span()).unwrap(); "
            "let start = $offset.push_to(range.start); let end_char_loc = start.push_to(range.end).char; "
            "Some(vec![Token { span: harper_core::Span { start: start.char, end: end_char_loc, }, kind: $kind, }]) }};")
    if norm(m.group(1)) != want:
        raise RuntimeError("typst_translator.rs: def_token! changed shape: %r" % norm(m.group(1)))
    # ---- prelude of parse_expr ----
    pm = re.search(r"pub fn parse_expr\(self, expr: Expr, offset: OffsetCursor\) -> Option<Vec<Token>> \{(.*?)/// Simplification", src, re.S)
    if not pm:
        raise RuntimeError("typst_translator.rs: parse_expr not found")
    pre = norm(re.sub(r"//[^\n]*", "", pm.group(1)))
    if pre != "self.doc.range(expr.span())?; let offset = offset.push_to_span(expr.span());":
        raise RuntimeError("typst_translator.rs: the prelude of parse_expr changed shape: %r" % pre)
    # ---- the arms ----
    k = src.rindex("match expr {")
    depth, i = 0, k + len("match expr ")
    j = i
    while True:
        if src[j] == "{":
            depth += 1
        elif src[j] == "}":
            depth -= 1
            if depth == 0:
                break
        j += 1
    body = re.sub(r"//[^\n]*", "", src[i + 1:j])
    arms = split_arms(body)
    rows, default = [], None
    rhs_of = {}
    for a in arms:
        pat, rhs = a.split("=>", 1)
        pat = pat.strip()
        mm = re.fullmatch(r"Expr::(\w+)\((\w+)\)", pat)
        if mm:
            rows.append((mm.group(1), classify(mm.group(1), mm.group(2), rhs)))
            rhs_of[mm.group(1)] = norm(rhs).rstrip(",")
        elif pat == "a":
            default = norm(rhs).rstrip(",")
        else:
            raise RuntimeError("typst_translator.rs: unrecognised match pattern %r" % pat)
    if default != "token!(a, TokenKind::Unlintable)":
        raise RuntimeError("typst_translator.rs: the default arm is not `a => token!(a, TokenKind::Unlintable)`: %r" % default)
    names = [n for n, _ in rows]
    if len(set(names)) != len(names):
        raise RuntimeError("typst_translator.rs: an Expr variant has two arms")
    for n, c in rows:
        if n not in KNOWN:
            raise RuntimeError("typst_translator.rs: NEW arm Expr::%s (class %s): decide whether it is prose, then extend tools/tables/typst.py, Model/C04Typst.v's comment and the harness tree builder" % (n, c))
        if KNOWN[n] != c:
            raise RuntimeError("typst_translator.rs: arm Expr::%s changed class: %s, known as %s" % (n, c, KNOWN[n]))
    missing = sorted(set(KNOWN) - set(names))
    if missing:
        raise RuntimeError("typst_translator.rs: arms disappeared (they now fall to the default Unlintable arm): %s" % ", ".join(missing))
    # ---- emission order of the Set / Show arms and of parse_args_ignored (3103238) ----
    ORDER = {
        "Set": ("merge![ recurse!(set_rule.target()), parse_args(&mut set_rule.args().items()), "
                "set_rule.condition().and_then(|expr| recurse!(expr)) ]", ["target", "args", "condition"]),
        "Show": ("merge![ show_rule.selector().and_then(|expr| recurse!(expr)), recurse!(show_rule.transform()) ]",
                 ["selector", "transform"]),
    }
    for n, (want_rhs, _) in ORDER.items():
        if rhs_of.get(n) != want_rhs:
            raise RuntimeError("typst_translator.rs: arm Expr::%s no longer emits in the known (source) order: %r" % (n, rhs_of.get(n)))
    am = re.search(r"let parse_args_ignored = \|ignore_pos: bool, ignore_nameds: &\[&str\]\| \{(.*?)\n            \};", src, re.S)
    if not am:
        raise RuntimeError("typst_translator.rs: parse_args_ignored not found")
    want_pai = ("Some( func.args() .items() .filter_map(|a| { let dead = match &a { Arg::Pos(_) => ignore_pos, "
                "Arg::Named(named) => ignore_nameds.contains(&named.name().as_str()), Arg::Spread(_) => false, }; "
                "if dead { token!(a, TokenKind::Unlintable) } else { parse_args(&mut std::iter::once(a)) } }) "
                ".flatten() .collect_vec(), )")
    got_pai = norm(re.sub(r"//[^\n]*", "", am.group(1)))
    if got_pai != want_pai:
        raise RuntimeError("typst_translator.rs: parse_args_ignored changed shape (arguments no longer in text order?): %r" % got_pai)
    # ---- Typst::parse: collect, retain filter, return (b629a93) ----
    lib = open(os.path.join(repo, "harper-typst/src/lib.rs"), encoding="utf-8").read()
    lm = re.search(r"fn parse\(&self, source: &\[char\]\) -> Vec<Token> \{(.*?)\n    \}\n\}", lib, re.S)
    if not lm:
        raise RuntimeError("harper-typst/src/lib.rs: Typst::parse not found")
    lbody = norm(re.sub(r"//[^\n]*", "", lm.group(1)))
    want_tail = ("let mut tokens = exprs .into_iter() .filter_map(|ex| parse_helper.parse_expr(ex, OffsetCursor::new(&typst_document))) "
                 ".flatten() .collect_vec(); let mut covered = 0; tokens.retain(|t| { if t.span.start < covered { return false; } "
                 "covered = covered.max(t.span.end); true }); tokens")
    if not lbody.endswith(want_tail):
        raise RuntimeError("harper-typst/src/lib.rs: the end of Typst::parse (collect, retain filter, return) changed shape: %r" % lbody[-400:])
    # ---- parse_func_call table ----
    fm = re.search(r"match text \{(.*?)\n\s*\}\n\s*\]", src, re.S)
    if not fm:
        raise RuntimeError("typst_translator.rs: the callee table of parse_func_call not found")
    calls = []
    for line in fm.group(1).split("\n"):
        line = line.strip().rstrip(",")
        if not line:
            continue
        m1 = re.fullmatch(r'((?:"[^"]+"\s*\|\s*)*"[^"]+")\s*=>\s*parse_args_ignored\((true|false), &\[((?:"[^"]*"(?:,\s*)?)*)\]\)', line)
        m2 = re.fullmatch(r'_ if text\.ends_with\("([^"]+)"\) => parse_args_ignored\((true|false), &\[((?:"[^"]*"(?:,\s*)?)*)\]\)', line)
        if m1:
            calls.append((re.findall(r'"([^"]+)"', m1.group(1)), "", m1.group(2), re.findall(r'"([^"]*)"', m1.group(3))))
        elif m2:
            calls.append(([], m2.group(1), m2.group(2), re.findall(r'"([^"]*)"', m2.group(3))))
        elif line == "_ => parse_args(&mut func.args().items())":
            pass
        else:
            raise RuntimeError("typst_translator.rs: unrecognised row of the callee table: %r" % line)
    def sl(xs):
        return "[" + "; ".join('"%s"%%string' % x for x in xs) + "]"
    out = []
    out.append("(* GENERATED by tools/tables/typst.py from harper-typst/src/typst_translator.rs — do not edit.")
    out.append("   The arms of parse_expr's `match expr` with their class, the callee table of parse_func_call")
    out.append("   (names, suffix, ignore positional arguments?, ignored named arguments).  def_token!, the prelude of")
    out.append("   parse_expr (range check with `?`, push_to_span), the Text and Str arms and the default arm")
    out.append("   `a => token!(a, TokenKind::Unlintable)` were checked to have the shape Model/C04Typst.v mirrors. *)")
    out.append("From Coq Require Import List String.")
    out.append("Import ListNotations.")
    out.append("Inductive arm_class := ArmText | ArmStr | ArmLeaf | ArmRecurse.")
    out.append("Definition typst_arms : list (string * arm_class) :=")
    out.append("  [" + ";\n   ".join('("%s"%%string, %s)' % (n, c) for n, c in rows) + "].")
    out.append("Definition typst_calls : list (list string * string * bool * list string) :=")
    out.append("  [" + ";\n   ".join('(%s, "%s"%%string, %s, %s)' % (sl(ns), suf, b, sl(ig)) for ns, suf, b, ig in calls) + "].")
    out.append("(* emission order of the arms fixed by 3103238; parse_args_ignored keeps the arguments in text order *)")
    out.append("Definition typst_arm_order : list (string * list string) :=")
    out.append("  [" + "; ".join('("%s"%%string, %s)' % (n, sl(o)) for n, (_, o) in ORDER.items()) + "].")
    out.append("Definition typst_ignored_args_in_text_order : bool := true.")
    out.append("(* Typst::parse ends with the retain filter of b629a93 (Model/C04Typst.typst_retain), start value 0 *)")
    out.append("Definition typst_parse_has_retain_filter : bool := true.")
    return "\n".join(out) + "\n"
