"""spanexprs — audit of every place in harper-core/src/linting/*.rs (rule bodies, tests excluded) where a
span is *computed* rather than taken from a token or from a hull of tokens.  Each site is classified
into one of the schemas proved in bounds by C03_token_derived_in_bounds; anything else is Unknown and
breaks the obligation C03_rule_span_sites_known (a new kind of span arithmetic must be modelled)."""
import os, re

FRAMEWORK = {"lint_group.rs", "suggestion.rs", "lint.rs", "lint_kind.rs", "mod.rs", "pattern_linter.rs", "merge_linters.rs"}
TRIGGER = re.compile(r"Span::new\b|Span::new_with_len\b|\.with_len\(|\.pulled_by\(|\.pushed_by\(|\.push_by\(|\.pull_by\(|\.set_len\(|\.with_offset\(|Span\{|\.start[-+*/]|\.end[-+*/]|\.start[-+]?=[^=]|\.end[-+]?=[^=]|\bstart:|\bend:")
TOK = r"\w+(?:\.\d+)?(?:\.unwrap\(\))?"
CLASSES = [
    ("Between", re.compile(r"Span::new\(" + TOK + r"\.span\.start," + TOK + r"\.span\.end\)")),
    ("SuffixSpan", re.compile(r"Span::new_with_len\(\w+\.span\.end,2\)\.pulled_by\(2\)")),
    ("WithLen1", re.compile(r"\w+\.span\.with_len\(1\)")),
]

def strip_tests(src):
    i = src.find("#[cfg(test)]")
    return src if i < 0 else src[:i]

def strip_comments(src):
    src = re.sub(r"//[^\n]*", "", src)
    return re.sub(r"/\*.*?\*/", "", src, flags=re.S)

def statements(code):
    """split into statement-ish chunks: lines joined while parentheses/brackets are unbalanced or the
    next line continues a method chain"""
    lines = code.split("\n")
    out, cur, depth, start = [], "", 0, 1
    for i, l in enumerate(lines, 1):
        if not cur:
            start = i
        cur += l + " "
        depth += l.count("(") + l.count("[") - l.count(")") - l.count("]")
        nxt = lines[i].lstrip() if i < len(lines) else ""
        if depth <= 0 and not nxt.startswith("."):
            out.append((start, cur))
            cur, depth = "", 0
    if cur:
        out.append((start, cur))
    return out

# ---------------------------------------------------------------------------------------------------
# (2) every `Lint { .. }` a rule file constructs: where does its `span` field come from?
# ---------------------------------------------------------------------------------------------------
IDX = r"(?:\[[^\[\]]*\])?"
TOKEXPR = r"\w+" + IDX + r"(?:\.(?:first|last)\(\)\??)?(?:\.\d+)?(?:\.unwrap\(\))?"
SRC_CLASSES = [
    ("LBetween", re.compile(r"Span::new\(" + TOK + r"\.span\.start," + TOK + r"\.span\.end\)")),
    ("LSuffixSpan", re.compile(r"Span::new_with_len\(\w+\.span\.end,2\)\.pulled_by\(2\)(?:\.unwrap\(\))?")),
    ("LWithLen1", re.compile(r"\w+\.span\.with_len\(1\)")),
    ("LHull", re.compile(r"\w+" + IDX + r"\.span\(\)(?:\?|\.unwrap\(\))")),
    ("LTokSpan", re.compile(TOKEXPR + r"\.span")),
]

def match_brace(code, i):
    """code[i] == '{' -> index of the matching '}'"""
    depth = 0
    for j in range(i, len(code)):
        if code[j] == "{":
            depth += 1
        elif code[j] == "}":
            depth -= 1
            if depth == 0:
                return j
    raise RuntimeError("unbalanced braces")

def top_fields(body):
    out, cur, depth = [], "", 0
    for ch in body:
        if ch in "([{":
            depth += 1
        elif ch in ")]}":
            depth -= 1
        if ch == "," and depth == 0:
            out.append(cur)
            cur = ""
        else:
            cur += ch
    if cur.strip():
        out.append(cur)
    return [re.sub(r"\s+", "", f) for f in out]

def let_defs(code, name):
    """right-hand sides of `let [mut] name = E;` and `let Some(name) = E else`"""
    out = []
    for m in re.finditer(r"\blet\s+(?:mut\s+)?" + re.escape(name) + r"\s*(?::[^=;]+)?=(?!=)", code):
        j, depth = m.end(), 0
        while j < len(code):
            c = code[j]
            if c in "([{":
                depth += 1
            elif c in ")]}":
                depth -= 1
            elif c == ";" and depth == 0:
                break
            j += 1
        out.append(re.sub(r"\s+", "", code[m.end():j]))
    # `let (a, name, c) = match X { pat => (Ea, Ename, Ec), pat => continue, .. };` — the component of every arm
    for m in re.finditer(r"\blet\s*\(([^()]*)\)\s*=\s*match\b[^{;]*\{", code):
        names = [x.strip() for x in m.group(1).split(",")]
        if name not in names:
            continue
        k = names.index(name)
        end = match_brace(code, m.end() - 1)
        body = code[m.end():end]
        j, depth = 0, 0
        while j < len(body) - 1:
            c = body[j]
            if c in "([{":
                depth += 1
            elif c in ")]}":
                depth -= 1
            elif depth == 0 and body[j:j + 2] == "=>":
                t = j + 2
                while body[t].isspace():
                    t += 1
                if body[t] == "(":
                    d2, u = 0, t
                    while True:
                        if body[u] in "([{":
                            d2 += 1
                        elif body[u] in ")]}":
                            d2 -= 1
                            if d2 == 0:
                                break
                        u += 1
                    comps = top_fields(body[t + 1:u])
                    out.append(comps[k] if k < len(comps) else "?")
                    j = u + 1
                    continue
                elif not re.match(r"(continue|break|return)\b", body[t:]):
                    out.append("?arm:" + re.sub(r"\s+", "", body[t:t + 40]))
            j += 1
    for m in re.finditer(r"\blet\s+Some\(\s*" + re.escape(name) + r"\s*\)\s*=(?!=)(.*?)\belse\b", code, re.S):
        out.append(re.sub(r"\s+", "", m.group(1)))
    return out

def classify_src(code, expr, depth=0):
    for name, rx in SRC_CLASSES:
        if rx.fullmatch(expr):
            return [(name, expr)]
    if re.fullmatch(r"\w+", expr) and depth < 3:
        defs = let_defs(code, expr)
        if defs:
            cls = [classify_src(code, d, depth + 1) for d in defs]
            return [(c, expr + ":=" + e) for sub in cls for c, e in sub]
    return [("LUnknown", expr)]

def lint_sites(code):
    out = []
    for m in re.finditer(r"\bLint\s*\{", code):
        # not `impl .. for Lint {` / `struct Lint {`
        before = code[max(0, m.start() - 40):m.start()]
        if re.search(r"\b(impl|struct|for)\s+$", before) or re.search(r"\bfor\s+$", before):
            continue
        j = match_brace(code, m.end() - 1)
        fields = top_fields(code[m.end():j])
        sp = None
        for f in fields:
            if f == "span":
                sp = "span"
            elif f.startswith("span:"):
                sp = f[5:]
        if sp is None:
            out.append(("LUnknown", "Lint{..}withoutaspanfield"))
        else:
            out.extend(sorted(set(classify_src(code, sp))))
    return out

# ---------------------------------------------------------------------------------------------------
# (3) Suggestion: the enum's variants, the helper constructors, every constructor a rule file uses
# ---------------------------------------------------------------------------------------------------
def suggestion_table(d):
    src = strip_comments(strip_tests(open(os.path.join(d, "suggestion.rs"), encoding="utf-8").read()))
    m = re.search(r"pub\s+enum\s+Suggestion\s*\{", src)
    if not m:
        raise RuntimeError("enum Suggestion not found")
    body = src[m.end():match_brace(src, m.end() - 1)]
    variants = []
    for f in top_fields(body):
        f = re.sub(r"#\[[^\]]*\]", "", f)
        mm = re.fullmatch(r"(\w+)(\(.*\))?", f)
        if not mm:
            raise RuntimeError("unknown shape of a Suggestion variant: " + f)
        variants.append((mm.group(1), mm.group(2) or ""))
    helpers = {}
    for mm in re.finditer(r"pub\s+fn\s+(\w+)\s*\(([^)]*)\)\s*->\s*Self\s*\{", src):
        j = match_brace(src, mm.end() - 1)
        fbody = src[mm.end():j].strip()
        last = re.sub(r"\s+", "", fbody.split(";")[-1].split("}")[-1])
        r = re.fullmatch(r"Self::(\w+)\(.*\)", last)
        if not r:
            raise RuntimeError("helper constructor %s does not end in Self::X(..): %s" % (mm.group(1), last))
        helpers[mm.group(1)] = r.group(1)
    vnames = [v[0] for v in variants]
    def resolve(n, k=0):
        if n in vnames:
            return n
        if n in helpers and k < 4:
            return resolve(helpers[n], k + 1)
        return None
    return variants, helpers, resolve

def generate(repo):
    d = os.path.join(repo, "harper-core", "src", "linting")
    if not os.path.isdir(d):
        raise RuntimeError("no linting directory")
    sites = []
    lsites = []
    ssites = []
    files = []
    nfiles = 0
    variants, helpers, resolve = suggestion_table(d)
    for root, _, fs in os.walk(d):
        for f in sorted(fs):
            if not f.endswith(".rs") or f in FRAMEWORK:
                continue
            nfiles += 1
            code = strip_comments(strip_tests(open(os.path.join(root, f), encoding="utf-8").read()))
            rel = os.path.relpath(os.path.join(root, f), d)
            for line, st in statements(code):
                norm = re.sub(r"\s+", "", st)
                if not TRIGGER.search(norm):
                    continue
                rest = norm
                for name, rx in CLASSES:
                    for m in rx.finditer(norm):
                        sites.append((rel, line, m.group(0), name))
                    rest = rx.sub("§", rest)
                if TRIGGER.search(rest):
                    sites.append((rel, line, norm[:160], "Unknown"))
            ls = lint_sites(code)
            for cls, expr in ls:
                lsites.append((rel, expr[:160], cls))
            n_sug = 0
            for m in re.finditer(r"\bSuggestion::(\w+)", code):
                v = resolve(m.group(1))
                ssites.append((rel, m.group(1), {"ReplaceWith": "SReplaceWith", "InsertAfter": "SInsertAfter", "Remove": "SRemove"}.get(v, "SUnknown")))
                n_sug += 1
            # a file that constructs no Lint must say how its lints are made: by instantiating a rule of another file
            delegates = sorted(set(re.findall(r"\b(MapPhraseLinter|merge_linters|LintGroup|SpellCheck)\b", code))) if not ls else []
            files.append((rel, len(ls), delegates))
    if nfiles < 40:
        raise RuntimeError("only %d rule files found: layout changed" % nfiles)
    if not sites:
        raise RuntimeError("no span-computing site found: the scanner no longer recognises the code")
    if len(lsites) < 40:
        raise RuntimeError("only %d Lint constructions found: the scanner no longer recognises the code" % len(lsites))
    q = lambda t: t.replace('"', "'")
    out = ["(* GENERATED by tools/tables/spanexprs.py from /repo/harper-core/src/linting/*.rs — do not edit. *)",
           "From Coq Require Import List String.", "Import ListNotations.", "Open Scope string_scope.", "",
           "Inductive span_schema := Between | SuffixSpan | WithLen1 | Unknown.", "",
           "(* (file, expression with whitespace removed, schema) for every site in a rule body where a span is",
           "   computed rather than copied from a token or taken as the hull of tokens *)",
           "Definition rule_span_sites : list (string * string * span_schema) := ["]
    out.append(";\n".join('  ("%s", "%s", %s)' % (rel, q(expr), cls) for rel, line, expr, cls in sites))
    out.append("].")
    out.append("")
    out.append("Definition rule_files_scanned : nat := %d." % nfiles)
    out.append("")
    out.append("(* where the `span` field of every `Lint { .. }` constructed in a rule file comes from: a token's span, the hull")
    out.append("   `.span()` of a token slice, or one of the computed schemas; a local variable is followed to its `let` *)")
    out.append("Inductive lint_span_src := LTokSpan | LHull | LBetween | LSuffixSpan | LWithLen1 | LUnknown.")
    out.append("Definition rule_lint_sites : list (string * string * lint_span_src) := [")
    out.append(";\n".join('  ("%s", "%s", %s)' % (rel, q(expr), cls) for rel, expr, cls in lsites))
    out.append("].")
    out.append("")
    out.append("(* every rule file: number of Lint constructions in it, and — when there is none — the rule types of OTHER files it")
    out.append("   instantiates instead (their Lint constructions are in this table under their own file) *)")
    out.append("Definition rule_files : list (string * nat * list string) := [")
    out.append(";\n".join('  ("%s", %d, [%s])' % (rel, n, "; ".join('"%s"' % x for x in dl)) for rel, n, dl in files))
    out.append("].")
    out.append("")
    out.append("(* linting/suggestion.rs: the variants of `enum Suggestion` (name, payload) and the helper constructors (name, variant built) *)")
    out.append("Definition suggestion_variants : list (string * string) := [%s]." % "; ".join('("%s", "%s")' % (a, q(b)) for a, b in variants))
    out.append("Definition suggestion_helpers : list (string * string) := [%s]." % "; ".join('("%s", "%s")' % (a, b) for a, b in sorted(helpers.items())))
    out.append("Inductive sugg_ctor := SReplaceWith | SInsertAfter | SRemove | SUnknown.")
    out.append("(* (file, constructor or helper named after `Suggestion::`, the variant it builds) for every use in a rule file *)")
    out.append("Definition rule_suggestion_sites : list (string * string * sugg_ctor) := [")
    out.append(";\n".join('  ("%s", "%s", %s)' % (rel, n, c) for rel, n, c in ssites))
    out.append("].")
    return "\n".join(out) + "\n"


# ---------------------------------------------------------------------------------------------------
# (4) phase 5: the ROOT variable of every span source inside `impl PatternLinter for X { fn match_to_lint }`
#     (the span of each Lint construction and the receiver of each get_content / get_content_string):
#     is it built from the first parameter (the matched tokens) and from nothing else?
#     Each expression is parsed into the small language of Model/C03Roots.v:
#        ATok idx                         P[idx].span | P.first()?.span | P.last()?.span | P.get(n)?.span | v.span (v := one of these)
#        AHull lo hi                      P.span()? | P[a..b].span()? | P[a..].span()? | P[a..=b].span().unwrap()
#        idx := IConst n | IFirst | ILast | ILenMinus k | IDyn j   (j-th run-time value: any other index expression)
#     Anything else (another root, a shadowed parameter, an unknown shape) is AUnknown.
# ---------------------------------------------------------------------------------------------------
IMPL_PL = re.compile(r"\bimpl(?:\s*<[^{]*?>)?\s+PatternLinter\s+for\s+(\w+)[^{]*\{")
M2L = re.compile(r"\bfn\s+match_to_lint\s*\(\s*&self\s*,\s*(\w+)\s*:\s*&\[Token\]\s*,\s*(\w+)\s*:\s*&\[char\]\s*,?\s*\)\s*->\s*Option<Lint>\s*\{")


def _defs_before(body, name, pos):
    """(rhs, position) of the nearest `let [mut] name = E;` / `let Some(name) = E else` that ends before pos"""
    best = None
    for m in re.finditer(r"\blet\s+(?:mut\s+)?" + re.escape(name) + r"\s*(?::[^=;]+)?=(?!=)", body):
        j, depth = m.end(), 0
        while j < len(body):
            c = body[j]
            if c in "([{":
                depth += 1
            elif c in ")]}":
                depth -= 1
            elif c == ";" and depth == 0:
                break
            j += 1
        if j < pos and (best is None or m.start() > best[1]):
            best = (re.sub(r"\s+", "", body[m.end():j]), m.start())
    for m in re.finditer(r"\blet\s+Some\(\s*" + re.escape(name) + r"\s*\)\s*=(?!=)(.*?)\belse\b", body, re.S):
        if m.end() < pos and (best is None or m.start() > best[1]):
            best = (re.sub(r"\s+", "", m.group(1)), m.start())
    return best


def _bound_anywhere(body, name):
    """every way `name` could be re-bound inside the body other than a plain let (closure / for / match / if-let patterns)"""
    pats = [r"\|[^|]*\b%s\b[^|]*\|", r"\bfor\s+[^{;]*\b%s\b[^{;]*\bin\b", r"\bSome\(\s*%s\s*\)\s*=>", r"\bif\s+let\s+[^=]*\b%s\b[^=]*="]
    return any(re.search(p % re.escape(name), body) for p in pats)


class _Dyn:
    def __init__(self):
        self.n = 0
        self.exprs = []

    def fresh(self, e):
        self.exprs.append(e)
        self.n += 1
        return "IDyn %d" % (self.n - 1)


def _idx(e, P, dyn):
    if re.fullmatch(r"\d+", e):
        return "IConst %s" % e
    m = re.fullmatch(re.escape(P) + r"\.len\(\)-(\d+)", e)
    if m:
        return "ILenMinus %s" % m.group(1)
    if re.fullmatch(r"[\w+\-*]+", e):
        return dyn.fresh(e)
    return None


def _tok_ast(e, P, dyn):
    """e denotes ONE token of P -> idx, else None"""
    e = e.lstrip("&")
    m = re.fullmatch(re.escape(P) + r"\[([^\[\]]+)\]", e)
    if m and ".." not in m.group(1):
        return _idx(m.group(1), P, dyn)
    if re.fullmatch(re.escape(P) + r"\.first\(\)(?:\?|\.unwrap\(\))", e):
        return "IFirst"
    if re.fullmatch(re.escape(P) + r"\.last\(\)(?:\?|\.unwrap\(\))", e):
        return "ILast"
    m = re.fullmatch(re.escape(P) + r"\.get\((\d+)\)\?", e)
    if m:
        return "IConst %s" % m.group(1)
    return None


def parse_span_src(body, expr, pos, P, dyn, depth=0):
    """-> (coq AST text, root class) ; root: RMatched | ROther"""
    expr = expr.lstrip("&")
    if depth > 4:
        return ("AUnknown", "ROther")
    # a local variable holding a span
    if re.fullmatch(r"\w+", expr):
        if expr == P:
            return ("AUnknown", "ROther")
        d = _defs_before(body, expr, pos)
        if d is None or _bound_anywhere(body, expr):
            return ("AUnknown", "ROther")
        return parse_span_src(body, d[0], d[1], P, dyn, depth + 1)
    # P must still be the parameter at this point
    if _defs_before(body, P, pos) is not None or _bound_anywhere(body, P):
        return ("AUnknown", "ROther")
    # hull forms
    m = re.fullmatch(re.escape(P) + r"(?:\[([^\[\]]*)\])?\.span\(\)(?:\?|\.unwrap\(\))", expr)
    if m:
        rng = m.group(1)
        if rng is None:
            return ("AHull None HNone", "RMatched")
        r = re.fullmatch(r"([^.]*)\.\.(=?)([^.]*)", rng)
        if not r:
            return ("AUnknown", "ROther")
        lo = _idx(r.group(1), P, dyn) if r.group(1) else "-"
        hi = _idx(r.group(3), P, dyn) if r.group(3) else "-"
        if lo is None or hi is None or (r.group(2) and hi == "-"):
            return ("AUnknown", "ROther")
        lo_s = "None" if lo == "-" else "(Some (%s))" % lo
        hi_s = "HNone" if hi == "-" else ("(HIncl (%s))" % hi if r.group(2) else "(HExcl (%s))" % hi)
        return ("AHull %s %s" % (lo_s, hi_s), "RMatched")
    # token forms: T.span
    if expr.endswith(".span"):
        t = expr[:-5]
        i = _tok_ast(t, P, dyn)
        if i is not None:
            return ("ATok (%s)" % i, "RMatched")
        if re.fullmatch(r"\w+", t) and t != P and _defs_before(body, t, pos) is None:
            # `for (t, ..) in P.iter()..` / `for t in P.iter()..` / `for t in P` : some token of P
            fm = [m for m in re.finditer(r"\bfor\s*\(?\s*" + re.escape(t) + r"\s*(?:,[^)]*\))?\s*in\s+" + re.escape(P) + r"(?:\.iter\(\))?\b(?!\[)", body) if m.start() < pos]
            if len(fm) == 1 and len(re.findall(r"\b" + re.escape(t) + r"\b\s*(?:,[^)]*\))?\s*in\b", body)) == 1 and _defs_before(body, P, fm[0].start()) is None:
                return ("ATok (%s)" % dyn.fresh("for " + t), "RMatched")
        if re.fullmatch(r"\w+", t) and t != P:
            d = _defs_before(body, t, pos)
            if d is not None and not _bound_anywhere(body, t) and _defs_before(body, P, d[1]) is None:
                i = _tok_ast(d[0], P, dyn)
                if i is not None:
                    return ("ATok (%s)" % i, "RMatched")
    return ("AUnknown", "ROther")


def pattern_rule_bodies(repo):
    """-> rows (file, struct, [(what, expr, ast, root)]) for every `impl PatternLinter for`, extra Lint constructions of such
    files outside match_to_lint, and the registrations (names of insert_pattern_rule!, types of add_pattern_linter sites)"""
    d = os.path.join(repo, "harper-core", "src", "linting")
    rows, outside = [], []
    for root, _, fs in os.walk(d):
        for f in sorted(fs):
            if not f.endswith(".rs") or f in FRAMEWORK:
                continue
            code = strip_comments(strip_tests(open(os.path.join(root, f), encoding="utf-8").read()))
            rel = os.path.relpath(os.path.join(root, f), d)
            impls = list(IMPL_PL.finditer(code))
            if not impls and re.search(r"\bPatternLinter\s+for\b", code):
                raise RuntimeError("%s: an `impl .. PatternLinter for` of unknown shape" % rel)
            n_inside = 0
            for im in impls:
                iend = match_brace(code, im.end() - 1)
                block = code[im.end():iend]
                ms = list(M2L.finditer(block))
                if len(ms) != 1:
                    raise RuntimeError("%s: impl PatternLinter for %s: match_to_lint of unknown signature" % (rel, im.group(1)))
                m = ms[0]
                P = m.group(1)
                bend = match_brace(block, m.end() - 1)
                body = block[m.end():bend]
                sites = []
                for lm in re.finditer(r"\bLint\s*\{", body):
                    j = match_brace(body, lm.end() - 1)
                    sp = None
                    for fld in top_fields(body[lm.end():j]):
                        if fld == "span":
                            sp = "span"
                        elif fld.startswith("span:"):
                            sp = fld[5:]
                    if sp is None:
                        raise RuntimeError("%s: Lint { .. } without a span field in match_to_lint" % rel)
                    dyn = _Dyn()
                    ast, rootc = parse_span_src(body, sp, lm.start(), P, dyn)
                    sites.append(("lint", sp, ast, rootc, dyn.n))
                    n_inside += 1
                if not sites:
                    raise RuntimeError("%s: match_to_lint of %s constructs no Lint itself (a helper does?)" % (rel, im.group(1)))
                # receivers of get_content: positions are needed, so scan the un-normalised body statement-wise
                for rm in re.finditer(r"\.get_content(?:_string)?\(", body):
                    # walk back over the receiver chain (identifiers, [], (), ?, ., &, whitespace inside brackets)
                    k, depth = rm.start(), 0
                    while k > 0:
                        c = body[k - 1]
                        if c in ")]":
                            depth += 1
                        elif c in "([":
                            if depth == 0:
                                break
                            depth -= 1
                        elif depth == 0 and not (c.isalnum() or c in "_.?&" or c.isspace()):
                            break
                        k -= 1
                    recv = re.sub(r"\s+", "", body[k:rm.start()])
                    recv = re.sub(r"^(?:return|let|in|if|else|match)(?=\W)", "", recv)
                    dyn = _Dyn()
                    ast, rootc = parse_span_src(body, recv, rm.start(), P, dyn)
                    sites.append(("read", recv, ast, rootc, dyn.n))
                rows.append((rel, im.group(1), P, sites))
            if impls:
                total = len(re.findall(r"\bLint\s*\{", code)) - len(re.findall(r"\b(?:impl|struct|for)\s+Lint\s*\{", code))
                if total != n_inside:
                    outside.append((rel, total - n_inside))
    lg = strip_comments(open(os.path.join(d, "lint_group.rs"), encoding="utf-8").read())
    lg = strip_tests(lg)
    curated = re.findall(r"\binsert_pattern_rule!\(\s*(\w+)\s*,", lg)
    if len(curated) < 10:
        raise RuntimeError("lint_group.rs: insert_pattern_rule!(Name, ..) list not recognised")
    if len(re.findall(r"\badd_pattern_linter\(", lg)) != 2:
        raise RuntimeError("lint_group.rs: add_pattern_linter is used elsewhere than its definition and insert_pattern_rule!")
    if not re.search(r"out\.add_pattern_linter\(stringify!\(\$rule\),\s*Box::new\(\$rule::default\(\)\)\);", lg):
        raise RuntimeError("lint_group.rs: insert_pattern_rule! no longer registers $rule::default()")
    regs = []
    for root, _, fs in os.walk(d):
        for f in sorted(fs):
            if not f.endswith(".rs") or f == "lint_group.rs":
                continue
            code = strip_comments(strip_tests(open(os.path.join(root, f), encoding="utf-8").read()))
            for m in re.finditer(r"\.add_pattern_linter\(", code):
                j = code.find(";", m.end())
                t = re.search(r"Box::new\(\s*(\w+)::", code[m.end():j])
                if not t:
                    raise RuntimeError("%s: add_pattern_linter(..) with an argument of unknown shape" % f)
                regs.append((os.path.relpath(os.path.join(root, f), d), t.group(1)))
    return rows, outside, curated, regs


# ---------------------------------------------------------------------------------------------------
# (5) phase 5: where do the characters of a Suggestion built in a pattern rule body come from?  For every
#     `Suggestion::x(args)` of every match_to_lint: the get_content receivers reachable from the arguments through local
#     `let`s (depth <= 4), each parsed as in (4) and compared with the parse of the body's Lint spans:
#        PNoRead     no span content is read (literals, the rule's own tables, helper results)
#        PLintSpan   only the content of the lint's own span
#        PMatched    (also) content of other expressions over the matched tokens — inside the chunk, maybe outside the lint span
#        POther      content of a span that is not an expression over the matched tokens
# ---------------------------------------------------------------------------------------------------
def _balanced_args(body, i):
    """body[i] == '(' -> text between the matching parentheses"""
    depth = 0
    for j in range(i, len(body)):
        if body[j] in "([{":
            depth += 1
        elif body[j] in ")]}":
            depth -= 1
            if depth == 0:
                return body[i + 1:j]
    raise RuntimeError("unbalanced parentheses")


def _reads_in(body, text, pos, P, seen, depth=0):
    """parses of the get_content receivers in `text` (located at `pos` in body) and in the definitions of its locals"""
    out = []
    for rm in re.finditer(r"\.get_content(?:_string)?\(", text):
        k, d = rm.start(), 0
        while k > 0:
            c = text[k - 1]
            if c in ")]":
                d += 1
            elif c in "([":
                if d == 0:
                    break
                d -= 1
            elif d == 0 and not (c.isalnum() or c in "_.?&" or c.isspace()):
                break
            k -= 1
        recv = re.sub(r"\s+", "", text[k:rm.start()])
        out.append(parse_span_src(body, recv, pos, P, _Dyn()))
    if depth < 4:
        for ident in set(re.findall(r"\b[a-z_]\w*\b", re.sub(r"\.\s*\w+", "", text))):
            if ident in seen:
                continue
            dfn = _defs_before(body, ident, pos)
            # a Vec filled after its definition: `ident.push(e)` / `ident.extend(e)` before this point
            for um in re.finditer(r"\b" + re.escape(ident) + r"\.(?:push|extend|extend_from_slice|insert)\(", body[:pos]):
                out.extend(_reads_in(body, _balanced_args(body, um.end() - 1), um.start(), P, seen, depth + 1))
            if dfn is None:
                continue
            seen.add(ident)
            # the raw text of the definition (positions are needed for nested lookups): find it again un-normalised
            m = re.search(r"\blet\s+(?:mut\s+)?" + re.escape(ident) + r"\b", body[dfn[1]:])
            j = body.find(";", dfn[1])
            raw = body[dfn[1]:j if j > 0 else len(body)]
            # a span-valued local counts through its uses (x.get_content), not through its definition
            if re.search(r"\.get_content", raw) or not re.search(r"\.span\b", raw):
                out.extend(_reads_in(body, raw.split("=", 1)[1] if "=" in raw else raw, dfn[1], P, seen, depth + 1))
    return out


def pattern_suggestion_payloads(repo):
    d = os.path.join(repo, "harper-core", "src", "linting")
    rows = []
    for root, _, fs in os.walk(d):
        for f in sorted(fs):
            if not f.endswith(".rs") or f in FRAMEWORK:
                continue
            code = strip_comments(strip_tests(open(os.path.join(root, f), encoding="utf-8").read()))
            for im in IMPL_PL.finditer(code):
                block = code[im.end():match_brace(code, im.end() - 1)]
                m = M2L.search(block)
                if not m:
                    raise RuntimeError("match_to_lint not found")
                P = m.group(1)
                body = block[m.end():match_brace(block, m.end() - 1)]
                lint_asts = set()
                for lm in re.finditer(r"\bLint\s*\{", body):
                    for fld in top_fields(body[lm.end():match_brace(body, lm.end() - 1)]):
                        sp = "span" if fld == "span" else (fld[5:] if fld.startswith("span:") else None)
                        if sp:
                            lint_asts.add(parse_span_src(body, sp, lm.start(), P, _Dyn())[0])
                for sm in re.finditer(r"\bSuggestion::(\w+)", body):
                    k = sm.end()
                    args = _balanced_args(body, k) if k < len(body) and body[k] == "(" else ""
                    reads = _reads_in(body, args, sm.start(), P, set())
                    if not reads:
                        cls = "PNoRead"
                    elif any(r[1] != "RMatched" for r in reads):
                        cls = "POther"
                    elif all(r[0] in lint_asts for r in reads):
                        cls = "PLintSpan"
                    else:
                        cls = "PMatched"
                    rows.append((im.group(1), sm.group(1), cls))
    return rows
