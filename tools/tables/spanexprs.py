"""spanexprs — audit of every place in harper-core/src/linting/*.rs (rule bodies, tests excluded) where a
span is *computed* rather than taken from a token or from a hull of tokens.  Each site is classified
into one of the schemas proved in bounds by C03_token_derived_in_bounds; anything else is Unknown and
breaks the obligation C03_rule_span_sites_known (a new kind of span arithmetic must be modelled)."""
import os, re

FRAMEWORK = {"lint_group.rs", "suggestion.rs", "lint.rs", "lint_kind.rs", "mod.rs", "pattern_linter.rs", "merge_linters.rs"}
TRIGGER = re.compile(r"Span::new\b|Span::new_with_len\b|\.with_len\(|\.pulled_by\(|\.pushed_by\(|\.push_by\(|\.pull_by\(|\.set_len\(|\.with_offset\(|Span\{|\.start[-+*/]|\.end[-+*/]|\.start[-+]?=[^=]|\.end[-+]?=[^=]|\bstart:|\bend:")
TOK = r"\w+(?:\.\d+)?(?:\.unwrap\(\))?"
CLASSES = [
    ("Between", re.compile(r"Span::new\(" + TOK + r"\.span\.start," + TOK + r"\.span\.end\)")),
    ("SuffixSpan", re.compile(r"Span::new_with_len\(\w+\.span\.end,2\)\.pulled_by\(2\)")),
    ("WithLen1", re.compile(r"\w+\.span\.with_len\(1\)")),
]

def strip_tests(src):
    i = src.find("#[cfg(test)]")
    return src if i < 0 else src[:i]

def strip_comments(src):
    src = re.sub(r"//[^\n]*", "", src)
    return re.sub(r"/\*.*?\*/", "", src, flags=re.S)

def statements(code):
    """split into statement-ish chunks: lines joined while parentheses/brackets are unbalanced or the
    next line continues a method chain"""
    lines = code.split("\n")
    out, cur, depth, start = [], "", 0, 1
    for i, l in enumerate(lines, 1):
        if not cur:
            start = i
        cur += l + " "
        depth += l.count("(") + l.count("[") - l.count(")") - l.count("]")
        nxt = lines[i].lstrip() if i < len(lines) else ""
        if depth <= 0 and not nxt.startswith("."):
            out.append((start, cur))
            cur, depth = "", 0
    if cur:
        out.append((start, cur))
    return out

# ---------------------------------------------------------------------------------------------------
# (2) every `Lint { .. }` a rule file constructs: where does its `span` field come from?
# ---------------------------------------------------------------------------------------------------
IDX = r"(?:\[[^\[\]]*\])?"
TOKEXPR = r"\w+" + IDX + r"(?:\.(?:first|last)\(\)\??)?(?:\.\d+)?(?:\.unwrap\(\))?"
SRC_CLASSES = [
    ("LBetween", re.compile(r"Span::new\(" + TOK + r"\.span\.start," + TOK + r"\.span\.end\)")),
    ("LSuffixSpan", re.compile(r"Span::new_with_len\(\w+\.span\.end,2\)\.pulled_by\(2\)(?:\.unwrap\(\))?")),
    ("LWithLen1", re.compile(r"\w+\.span\.with_len\(1\)")),
    ("LHull", re.compile(r"\w+" + IDX + r"\.span\(\)(?:\?|\.unwrap\(\))")),
    ("LTokSpan", re.compile(TOKEXPR + r"\.span")),
]

def match_brace(code, i):
    """code[i] == '{' -> index of the matching '}'"""
    depth = 0
    for j in range(i, len(code)):
        if code[j] == "{":
            depth += 1
        elif code[j] == "}":
            depth -= 1
            if depth == 0:
                return j
    raise RuntimeError("unbalanced braces")

def top_fields(body):
    out, cur, depth = [], "", 0
    for ch in body:
        if ch in "([{":
            depth += 1
        elif ch in ")]}":
            depth -= 1
        if ch == "," and depth == 0:
            out.append(cur)
            cur = ""
        else:
            cur += ch
    if cur.strip():
        out.append(cur)
    return [re.sub(r"\s+", "", f) for f in out]

def let_defs(code, name):
    """right-hand sides of `let [mut] name = E;` and `let Some(name) = E else`"""
    out = []
    for m in re.finditer(r"\blet\s+(?:mut\s+)?" + re.escape(name) + r"\s*(?::[^=;]+)?=(?!=)", code):
        j, depth = m.end(), 0
        while j < len(code):
            c = code[j]
            if c in "([{":
                depth += 1
            elif c in ")]}":
                depth -= 1
            elif c == ";" and depth == 0:
                break
            j += 1
        out.append(re.sub(r"\s+", "", code[m.end():j]))
    # `let (a, name, c) = match X { pat => (Ea, Ename, Ec), pat => continue, .. };` — the component of every arm
    for m in re.finditer(r"\blet\s*\(([^()]*)\)\s*=\s*match\b[^{;]*\{", code):
        names = [x.strip() for x in m.group(1).split(",")]
        if name not in names:
            continue
        k = names.index(name)
        end = match_brace(code, m.end() - 1)
        body = code[m.end():end]
        j, depth = 0, 0
        while j < len(body) - 1:
            c = body[j]
            if c in "([{":
                depth += 1
            elif c in ")]}":
                depth -= 1
            elif depth == 0 and body[j:j + 2] == "=>":
                t = j + 2
                while body[t].isspace():
                    t += 1
                if body[t] == "(":
                    d2, u = 0, t
                    while True:
                        if body[u] in "([{":
                            d2 += 1
                        elif body[u] in ")]}":
                            d2 -= 1
                            if d2 == 0:
                                break
                        u += 1
                    comps = top_fields(body[t + 1:u])
                    out.append(comps[k] if k < len(comps) else "?")
                    j = u + 1
                    continue
                elif not re.match(r"(continue|break|return)\b", body[t:]):
                    out.append("?arm:" + re.sub(r"\s+", "", body[t:t + 40]))
            j += 1
    for m in re.finditer(r"\blet\s+Some\(\s*" + re.escape(name) + r"\s*\)\s*=(?!=)(.*?)\belse\b", code, re.S):
        out.append(re.sub(r"\s+", "", m.group(1)))
    return out

def classify_src(code, expr, depth=0):
    for name, rx in SRC_CLASSES:
        if rx.fullmatch(expr):
            return [(name, expr)]
    if re.fullmatch(r"\w+", expr) and depth < 3:
        defs = let_defs(code, expr)
        if defs:
            cls = [classify_src(code, d, depth + 1) for d in defs]
            return [(c, expr + ":=" + e) for sub in cls for c, e in sub]
    return [("LUnknown", expr)]

def lint_sites(code):
    out = []
    for m in re.finditer(r"\bLint\s*\{", code):
        # not `impl .. for Lint {` / `struct Lint {`
        before = code[max(0, m.start() - 40):m.start()]
        if re.search(r"\b(impl|struct|for)\s+$", before) or re.search(r"\bfor\s+$", before):
            continue
        j = match_brace(code, m.end() - 1)
        fields = top_fields(code[m.end():j])
        sp = None
        for f in fields:
            if f == "span":
                sp = "span"
            elif f.startswith("span:"):
                sp = f[5:]
        if sp is None:
            out.append(("LUnknown", "Lint{..}withoutaspanfield"))
        else:
            out.extend(sorted(set(classify_src(code, sp))))
    return out

# ---------------------------------------------------------------------------------------------------
# (3) Suggestion: the enum's variants, the helper constructors, every constructor a rule file uses
# ---------------------------------------------------------------------------------------------------
def suggestion_table(d):
    src = strip_comments(strip_tests(open(os.path.join(d, "suggestion.rs"), encoding="utf-8").read()))
    m = re.search(r"pub\s+enum\s+Suggestion\s*\{", src)
    if not m:
        raise RuntimeError("enum Suggestion not found")
    body = src[m.end():match_brace(src, m.end() - 1)]
    variants = []
    for f in top_fields(body):
        f = re.sub(r"#\[[^\]]*\]", "", f)
        mm = re.fullmatch(r"(\w+)(\(.*\))?", f)
        if not mm:
            raise RuntimeError("unknown shape of a Suggestion variant: " + f)
        variants.append((mm.group(1), mm.group(2) or ""))
    helpers = {}
    for mm in re.finditer(r"pub\s+fn\s+(\w+)\s*\(([^)]*)\)\s*->\s*Self\s*\{", src):
        j = match_brace(src, mm.end() - 1)
        fbody = src[mm.end():j].strip()
        last = re.sub(r"\s+", "", fbody.split(";")[-1].split("}")[-1])
        r = re.fullmatch(r"Self::(\w+)\(.*\)", last)
        if not r:
            raise RuntimeError("helper constructor %s does not end in Self::X(..): %s" % (mm.group(1), last))
        helpers[mm.group(1)] = r.group(1)
    vnames = [v[0] for v in variants]
    def resolve(n, k=0):
        if n in vnames:
            return n
        if n in helpers and k < 4:
            return resolve(helpers[n], k + 1)
        return None
    return variants, helpers, resolve

def generate(repo):
    d = os.path.join(repo, "harper-core", "src", "linting")
    if not os.path.isdir(d):
        raise RuntimeError("no linting directory")
    sites = []
    lsites = []
    ssites = []
    files = []
    nfiles = 0
    variants, helpers, resolve = suggestion_table(d)
    for root, _, fs in os.walk(d):
        for f in sorted(fs):
            if not f.endswith(".rs") or f in FRAMEWORK:
                continue
            nfiles += 1
            code = strip_comments(strip_tests(open(os.path.join(root, f), encoding="utf-8").read()))
            rel = os.path.relpath(os.path.join(root, f), d)
            for line, st in statements(code):
                norm = re.sub(r"\s+", "", st)
                if not TRIGGER.search(norm):
                    continue
                rest = norm
                for name, rx in CLASSES:
                    for m in rx.finditer(norm):
                        sites.append((rel, line, m.group(0), name))
                    rest = rx.sub("§", rest)
                if TRIGGER.search(rest):
                    sites.append((rel, line, norm[:160], "Unknown"))
            ls = lint_sites(code)
            for cls, expr in ls:
                lsites.append((rel, expr[:160], cls))
            n_sug = 0
            for m in re.finditer(r"\bSuggestion::(\w+)", code):
                v = resolve(m.group(1))
                ssites.append((rel, m.group(1), {"ReplaceWith": "SReplaceWith", "InsertAfter": "SInsertAfter", "Remove": "SRemove"}.get(v, "SUnknown")))
                n_sug += 1
            # a file that constructs no Lint must say how its lints are made: by instantiating a rule of another file
            delegates = sorted(set(re.findall(r"\b(MapPhraseLinter|merge_linters|LintGroup|SpellCheck)\b", code))) if not ls else []
            files.append((rel, len(ls), delegates))
    if nfiles < 40:
        raise RuntimeError("only %d rule files found: layout changed" % nfiles)
    if not sites:
        raise RuntimeError("no span-computing site found: the scanner no longer recognises the code")
    if len(lsites) < 40:
        raise RuntimeError("only %d Lint constructions found: the scanner no longer recognises the code" % len(lsites))
    q = lambda t: t.replace('"', "'")
    out = ["(* GENERATED by tools/tables/spanexprs.py from /repo/harper-core/src/linting/*.rs — do not edit. *)",
           "From Coq Require Import List String.", "Import ListNotations.", "Open Scope string_scope.", "",
           "Inductive span_schema := Between | SuffixSpan | WithLen1 | Unknown.", "",
           "(* (file, expression with whitespace removed, schema) for every site in a rule body where a span is",
           "   computed rather than copied from a token or taken as the hull of tokens *)",
           "Definition rule_span_sites : list (string * string * span_schema) := ["]
    out.append(";\n".join('  ("%s", "%s", %s)' % (rel, q(expr), cls) for rel, line, expr, cls in sites))
    out.append("].")
    out.append("")
    out.append("Definition rule_files_scanned : nat := %d." % nfiles)
    out.append("")
    out.append("(* where the `span` field of every `Lint { .. }` constructed in a rule file comes from: a token's span, the hull")
    out.append("   `.span()` of a token slice, or one of the computed schemas; a local variable is followed to its `let` *)")
    out.append("Inductive lint_span_src := LTokSpan | LHull | LBetween | LSuffixSpan | LWithLen1 | LUnknown.")
    out.append("Definition rule_lint_sites : list (string * string * lint_span_src) := [")
    out.append(";\n".join('  ("%s", "%s", %s)' % (rel, q(expr), cls) for rel, expr, cls in lsites))
    out.append("].")
    out.append("")
    out.append("(* every rule file: number of Lint constructions in it, and — when there is none — the rule types of OTHER files it")
    out.append("   instantiates instead (their Lint constructions are in this table under their own file) *)")
    out.append("Definition rule_files : list (string * nat * list string) := [")
    out.append(";\n".join('  ("%s", %d, [%s])' % (rel, n, "; ".join('"%s"' % x for x in dl)) for rel, n, dl in files))
    out.append("].")
    out.append("")
    out.append("(* linting/suggestion.rs: the variants of `enum Suggestion` (name, payload) and the helper constructors (name, variant built) *)")
    out.append("Definition suggestion_variants : list (string * string) := [%s]." % "; ".join('("%s", "%s")' % (a, q(b)) for a, b in variants))
    out.append("Definition suggestion_helpers : list (string * string) := [%s]." % "; ".join('("%s", "%s")' % (a, b) for a, b in sorted(helpers.items())))
    out.append("Inductive sugg_ctor := SReplaceWith | SInsertAfter | SRemove | SUnknown.")
    out.append("(* (file, constructor or helper named after `Suggestion::`, the variant it builds) for every use in a rule file *)")
    out.append("Definition rule_suggestion_sites : list (string * string * sugg_ctor) := [")
    out.append(";\n".join('  ("%s", "%s", %s)' % (rel, n, c) for rel, n, c in ssites))
    out.append("].")
    return "\n".join(out) + "\n"
